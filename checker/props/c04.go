package props

import (
	"fmt"
	"go/token"
	"strings"

	"golang.org/x/tools/go/ssa"

	"shverif/core"
)

func init() {
	Register(&Property{
		ID:   "C04",
		Pkgs: []string{"./internal/data_model", "./internal/api", "./internal/agent", "./internal/aggregator"},
		Run:  runC04,
		Mutants: []Mutant{
			// R1 (revert of fix F2 and friends)
			{Name: "revert-F2-merge-filters-with-rhs-good", File: "internal/data_model/ch_unique.go", Rule: "C04-R1",
				Old: "if rhs.buf[i] != 0 && ch.good(rhs.buf[i]) {", New: "if rhs.buf[i] != 0 && rhs.good(rhs.buf[i]) {"},
			{Name: "merge-inserts-unfiltered", File: "internal/data_model/ch_unique.go", Rule: "C04-R1",
				Old: "if rhs.buf[i] != 0 && ch.good(rhs.buf[i]) {", New: "if rhs.buf[i] != 0 {"},
			{Name: "insertHash-filter-dropped", File: "internal/data_model/ch_unique.go", Rule: "C04-R1",
				Old: "	if !ch.good(hashValue) {\n		return\n	}\n	ch.insertImpl(hashValue)", New: "	ch.insertImpl(hashValue)"},
			// R2 (revert of fix F3 and friends)
			{Name: "revert-F3-mergeread-rehash-without-degree", File: "internal/data_model/ch_unique.go", Rule: "C04-R2",
				Old: "	if uint32(sd) > ch.skipDegree {\n		ch.skipDegree = uint32(sd)\n		ch.rehash()", New: "	if uint32(sd) > ch.skipDegree {\n		ch.rehash()"},
			{Name: "merge-rehash-before-degree", File: "internal/data_model/ch_unique.go", Rule: "C04-R2",
				Old: "		ch.skipDegree = rhs.skipDegree\n		ch.rehash()", New: "		ch.rehash()\n		ch.skipDegree = rhs.skipDegree"},
			{Name: "merge-adopts-wrong-degree", File: "internal/data_model/ch_unique.go", Rule: "C04-R2",
				Old: "		ch.skipDegree = rhs.skipDegree\n		ch.rehash()", New: "		ch.skipDegree = rhs.sizeDegree\n		ch.rehash()"},
			// R3
			{Name: "merge-min-without-host", File: "internal/data_model/bucket.go", Rule: "C04-R3",
				Old: "		s.ValueMin = s2.ValueMin\n		s.MinHostTag = s2.MinHostTag\n", New: "		s.ValueMin = s2.ValueMin\n"},
			{Name: "merge-max-host-from-min", File: "internal/data_model/bucket.go", Rule: "C04-R3",
				Old: "		s.MaxHostTag = s2.MaxHostTag\n", New: "		s.MaxHostTag = s2.MinHostTag\n"},
			{Name: "merge-max-direction-flipped", File: "internal/data_model/bucket.go", Rule: "C04-R3",
				Old: "if !s.ValueSet || s2.ValueMax > s.ValueMax {", New: "if !s.ValueSet || s2.ValueMax < s.ValueMax {"},
			{Name: "add-value-host-not-updated", File: "internal/data_model/bucket.go", Rule: "C04-R3",
				Old: "		s.ValueMax = value\n		s.MaxHostTag = hostTag\n", New: "		s.ValueMax = value\n"},
			{Name: "tl-merge-min-host-from-max", File: "internal/data_model/transfer.go", Rule: "C04-R3",
				Old: "s.MinHostTag = TagUnion{I: s2.MinHostTag, S: string(s2.MinHostStag)}", New: "s.MinHostTag = TagUnion{I: s2.MaxHostTag, S: string(s2.MaxHostStag)}"},
			{Name: "tl-merge-min-compared-with-max", File: "internal/data_model/transfer.go", Rule: "C04-R3",
				Old: "if !s.ValueSet || s2.ValueMin < s.ValueMin {\n		s.ValueMin = s2.ValueMin\n		s.MinHostTag = TagUnion", New: "if !s.ValueSet || s2.ValueMin < s.ValueMax {\n		s.ValueMin = s2.ValueMin\n		s.MinHostTag = TagUnion"},
			{Name: "api-merge-min-direction", File: "internal/api/tscache.go", Rule: "C04-R3",
				Old: "	if rhs.min < v.min {\n		v.min = rhs.min", New: "	if rhs.min > v.min {\n		v.min = rhs.min"},
			{Name: "value-set-not-checked-for-max", File: "internal/data_model/bucket.go", Rule: "C04-R3",
				Old: "	if !s.ValueSet || value > s.ValueMax {\n		s.ValueMax = value", New: "	if value > s.ValueMax {\n		s.ValueMax = value"},
			// R4
			{Name: "counter-merge-host-cleared", File: "internal/data_model/max_host_probability.go", Rule: "C04-R4",
				Old: "	if rng.Uint64n(totalWeight) >= weight {\n		s.MaxCounterHostTag = other.MaxCounterHostTag\n	}", New: "	if rng.Uint64n(totalWeight) >= weight {\n		s.MaxCounterHostTag = TagUnion{}\n	}"},
			{Name: "counter-first-host-not-taken", File: "internal/data_model/max_host_probability.go", Rule: "C04-R4",
				Old: "	if s.counter <= 0 {\n		s.MaxCounterHostTag = other.MaxCounterHostTag\n		s.counter = other.counter\n		return\n	}", New: "	if s.counter <= 0 {\n		s.counter = other.counter\n		return\n	}"},
			// R5
			{Name: "api-first-merge-in-place", File: "internal/api/tscache.go", Rule: "C04-R5",
				Old: "	if v.mergeCount == 0 {\n		// \"unique\"", New: "	if v.mergeCount < 0 {\n		// \"unique\""},
			{Name: "api-merge-count-not-advanced", File: "internal/api/tscache.go", Rule: "C04-R5",
				Old: "	v.mergeCount++\n", New: ""},
		},
	})
}

const (
	tyChU  = dmPkg + ".ChUnique"
	tChU   = dmPkg + ".(*ChUnique)."
	tyIV   = dmPkg + ".ItemValue"
	tyIC   = dmPkg + ".ItemCounter"
	tyTSV  = "internal/api.tsValues"
	tyTLMV = "internal/data_model/gen2/internal.StatshouseMultiValueBytes"
)

func runC04(c *core.Check) {
	c.Decides = "the sketch-invariant discipline and host attribution that order independence rests on: (R1) every ChUnique.insertImpl(v) on receiver X is dominated by X.good(v) — same receiver, same value, nothing in between — " +
		"so a sketch never holds hashes its own thinning level discards; (R2) every X.rehash() is immediately preceded by the store that raises X.skipDegree, and that store takes the peer's degree it was compared with (or an increment); " +
		"(R3) every store to ItemValue.ValueMin/ValueMax is made together with MinHostTag/MaxHostTag of the same receiver from the same source operand, under `first value || source < current` (min) resp. `current < source` (max); the API row merge uses the same directions; " +
		"(R4) ItemCounter.MaxCounterHostTag only ever receives a host parameter or the other operand's MaxCounterHostTag, and the empty-receiver branch adopts it; " +
		"(R5) api.tsValues.merge mutates unique/percentile in place only when mergeCount != 0, and mergeCount is advanced by every merge."
	c.NotDecided = "host attribution across the agent→aggregator transfer (an empty min / max-count host that differs from the max host arrives as the max host: known finding F18, reported by C02-R5, not repeated here), commutativity/associativity of floating-point sums, equality of unique estimates for all merge trees, the probability distribution of the max-count host, rehash/resize internals of the hash table."
	all := c.Prog.Funcs()
	c04R1(c, all)
	c04R2(c, all)
	c04R3(c, all)
	c04R4(c, all)
	c04R5(c)
}

// noEffectBetween: b executes after a with no call or store in between on every path
// (a dominates b, and from a one cannot reach b through another call/store).
func noEffectBetween(a, b ssa.Instruction) bool {
	if !core.Dominates(a, b) {
		return false
	}
	isEffect := func(in ssa.Instruction) bool {
		if in == a || in == b {
			return false
		}
		switch in.(type) {
		case *ssa.Store, *ssa.MapUpdate, ssa.CallInstruction:
			return true
		}
		return false
	}
	stopAB := func(in ssa.Instruction) bool { return in == a || in == b }
	// every effect e reachable from a (without re-executing a or passing b) must not lead to b
	// unless a is executed again first
	seen := map[ssa.Instruction]bool{}
	for {
		p := core.ReachWithout(a, func(in ssa.Instruction) bool { return isEffect(in) && !seen[in] }, stopAB)
		if p == nil {
			return true
		}
		seen[p.End] = true
		if core.ReachWithout(p.End, func(in ssa.Instruction) bool { return in == b }, func(in ssa.Instruction) bool { return in == a }) != nil {
			return false
		}
		if len(seen) > 200 {
			return false
		}
	}
}

func c04R1(c *core.Check, all []*ssa.Function) {
	const R = "C04-R1"
	c.Rule(R, "K1+K7", 2, "every call X.insertImpl(v) is dominated by X.good(v) == true with the same receiver X and the same value v, with no call or store between the test and the insert")
	sites := core.Callers(all, tChU+"insertImpl")
	keys := core.Ordinals(sites)
	for i, s := range sites {
		c.CallSites++
		recv, val := s.Arg(0), s.Arg(1)
		var why string
		ok := false
		for _, g := range core.Facts(s.Block()) {
			if len(g.Alts) != 1 {
				continue
			}
			l := g.Alts[0]
			call, isCall := l.Cond.(*ssa.Call)
			if !isCall || !l.Pol || core.CalleeName(&call.Call) != tChU+"good" {
				continue
			}
			switch {
			case !sameAddr(call.Call.Args[0], recv):
				why = "the filter is evaluated on " + core.Expr(call.Call.Args[0]) + " but the value is inserted into " + core.Expr(recv) + ": the receiving sketch may already discard this hash at its own thinning level"
			case !sameAddr(call.Call.Args[1], val):
				why = "good() tests " + core.Expr(call.Call.Args[1]) + " but " + core.Expr(val) + " is inserted"
			case !noEffectBetween(call, s.Instr):
				why = "a call or store happens between the good() test and the insert (the thinning level or the value may have changed)"
			default:
				ok = true
			}
			if ok {
				break
			}
		}
		if !ok && why == "" {
			why = "insertImpl is not dominated by a good() test of the receiving sketch; facts: " + core.FactsString(s.Block())
		}
		c.Require(ok, R, keys[i], s.Pos(), "insert guarded by the receiver's own good()", why)
	}
	for _, u := range core.FuncValueUses(all, tChU+"insertImpl") {
		c.Fail(R, core.FuncName(u.Parent())+"/value-use:insertImpl", u.Pos(), "insertImpl is used as a function value")
	}
}

func c04R2(c *core.Check, all []*ssa.Function) {
	const R = "C04-R2"
	c.Rule(R, "K6 pairing", 3, "every call X.rehash() is preceded in its block, with no call in between, by a store to X.skipDegree; the stored value is the peer degree V of the dominating test X.skipDegree < V, or X.skipDegree + 1")
	sites := core.Callers(all, tChU+"rehash")
	keys := core.Ordinals(sites)
	for i, s := range sites {
		c.CallSites++
		recv := s.Arg(0)
		b := s.Block()
		idx := core.InstrIndex(s.Instr)
		var st *ssa.Store
		for j := idx - 1; j >= 0; j-- {
			in := b.Instrs[j]
			if _, isCall := in.(ssa.CallInstruction); isCall {
				break
			}
			if x, ok := in.(*ssa.Store); ok && core.IsField(x.Addr, tyChU, "skipDegree") {
				if fa := x.Addr.(*ssa.FieldAddr); sameAddr(fa.X, recv) {
					st = x
				}
				break
			}
		}
		if st == nil {
			c.Fail(R, keys[i], s.Pos(), "rehash() is called without the skip degree of "+core.Expr(recv)+" having been raised just before: the sketch keeps its old thinning level although it must adopt the higher one (merged estimate over-counts)")
			continue
		}
		// value: peer degree of the dominating comparison, or own degree + 1
		okVal := false
		if bo, ok := st.Val.(*ssa.BinOp); ok && bo.Op == token.ADD && core.IntConstIs(bo.Y, 1) {
			if base, isF := dmFieldLoad(bo.X, tyChU, "skipDegree"); isF && sameAddr(base, recv) {
				okVal = true
			}
		}
		if !okVal {
			okVal = holdsPred(b, func(l core.Lit) bool {
				if l.Op != token.LSS || !l.Pol {
					return false
				}
				base, isF := dmFieldLoad(l.X, tyChU, "skipDegree")
				return isF && sameAddr(base, recv) && (l.Y == st.Val || sameAddr(l.Y, st.Val))
			})
		}
		c.Require(okVal, R, keys[i], s.Pos(), "skip degree raised to the compared peer degree (or incremented) right before rehash",
			"the value stored into skipDegree before rehash ("+core.Expr(st.Val)+") is neither the peer degree the receiver's degree was compared with nor an increment; facts: "+core.FactsString(b))
	}
}

// hostPair: value field -> host field(s) that must be co-updated, and the comparison direction.
type hostPair struct {
	value string
	host  string
	isMin bool
}

var ivPairs = []hostPair{{"ValueMin", "MinHostTag", true}, {"ValueMax", "MaxHostTag", false}}

func c04R3(c *core.Check, all []*ssa.Function) {
	const R = "C04-R3"
	c.Rule(R, "K6 co-update + K1 direction", 8, "every store to ItemValue.ValueMin (ValueMax) is in a block that also stores MinHostTag (MaxHostTag) of the same receiver, host and value come from the same source operand "+
		"(same parameter list / fields Min*/Max* of the same peer object), and the block is entered only under `!recv.ValueSet || source < recv.ValueMin` (resp. `recv.ValueMax < source`); api.tsValues.merge stores min under rhs.min < v.min and max under v.max < rhs.max")
	valueHostPairs(c, R, all)
	// API row merge directions
	if fn := need(c, R, "internal/api.(*tsValues).merge"); fn != nil {
		for _, d := range []struct {
			field string
			isMin bool
		}{{"min", true}, {"max", false}} {
			ws := core.FieldWrites([]*ssa.Function{fn}, tyTSV, d.field)
			if len(ws) != 1 {
				c.Undecided(R, core.FuncName(fn)+"/store:"+d.field, fn.Pos(), fmt.Sprintf("expected one store to tsValues.%s, found %d", d.field, len(ws)))
				continue
			}
			st := ws[0].Instr.(*ssa.Store)
			recv := st.Addr.(*ssa.FieldAddr).X
			ok := holdsPred(st.Block(), func(l core.Lit) bool {
				if l.Op != token.LSS || !l.Pol {
					return false
				}
				cur, src := l.Y, l.X
				if !d.isMin {
					cur, src = l.X, l.Y
				}
				base, isF := dmFieldLoad(cur, tyTSV, d.field)
				return isF && sameAddr(base, recv) && sameAddr(src, st.Val)
			})
			c.Require(ok, R, core.FuncName(fn)+"/store:"+d.field, st.Pos(), "API merge takes the smaller min / larger max",
				"tsValues."+d.field+" is replaced by "+core.Expr(st.Val)+" without the comparison in the right direction; facts: "+core.FactsString(st.Block()))
		}
	}
}

// valueHostPairs checks, for every store to ItemValue.ValueMin/ValueMax in fns, the co-update with the
// min/max host from the same source under the right comparison (shared by C04-R3 and C02-R6).
func valueHostPairs(c *core.Check, R string, all []*ssa.Function) {
	for _, pr := range ivPairs {
		ws := core.FieldWrites(all, tyIV, pr.value)
		var ins []ssa.Instruction
		for _, w := range ws {
			ins = append(ins, w.Instr)
		}
		keys := instrKeys("store:ItemValue."+pr.value, ins)
		for i, w := range ws {
			st, ok := w.Instr.(*ssa.Store)
			if !ok {
				c.Undecided(R, keys[i], w.Instr.Pos(), "unexpected kind of write to ItemValue."+pr.value)
				continue
			}
			recv := st.Addr.(*ssa.FieldAddr).X
			b := st.Block()
			// (a) host store in the same block, same receiver
			var hst *ssa.Store
			for _, in := range b.Instrs {
				if x, isSt := in.(*ssa.Store); isSt && core.IsField(x.Addr, tyIV, pr.host) && sameAddr(x.Addr.(*ssa.FieldAddr).X, recv) {
					hst = x
				}
			}
			if hst == nil {
				c.Fail(R, keys[i], st.Pos(), fmt.Sprintf("%s is assigned without %s in the same block: the reported %s host would not be a host that contributed the %s value",
					pr.value, pr.host, strings.ToLower(pr.value[5:]), strings.ToLower(pr.value[5:])))
				continue
			}
			// (b) same source
			if why := sameSource(st.Val, hst.Val, pr, b); why != "" {
				c.Fail(R, keys[i], st.Pos(), why)
				continue
			}
			// (c) guard: a disjunction made of exactly the two alternatives "first value" and "beats the current one"
			okGuard := false
			for _, g := range core.Facts(b) {
				nFirst, nCmp := 0, 0
				for _, l := range g.Alts {
					if l.Op == 0 && !l.Pol {
						if base, isF := dmFieldLoad(l.Cond, tyIV, "ValueSet"); isF && sameAddr(base, recv) {
							nFirst++
							continue
						}
					}
					if l.Op == token.LSS && l.Pol {
						cur, src := l.Y, l.X // min: source < current
						if !pr.isMin {
							cur, src = l.X, l.Y // max: current < source
						}
						if base, isF := dmFieldLoad(cur, tyIV, pr.value); isF && sameAddr(base, recv) && (src == st.Val || sameAddr(src, st.Val)) {
							nCmp++
							continue
						}
					}
					nFirst, nCmp = -1000, -1000
				}
				if nFirst >= 1 && nCmp >= 1 {
					okGuard = true
				}
			}
			want := "!recv.ValueSet || source < recv.ValueMin"
			if !pr.isMin {
				want = "!recv.ValueSet || recv.ValueMax < source"
			}
			c.Require(okGuard, R, keys[i], st.Pos(), pr.value+" and "+pr.host+" updated together under "+want,
				pr.value+" is replaced without the guard `"+want+"` on the stored source value: the result would depend on merge order; facts: "+core.FactsString(b))
		}
	}
	// a host store without the value store would also break attribution
	for _, pr := range ivPairs {
		for _, w := range core.FieldWrites(all, tyIV, pr.host) {
			st, ok := w.Instr.(*ssa.Store)
			if !ok {
				continue
			}
			recv := st.Addr.(*ssa.FieldAddr).X
			has := false
			for _, in := range st.Block().Instrs {
				if x, isSt := in.(*ssa.Store); isSt && core.IsField(x.Addr, tyIV, pr.value) && sameAddr(x.Addr.(*ssa.FieldAddr).X, recv) {
					has = true
				}
			}
			if !has {
				c.Fail(R, core.FuncName(w.Fn)+"/store:ItemValue."+pr.host+"/alone", st.Pos(), pr.host+" is assigned without "+pr.value+": the reported host would not belong to the reported value")
			}
		}
	}
}

// sameSource explains why value and host do not come from the same source operand ("" if they do).
func sameSource(val, host ssa.Value, pr hostPair, b *ssa.BasicBlock) string {
	prefix := "Min"
	if !pr.isMin {
		prefix = "Max"
	}
	// event form: both are parameters of the function
	if core.ParamPos(val) >= 0 {
		if core.ParamPos(host) >= 0 {
			return ""
		}
		return "the value comes from a parameter but the host " + core.Expr(host) + " does not"
	}
	// peer form: value is peer.Value<Min|Max>; host is peer.<Min|Max>HostTag or TagUnion{peer.<Min|Max>HostTag, peer.<Min|Max>HostStag}
	_, vfield, ok := core.FieldOf(val)
	peer := core.Deref(val)
	if !ok || peer == nil || vfield != pr.value {
		return "the stored value " + core.Expr(val) + " is not the peer's " + pr.value + " nor a parameter"
	}
	peerBase := peer.(*ssa.FieldAddr).X
	check := func(h ssa.Value) string {
		h = dmStripStringConv(h)
		_, hf, ok := core.FieldOf(h)
		ha := core.Deref(h)
		if !ok || ha == nil {
			return "the host component " + core.Expr(h) + " is not a field of the peer"
		}
		if !strings.HasPrefix(hf, prefix+"Host") {
			return "the host is taken from the peer's " + hf + " while the value is the peer's " + pr.value
		}
		if !sameAddr(ha.(*ssa.FieldAddr).X, peerBase) {
			return "host and value are taken from different objects"
		}
		return ""
	}
	if _, _, isField := core.FieldOf(host); isField {
		return check(host)
	}
	// TagUnion literal built in a temporary of this block
	if al, ok := core.Deref(host).(*ssa.Alloc); ok {
		n := 0
		for _, st := range core.StoresTo(al) {
			_ = st
		}
		for _, r := range core.Referrers(al) {
			fa, ok := r.(*ssa.FieldAddr)
			if !ok {
				continue
			}
			for _, u := range core.Referrers(fa) {
				if st, ok := u.(*ssa.Store); ok && st.Addr == ssa.Value(fa) {
					n++
					if st.Block() != b {
						return "the host literal is filled in another block"
					}
					if why := check(st.Val); why != "" {
						return why
					}
				}
			}
		}
		if n > 0 {
			return ""
		}
	}
	return "cannot relate the host " + core.Expr(host) + " to the source of the value " + core.Expr(val)
}

func dmStripStringConv(v ssa.Value) ssa.Value {
	if cv, ok := v.(*ssa.Convert); ok {
		return cv.X
	}
	return v
}

func c04R4(c *core.Check, all []*ssa.Function) {
	const R = "C04-R4"
	c.Rule(R, "K7 value provenance", 7, "every store to ItemCounter.MaxCounterHostTag takes a TagUnion parameter of the function or the MaxCounterHostTag of another ItemCounter (not the receiver); in AddCounterHost and ItemCounter.Merge the `counter <= 0` branch adopts the incoming host")
	ws := core.FieldWrites(all, tyIC, "MaxCounterHostTag")
	var ins []ssa.Instruction
	for _, w := range ws {
		ins = append(ins, w.Instr)
	}
	keys := instrKeys("store:MaxCounterHostTag", ins)
	for i, w := range ws {
		st, ok := w.Instr.(*ssa.Store)
		if !ok {
			c.Undecided(R, keys[i], w.Instr.Pos(), "unexpected kind of write")
			continue
		}
		recv := st.Addr.(*ssa.FieldAddr).X
		v := st.Val
		okv := false
		switch {
		case core.ParamPos(v) >= 0 || isParamSpill(w.Fn, v):
			okv = true
		default:
			if base, isF := dmFieldLoad(v, tyIC, "MaxCounterHostTag"); isF && !sameAddr(base, recv) {
				okv = true
			}
		}
		c.Require(okv, R, keys[i], st.Pos(), "max-count host comes from a contributing operand",
			"MaxCounterHostTag is set to "+core.Expr(v)+", which is neither the host parameter nor the other operand's MaxCounterHostTag: the reported max-count host would not be one of the contributing hosts")
	}
	// the empty-receiver branch must adopt the incoming host
	for _, name := range []string{dmPkg + ".(*ItemCounter).AddCounterHost", dmPkg + ".(*ItemCounter).Merge"} {
		fn := need(c, R, name)
		if fn == nil {
			continue
		}
		found := false
		for _, w := range core.FieldWrites([]*ssa.Function{fn}, tyIC, "MaxCounterHostTag") {
			st := w.Instr.(*ssa.Store)
			recv := st.Addr.(*ssa.FieldAddr).X
			if holdsPred(st.Block(), func(l core.Lit) bool { // s.counter <= 0  ≡ !(0 < s.counter)
				if l.Op != token.LSS || l.Pol || !constFloat(l.X, 0) {
					return false
				}
				base, isF := dmFieldLoad(l.Y, tyIC, "counter")
				return isF && sameAddr(base, recv)
			}) {
				found = true
			}
		}
		c.Require(found, R, name+"/first-contribution", fn.Pos(), "an empty receiver adopts the incoming host",
			"when the receiver has no count yet ("+"counter <= 0) the incoming host is not adopted: the max-count host would stay empty / stale although the only contribution has a host")
	}
}

func isParamSpill(fn *ssa.Function, v ssa.Value) bool {
	for i := range fn.Params {
		if core.ParamOrSpill(fn, v, i) {
			return true
		}
	}
	return false
}

func c04R5(c *core.Check) {
	const R = "C04-R5"
	c.Rule(R, "K1 guard dominance", 4, "in api.tsValues.merge every in-place mutation of the receiver's unique sketch / percentile digest (ChUnique.Merge on &v.unique, TDigest.Merge on v.percentile) is guarded by mergeCount != 0; every return is preceded by mergeCount++")
	fn := need(c, R, "internal/api.(*tsValues).merge")
	if fn == nil {
		return
	}
	name := core.FuncName(fn)
	recv := ssa.Value(fn.Params[0])
	notFirst := func(l core.Lit) bool {
		if l.Op != token.EQL || l.Pol || !core.IntConstIs(l.Y, 0) {
			return false
		}
		base, ok := dmFieldLoad(l.X, tyTSV, "mergeCount")
		return ok && base == recv
	}
	n := 0
	for _, s := range core.Calls(fn) {
		inPlace := ""
		switch {
		case s.Callee == tChU+"Merge":
			if fa, ok := s.Arg(0).(*ssa.FieldAddr); ok && core.IsField(fa, tyTSV, "unique") && fa.X == recv {
				inPlace = "unique"
			}
		case strings.HasSuffix(s.Callee, "tdigest.(*TDigest).Merge"):
			if base, ok := dmFieldLoad(s.Arg(0), tyTSV, "percentile"); ok && base == recv {
				inPlace = "percentile"
			}
		}
		if inPlace == "" {
			continue
		}
		n++
		c.CallSites++
		c.Require(holdsPred(s.Block(), notFirst), R, fmt.Sprintf("%s/in-place:%s#%d", name, inPlace, n), s.Pos(), "in-place merge only after the first (copying) merge",
			"v."+inPlace+" is merged in place without the guard mergeCount != 0: on the first merge it still aliases read-only cache memory, so the cached row (and every later query) is corrupted and results depend on query order; facts: "+core.FactsString(s.Block()))
	}
	if n < 2 {
		c.Undecided(R, name+"/in-place-sites", fn.Pos(), fmt.Sprintf("expected the in-place unique and percentile merges, found %d", n))
	}
	inc := func(in ssa.Instruction) bool {
		st, ok := in.(*ssa.Store)
		if !ok || !core.IsField(st.Addr, tyTSV, "mergeCount") {
			return false
		}
		bo, ok := st.Val.(*ssa.BinOp)
		return ok && bo.Op == token.ADD && core.IntConstIs(bo.Y, 1)
	}
	p := core.ReachFromEntryWithout(fn, core.IsReturn, inc)
	c.Require(p == nil, R, name+"/mergeCount++", fn.Pos(), "every merge advances mergeCount", "merge can return without incrementing mergeCount: the next merge would copy again (harmless) or — if the counter is never advanced — the guard is meaningless: "+pathStr(p))
	// the copying branch really copies: stores to v.unique / v.percentile under mergeCount == 0 take fresh objects
	for _, f := range []string{"unique", "percentile"} {
		for i, w := range core.FieldWrites([]*ssa.Function{fn}, tyTSV, f) {
			st := w.Instr.(*ssa.Store)
			first := holdsPred(st.Block(), func(l core.Lit) bool {
				if l.Op != token.EQL || !l.Pol || !core.IntConstIs(l.Y, 0) {
					return false
				}
				base, ok := dmFieldLoad(l.X, tyTSV, "mergeCount")
				return ok && base == recv
			})
			if !first {
				continue
			}
			fresh := isNilConst(st.Val)
			if call, ok := st.Val.(*ssa.Call); ok && strings.HasSuffix(core.CalleeName(&call.Call), "tdigest.New") {
				fresh = true
			}
			if al, ok := core.Deref(st.Val).(*ssa.Alloc); ok && al.Parent() == fn {
				fresh = true // local ChUnique{} built in this call
			}
			c.Require(fresh, R, fmt.Sprintf("%s/first-merge-copy:%s#%d", name, f, i+1), st.Pos(), "first merge stores a fresh object",
				"on the first merge v."+f+" is set to "+core.Expr(st.Val)+", not to a freshly built copy: later in-place merges would write into cache memory")
		}
	}
}
