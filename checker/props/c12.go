package props

import (
	"fmt"
	"go/constant"
	"go/token"
	"go/types"
	"math"
	"sort"
	"strings"

	"golang.org/x/tools/go/ssa"

	"shverif/core"
)

func init() {
	Register(&Property{
		ID:   "C12",
		Pkgs: []string{"./internal/agent", "./internal/data_model", "./internal/format", "./cmd/statshouse"},
		Run:  runC12,
		Mutants: []Mutant{
			{Name: "counter-applied-before-status-test", File: "internal/agent/agent.go", Rule: "C12-R1",
				Old: "	if h.IngestionStatus != 0 {\n		// h.InvalidString was validated before mapping attempt.",
				New: "	if len(m.Unique)+len(m.Histogram)+len(m.Value) == 0 {\n		shard.ApplyCounter(&h.Key, 0, m.Counter, h.HostTag, h.MetricMeta, 0)\n	}\n	if h.IngestionStatus != 0 {\n		// h.InvalidString was validated before mapping attempt."},
			{Name: "shard-failure-ignored-with-secondary", File: "internal/agent/agent.go", Rule: "C12-R1",
				Old: "	if !shard1ok { // first shard must always be correctly set, while second one is optional",
				New: "	if !shard1ok && shard2 == nil { // first shard must always be correctly set, while second one is optional"},
			{Name: "sharding-failure-not-recorded", File: "internal/agent/agent.go", Rule: "C12-R2",
				Old: "		shard.AddCounterHostSrcIngestionStatus(0, format.BuiltinMetricMetaIngestionStatusNoShard,\n			[]int32{h.Key.Tags[0], h.Key.Metric, format.TagValueIDSrcIngestionStatusErrShardingFailed, 0},\n			1, 0)\n		return",
				New: "		return"},
			{Name: "rejected-status-recorded-twice", File: "internal/agent/agent.go", Rule: "C12-R2",
				Old: "			h.InvalidString, 1, 0)\n		if shard2 != nil {\n			shard2.AddCounterHostStringBytesSrcIngestionStatus(0, format.BuiltinMetricMetaIngestionStatus,\n				[]int32{h.Key.Tags[0], h.Key.Metric, h.IngestionStatus, h.IngestionTagKey, format.TagValueIDComponentAgent},\n				h.InvalidString, 1, dropIfBeforeTimestamp)",
				New: "			h.InvalidString, 1, 0)\n		if shard2 != nil {\n			shard.AddCounterHostStringBytesSrcIngestionStatus(0, format.BuiltinMetricMetaIngestionStatus,\n				[]int32{h.Key.Tags[0], h.Key.Metric, h.IngestionStatus, h.IngestionTagKey, format.TagValueIDComponentAgent},\n				h.InvalidString, 1, dropIfBeforeTimestamp)"},
			{Name: "rejected-status-without-reason", File: "internal/agent/agent.go", Rule: "C12-R2",
				Old: "		shard.AddCounterHostStringBytesSrcIngestionStatus(0, format.BuiltinMetricMetaIngestionStatus,\n			[]int32{h.Key.Tags[0], h.Key.Metric, h.IngestionStatus, h.IngestionTagKey, format.TagValueIDComponentAgent},\n			h.InvalidString, 1, 0)\n		if shard2 != nil {",
				New: "		shard.AddCounterHostStringBytesSrcIngestionStatus(0, format.BuiltinMetricMetaIngestionStatus,\n			[]int32{h.Key.Tags[0], h.Key.Metric, format.TagValueIDSrcIngestionStatusOKCached, h.IngestionTagKey, format.TagValueIDComponentAgent},\n			h.InvalidString, 1, 0)\n		if shard2 != nil {"},
			{Name: "validation-result-dropped", File: "internal/agent/agent_mapping.go", Rule: "C12-R3",
				Old: "	h.IngestionStatus = data_model.ValidateMetricData(args.MetricBytes)", New: "	_ = data_model.ValidateMetricData(args.MetricBytes)"},
			{Name: "validation-skipped-early-return", File: "internal/agent/agent_mapping.go", Rule: "C12-R3",
				Old: "	if h.IngestionStatus != 0 {\n		return\n	}\n	// validate values only if metric is valid",
				New: "	if h.IngestionStatus != 0 || len(args.MetricBytes.Tags) == 0 {\n		return\n	}\n	// validate values only if metric is valid"},
			{Name: "worker-skips-apply-without-meta", File: "cmd/statshouse/worker.go", Rule: "C12-R3",
				Old: "	} else {\n		w.sh2.MapEnvironment(args.MetricBytes, &h)\n	}",
				New: "	} else {\n		w.sh2.MapEnvironment(args.MetricBytes, &h)\n		return\n	}"},
			{Name: "worker-skips-map", File: "cmd/statshouse/worker.go", Rule: "C12-R3",
				Old: "	if metaOk {\n		w.sh2.Map(args, &h, w.autoCreate)\n	} else {", New: "	if metaOk && w.autoCreate != nil {\n		w.sh2.Map(args, &h, w.autoCreate)\n	} else {"},
			{Name: "histogram-not-validated", File: "internal/data_model/validation.go", Rule: "C12-R4",
				Old: "	for _, v := range metricBytes.Histogram {\n		if ingestionError = format.ValidateValue(v[0]); ingestionError != 0 {\n			return\n		}\n		if ingestionError = format.ValidateCounter(v[1]); ingestionError != 0 {\n			return\n		}\n	}\n",
				New: ""},
			{Name: "histogram-weight-validated-as-value", File: "internal/data_model/validation.go", Rule: "C12-R4",
				Old: "format.ValidateCounter(v[1])", New: "format.ValidateValue(v[1])"},
			{Name: "value-error-not-returned", File: "internal/data_model/validation.go", Rule: "C12-R4",
				Old: "	for _, v := range metricBytes.Value {\n		if ingestionError = format.ValidateValue(v); ingestionError != 0 {\n			return\n		}\n	}",
				New: "	for _, v := range metricBytes.Value {\n		if ingestionError = format.ValidateValue(v); ingestionError != 0 {\n			break\n		}\n	}"},
			{Name: "only-first-value-validated", File: "internal/data_model/validation.go", Rule: "C12-R4",
				Old: "	for _, v := range metricBytes.Value {\n		if ingestionError = format.ValidateValue(v); ingestionError != 0 {\n			return\n		}\n	}",
				New: "	if len(metricBytes.Value) != 0 {\n		if ingestionError = format.ValidateValue(metricBytes.Value[0]); ingestionError != 0 {\n			return\n		}\n	}"},
			{Name: "both-set-test-dropped", File: "internal/data_model/validation.go", Rule: "C12-R4",
				Old: "	if len(metricBytes.Value)+len(metricBytes.Histogram) != 0 && len(metricBytes.Unique) != 0 {\n		return format.TagValueIDSrcIngestionStatusErrValueUniqueBothSet\n	}\n",
				New: ""},
			{Name: "negative-counter-accepted", File: "internal/format/format.go", Rule: "C12-R5",
				Old: "	if f < 0 {\n		return TagValueIDSrcIngestionStatusErrNegativeCounter\n	}\n", New: ""},
			{Name: "value-lower-bound-wrong-sign", File: "internal/format/format.go", Rule: "C12-R5",
				Old: "	if f < -math.MaxFloat32 {", New: "	if f < -math.MaxFloat64 {"},
			{Name: "nan-value-accepted", File: "internal/format/format.go", Rule: "C12-R5",
				Old: "	if math.IsNaN(f) {\n		return TagValueIDSrcIngestionStatusErrNanInfValue\n	}\n", New: ""},
			{Name: "status-without-error-text", File: "internal/data_model/mapped_metric_header.go", Rule: "C12-R6",
				Old: "	case format.TagValueIDSrcIngestionStatusErrZeroCounter:\n		return fmt.Errorf(\"zero counter for metric %q\", m.Name)\n", New: ""},
		},
	})
}

const (
	fnApplyMetric = "internal/agent.(*Agent).ApplyMetric"
	fnAgentShard  = "internal/agent.(*Agent).shard"
	fnValidate    = "internal/data_model.ValidateMetricData"
	fnVCounter    = "internal/format.ValidateCounter"
	fnVValue      = "internal/format.ValidateValue"
)

func runC12(c *core.Check) {
	c.Decides = "(R1) in Agent.ApplyMetric every Apply{Unique,Values,Counter} call is dominated by h.MetricMeta != nil, a successful primary-shard choice by the Agent.shard call that produced its receiver, and h.IngestionStatus == 0, and the header status is not written there; " +
		"(R2) every return of ApplyMetric that no Apply* call can reach is preceded on every path by exactly one ingestion-status record on the primary shard whose tags carry h.IngestionStatus or the sharding-failed constant; " +
		"(R3) Agent.Map stores ValidateMetricData's result into h.IngestionStatus on every path on which mapping left it 0, and worker.HandleMetrics reaches ApplyMetric on every path and Map on every path on which the metric was found; " +
		"(R4) ValidateMetricData passes Counter and every Histogram weight to ValidateCounter, every Value and Histogram value to a validator (whole range loops), returns a validator's non-zero result immediately, " +
		"and accepts neither value+unique events nor empty events; (R5) ValidateCounter/ValidateValue return 0 only for non-NaN arguments within [0 or -MaxFloat32, +MaxFloat32]; " +
		"(R6) every status constant that can be stored into MappedMetricHeader.IngestionStatus has a case in MapErrorFromHeader."
	c.NotDecided = "tag name/value validity (format.AppendValidStringValue, C11); the counter/value weighting arithmetic of ApplyValues/ApplyUnique; that the status record itself is not dropped by the shard (C08); loop reasoning that all elements are validated is structural (range idiom over the whole slice), not arithmetic."

	c12Guards(c)
	c12Accounting(c)
	c12Map(c)
	c12Validate(c)
	c12Ranges(c)
	c12Registry(c)
	debugObs(c)
}

// holdsAnyL: some guard (loop-aware) has every alternative accepted by one of preds.
func holdsAnyL(b *ssa.BasicBlock, preds ...func(core.Lit) bool) bool {
	for _, g := range core.FactsL(b) {
		all := len(g.Alts) > 0
		for _, l := range g.Alts {
			m := false
			for _, p := range preds {
				if p(l) {
					m = true
					break
				}
			}
			if !m {
				all = false
				break
			}
		}
		if all {
			return true
		}
	}
	return false
}

func formatConst(c *core.Check, rule, name string) (int64, bool) {
	if pk := c.Prog.Pkg("internal/format"); pk != nil && pk.Types != nil {
		if k, ok := pk.Types.Scope().Lookup(name).(*types.Const); ok {
			return constantInt64(k)
		}
	}
	c.Anchor(rule, "internal/format."+name)
	return 0, false
}

// ---- R1 ---------------------------------------------------------------------------------

func c12Guards(c *core.Check) {
	const rule = "C12-R1"
	c.Rule(rule, "K1 guard-dominance", 6+1, "every Apply{Unique,Values,Counter} call in ApplyMetric is dominated by h.MetricMeta != nil, shard1ok of the shard call its receiver comes from, and h.IngestionStatus == 0; ApplyMetric does not write h.IngestionStatus")
	fn := need(c, rule, fnApplyMetric)
	if fn == nil || len(fn.Params) < 3 {
		return
	}
	h := ssa.Value(fn.Params[2])
	ws := core.FieldWrites(core.WithAnon(fn), tyHeader, "IngestionStatus")
	c.Require(len(ws) == 0, rule, fnApplyMetric+"/status-not-written", fn.Pos(), "the status tested is the one the mapping stage left", "ApplyMetric itself stores into h.IngestionStatus: the guards below do not speak about the mapping/validation verdict any more")
	sites := core.CallsTo(fn, tShard+"ApplyUnique", tShard+"ApplyValues", tShard+"ApplyCounter")
	keys := core.Ordinals(sites)
	for i, s := range sites {
		c.CallSites++
		var missing []string
		if _, ok := litOn(s.Block(), func(l core.Lit) bool {
			fa, is := fieldLoad(l.X, tyHeader, "MetricMeta")
			return is && fa.X == h && l.Op == token.EQL && !l.Pol && isNilConst(l.Y)
		}); !ok {
			missing = append(missing, "h.MetricMeta != nil")
		}
		if _, ok := litOn(s.Block(), func(l core.Lit) bool {
			fa, is := fieldLoad(l.X, tyHeader, "IngestionStatus")
			k, isC := constInt64(l.Y)
			return is && fa.X == h && l.Op == token.EQL && l.Pol && isC && k == 0
		}); !ok {
			missing = append(missing, "h.IngestionStatus == 0")
		}
		var shardCall *ssa.Call
		if ex, ok := strip(s.Arg(0)).(*ssa.Extract); ok {
			if call, isCall := ex.Tuple.(*ssa.Call); isCall && core.CalleeName(&call.Call) == fnAgentShard {
				shardCall = call
			}
		}
		if shardCall == nil {
			missing = append(missing, "receiver from Agent.shard")
		} else if _, ok := litOn(s.Block(), func(l core.Lit) bool {
			ex, is := l.Cond.(*ssa.Extract)
			return is && l.Pol && ex.Index == 1 && ex.Tuple == ssa.Value(shardCall)
		}); !ok {
			missing = append(missing, "shard1ok of the shard call")
		}
		c.Require(len(missing) == 0, rule, keys[i], s.Pos(), "applied only for a found metric, a valid shard and status OK",
			"the event is applied to its metric without "+strings.Join(missing, ", ")+" being established: an invalid event contributes to the metric; facts: "+core.FactsString(s.Block()))
	}
}

// ---- R2 ---------------------------------------------------------------------------------

func c12Accounting(c *core.Check) {
	const rule = "C12-R2"
	c.Rule(rule, "K6 exactly-one on every path", 3, "each return of ApplyMetric not reachable from an Apply* call is preceded on every path by exactly one AddCounterHost{,StringBytes}SrcIngestionStatus call on the primary shard (s.Shards[0] or first result of Agent.shard) whose tag list carries h.IngestionStatus or TagValueIDSrcIngestionStatusErrShardingFailed")
	fn := need(c, rule, fnApplyMetric)
	if fn == nil || len(fn.Params) < 3 {
		return
	}
	h := ssa.Value(fn.Params[2])
	shardingFailed, _ := formatConst(c, rule, "TagValueIDSrcIngestionStatusErrShardingFailed")
	applies := core.CallsTo(fn, tShard+"ApplyUnique", tShard+"ApplyValues", tShard+"ApplyCounter")
	statusCallees := []string{tShard + "AddCounterHostSrcIngestionStatus", tShard + "AddCounterHostStringBytesSrcIngestionStatus"}
	isPrimary := func(v ssa.Value) bool {
		v = strip(v)
		if ex, ok := v.(*ssa.Extract); ok && ex.Index == 0 {
			call, isCall := ex.Tuple.(*ssa.Call)
			return isCall && core.CalleeName(&call.Call) == fnAgentShard
		}
		if u, ok := v.(*ssa.UnOp); ok && u.Op == token.MUL {
			if ia, isIA := u.X.(*ssa.IndexAddr); isIA {
				k, isC := constInt64(ia.Index)
				_, isShards := fieldLoad(ia.X, "internal/agent.Agent", "Shards")
				return isC && k == 0 && isShards
			}
		}
		return false
	}
	var primary []core.Site
	for _, s := range core.CallsTo(fn, statusCallees...) {
		if isPrimary(s.Arg(0)) {
			primary = append(primary, s)
		}
	}
	isPrimaryStatus := func(in ssa.Instruction) bool {
		for _, s := range primary {
			if s.Instr == in {
				return true
			}
		}
		return false
	}
	// does the tag list of a status call name the reason?
	namesReason := func(s core.Site) bool {
		var tags ssa.Value
		for _, a := range s.Common().Args {
			if sl, ok := a.(*ssa.Slice); ok {
				if _, isArr := sl.X.(*ssa.Alloc); isArr {
					tags = sl.X
				}
			}
		}
		if tags == nil {
			return false
		}
		for _, ref := range core.Referrers(tags) {
			ia, ok := ref.(*ssa.IndexAddr)
			if !ok {
				continue
			}
			for _, r2 := range core.Referrers(ia) {
				st, isSt := r2.(*ssa.Store)
				if !isSt || st.Addr != ssa.Value(ia) {
					continue
				}
				if fa, is := fieldLoad(st.Val, tyHeader, "IngestionStatus"); is && fa.X == h {
					return true
				}
				if k, isC := constInt64(st.Val); isC && k == shardingFailed && shardingFailed != 0 {
					return true
				}
			}
		}
		return false
	}
	n := 0
	for _, r := range realReturns(fn) {
		r := r
		isR := func(in ssa.Instruction) bool { return in == ssa.Instruction(r) }
		applied := false
		for _, a := range applies {
			if core.ReachWithout(a.Instr, isR, nil) != nil {
				applied = true
			}
		}
		if applied {
			continue
		}
		n++
		key := fmt.Sprintf("%s/rejected-return#%d", fnApplyMetric, n)
		if p := core.ReachFromEntryWithout(fn, isR, isPrimaryStatus); p != nil {
			c.Fail(rule, key, r.Pos(), "a rejected event can leave ApplyMetric without any ingestion-status record on the primary shard: "+pathStr(p))
			continue
		}
		twice, noReason := "", ""
		for _, s1 := range primary {
			if core.ReachWithout(s1.Instr, isR, nil) == nil {
				continue
			}
			if !namesReason(s1) {
				noReason = c.Prog.Pos(s1.Pos())
			}
			for _, s2 := range primary {
				if s1.Instr == s2.Instr {
					continue
				}
				s2 := s2
				if core.ReachWithout(s1.Instr, func(in ssa.Instruction) bool { return in == s2.Instr }, nil) != nil && core.ReachWithout(s2.Instr, isR, nil) != nil {
					twice = c.Prog.Pos(s1.Pos()) + " and " + c.Prog.Pos(s2.Pos())
				}
			}
		}
		switch {
		case twice != "":
			c.Fail(rule, key, r.Pos(), "a rejected event is recorded twice on the primary shard ("+twice+")")
		case noReason != "":
			c.Fail(rule, key, r.Pos(), "the status record at "+noReason+" of a rejected event carries neither h.IngestionStatus nor the sharding-failed constant: the reason is not named")
		default:
			c.Pass(rule, key, r.Pos(), "exactly one status record naming the reason on the primary shard")
		}
	}
}

// ---- R3 ---------------------------------------------------------------------------------

func c12Map(c *core.Check) {
	const rule = "C12-R3"
	c.Rule(rule, "K6+K7", 4, "Agent.Map: every return is either under h.IngestionStatus != 0 (read after mapAllTags) or behind the store h.IngestionStatus = ValidateMetricData(args.MetricBytes) with the MetricBytes that was mapped; worker.HandleMetrics: ApplyMetric on every path, Map on every path after fillMetricMeta()==true, both with the same header")
	if fn := need(c, rule, "internal/agent.(*Agent).Map"); fn != nil && len(fn.Params) >= 3 {
		h := ssa.Value(fn.Params[2])
		maps := core.CallsTo(fn, "internal/agent.(*Agent).mapAllTags")
		var store *ssa.Store
		nStores := 0
		for _, w := range core.FieldWrites([]*ssa.Function{fn}, tyHeader, "IngestionStatus") {
			if st, ok := w.Instr.(*ssa.Store); ok && st.Addr.(*ssa.FieldAddr).X == h {
				nStores++
				if call, isCall := st.Val.(*ssa.Call); isCall && core.CalleeName(&call.Call) == fnValidate {
					if len(maps) == 1 && core.Expr(call.Call.Args[0]) == core.Expr(maps[0].Arg(2)) && maps[0].Arg(1) == h {
						store = st
					}
				}
			}
		}
		if c.Require(store != nil && nStores == 1, rule, "Agent.Map/stores-validation-result", fn.Pos(), "h.IngestionStatus = ValidateMetricData(the metric that was mapped)",
			"Agent.Map does not contain exactly one store h.IngestionStatus = ValidateMetricData(args.MetricBytes) for the metric handed to mapAllTags: value validation does not reach the header") {
			unvalidated := func(in ssa.Instruction) bool {
				if !core.IsReturn(in) {
					return false
				}
				_, mappingFailed := litOn(in.Block(), func(l core.Lit) bool {
					fa, is := fieldLoad(l.X, tyHeader, "IngestionStatus")
					k, isC := constInt64(l.Y)
					return is && fa.X == h && l.Op == token.EQL && !l.Pol && isC && k == 0 && core.Dominates(maps[0].Instr, instrOf(l.X))
				})
				return !mappingFailed
			}
			p := core.ReachFromEntryWithout(fn, unvalidated, func(in ssa.Instruction) bool { return in == ssa.Instruction(store) })
			c.Require(p == nil, rule, "Agent.Map/validated-unless-mapping-failed", fn.Pos(), "every return is validated or carries the mapping error",
				"Agent.Map can return with IngestionStatus == 0 without having validated the values: "+pathStr(p))
		}
	}
	if fn := need(c, rule, "cmd/statshouse.(*worker).HandleMetrics"); fn != nil {
		apply := core.CallsTo(fn, fnApplyMetric)
		mapc := core.CallsTo(fn, "internal/agent.(*Agent).Map")
		p := core.ReachFromEntryWithout(fn, core.IsReturn, isPlainCallTo(fnApplyMetric))
		c.Require(p == nil && len(apply) >= 1, rule, "worker.HandleMetrics/always-applies", fn.Pos(), "every path reaches ApplyMetric (which records the status of rejected events)",
			"worker.HandleMetrics can return without calling ApplyMetric: a rejected event leaves no ingestion-status record: "+pathStr(p))
		okMap, why := false, "expected one Map call guarded by fillMetricMeta(...)"
		if len(mapc) == 1 && len(apply) == 1 {
			lit, guarded := litOn(mapc[0].Block(), func(l core.Lit) bool {
				call, is := l.Cond.(*ssa.Call)
				return is && l.Pol && core.CalleeName(&call.Call) == "cmd/statshouse.(*worker).fillMetricMeta"
			})
			if guarded {
				okMap, why = true, ""
				if mapc[0].Arg(2) != apply[0].Arg(2) {
					okMap, why = false, "Map and ApplyMetric work on different headers"
				}
				if ifi := ifOn(fn, lit.Cond); ifi != nil {
					if p := reachFromBlock(ifi.Block().Succs[0], func(in ssa.Instruction) bool { return in == apply[0].Instr }, func(in ssa.Instruction) bool { return in == mapc[0].Instr }); p != nil {
						okMap, why = false, "a found metric can reach ApplyMetric without Map (tags and values not validated): "+pathStr(p)
					}
				} else {
					okMap, why = false, "fillMetricMeta's result is not branched on directly"
				}
			}
		}
		c.Require(okMap, rule, "worker.HandleMetrics/maps-found-metrics", fn.Pos(), "found metrics are mapped and validated before ApplyMetric, on the same header", why)
	}
}

// ---- R4 ---------------------------------------------------------------------------------

// rangeIndexOver reports whether idx is the index of a loop over the whole slice
// loaded from field `field` of m: the go/ssa range idiom phi(-1 | idx)+1 or the
// explicit phi(0 | phi+1), and idx < len(m.field) holds at block b.
func rangeIndexOver(idx ssa.Value, b *ssa.BasicBlock, m ssa.Value, field string) bool {
	okShape := false
	if add, ok := idx.(*ssa.BinOp); ok && add.Op == token.ADD {
		if phi, isPhi := add.X.(*ssa.Phi); isPhi && len(phi.Edges) == 2 {
			k, isC := constInt64(add.Y)
			for i, e := range phi.Edges {
				k0, isK := constInt64(e)
				if isC && k == 1 && isK && k0 == -1 && phi.Edges[1-i] == ssa.Value(add) {
					okShape = true
				}
			}
		}
	}
	if phi, ok := idx.(*ssa.Phi); ok && len(phi.Edges) == 2 {
		for i, e := range phi.Edges {
			k0, isK := constInt64(e)
			if add, isAdd := phi.Edges[1-i].(*ssa.BinOp); isK && k0 == 0 && isAdd && add.Op == token.ADD && add.X == ssa.Value(phi) {
				if k, isC := constInt64(add.Y); isC && k == 1 {
					okShape = true
				}
			}
		}
	}
	if !okShape {
		return false
	}
	_, bounded := litOn(b, func(l core.Lit) bool {
		if !l.Pol || l.Op != token.LSS || l.X != idx {
			return false
		}
		call, isCall := l.Y.(*ssa.Call)
		if !isCall || core.CalleeName(&call.Call) != "builtin len" {
			return false
		}
		fa, is := fieldLoad(call.Call.Args[0], tyMetricBytes, field)
		return is && fa.X == m
	})
	return bounded
}

// c12Source classifies the argument of a validator call in ValidateMetricData.
func c12Source(arg ssa.Value, b *ssa.BasicBlock, m ssa.Value) string {
	if fa, ok := fieldLoad(arg, tyMetricBytes, "Counter"); ok && fa.X == m {
		return "Counter"
	}
	elemOf := func(addr ssa.Value, field string) bool {
		ia, ok := addr.(*ssa.IndexAddr)
		if !ok {
			return false
		}
		fa, is := fieldLoad(ia.X, tyMetricBytes, field)
		return is && fa.X == m && rangeIndexOver(ia.Index, b, m, field)
	}
	u, ok := arg.(*ssa.UnOp)
	if !ok || u.Op != token.MUL {
		return ""
	}
	if elemOf(u.X, "Value") {
		return "Value[i]"
	}
	if ia, isIA := u.X.(*ssa.IndexAddr); isIA {
		k, isC := constInt64(ia.Index)
		if !isC || (k != 0 && k != 1) {
			return ""
		}
		switch base := ia.X.(type) {
		case *ssa.IndexAddr: // m.Histogram[i][k]
			if elemOf(base, "Histogram") {
				return fmt.Sprintf("Histogram[i][%d]", k)
			}
		case *ssa.Alloc: // v := m.Histogram[i]; v[k]
			sts := core.StoresTo(base)
			if len(sts) == 1 && core.Dominates(sts[0], u) {
				if ld, isLd := sts[0].Val.(*ssa.UnOp); isLd && ld.Op == token.MUL && elemOf(ld.X, "Histogram") {
					return fmt.Sprintf("Histogram[i][%d]", k)
				}
			}
		}
	}
	return ""
}

func c12Validate(c *core.Check) {
	const rule = "C12-R4"
	c.Rule(rule, "K5 coverage table + K1", 4+4+3,
		"ValidateMetricData: Counter and Histogram[i][1] go to ValidateCounter, Value[i] and Histogram[i][0] to ValidateValue (or the stricter ValidateCounter), inside loops over the whole slice; each validator's non-zero result is returned at once; "+
			"the value+unique and the empty event are rejected with their constants and every other return is outside those conditions")
	fn := need(c, rule, fnValidate)
	if fn == nil || len(fn.Params) < 1 {
		return
	}
	m := ssa.Value(fn.Params[0])
	want := map[string][]string{
		"Counter":         {fnVCounter},
		"Value[i]":        {fnVValue, fnVCounter},
		"Histogram[i][0]": {fnVValue, fnVCounter},
		"Histogram[i][1]": {fnVCounter},
	}
	covered := map[string]bool{}
	sites := core.CallsTo(fn, fnVCounter, fnVValue)
	keys := core.Ordinals(sites)
	for i, s := range sites {
		c.CallSites++
		src := c12Source(s.Arg(0), s.Block(), m)
		if src != "" {
			for _, v := range want[src] {
				if v == s.Callee {
					covered[src] = true
				}
			}
		}
		// non-zero result returned at once
		ret := false
		for _, b := range fn.Blocks {
			if len(b.Instrs) == 0 {
				continue
			}
			ifx, ok := b.Instrs[len(b.Instrs)-1].(*ssa.If)
			if !ok {
				continue
			}
			l := core.NormLit(ifx.Cond, true)
			k, isC := constInt64(l.Y)
			if l.Op != token.EQL || l.X != s.Value() || !isC || k != 0 {
				continue
			}
			nz := b.Succs[0] // successor taken when the result is non-zero
			if l.Pol {
				nz = b.Succs[1]
			}
			if r, isRet := nz.Instrs[len(nz.Instrs)-1].(*ssa.Return); isRet && core.ReturnedValues(r)[0] == s.Value() {
				ret = true
			}
		}
		c.Require(ret, rule, keys[i]+"/error-returned", s.Pos(), "a non-zero verdict of "+s.Callee+" on "+src+" is returned immediately",
			"the result of "+s.Callee+" is not returned when it is non-zero: an invalid "+src+" is accepted")
	}
	for _, src := range core.SortedKeys(want) {
		c.Require(covered[src], rule, fnValidate+"/covers/"+src, fn.Pos(), src+" is validated",
			"no call of "+strings.Join(want[src], " / ")+" receives "+src+" of the metric inside a loop over the whole slice: that field is accepted without validation")
	}
	// both-set / empty
	lenOf := func(v ssa.Value, field string) bool {
		call, ok := v.(*ssa.Call)
		if !ok || core.CalleeName(&call.Call) != "builtin len" {
			return false
		}
		fa, is := fieldLoad(call.Call.Args[0], tyMetricBytes, field)
		return is && fa.X == m
	}
	isLenSum := func(v ssa.Value) bool {
		b, ok := v.(*ssa.BinOp)
		return ok && b.Op == token.ADD && ((lenOf(b.X, "Value") && lenOf(b.Y, "Histogram")) || (lenOf(b.X, "Histogram") && lenOf(b.Y, "Value")))
	}
	zero := func(l core.Lit) bool { k, isC := constInt64(l.Y); return l.Op == token.EQL && isC && k == 0 }
	noValues := func(pol bool) func(core.Lit) bool {
		return func(l core.Lit) bool { return zero(l) && l.Pol == pol && isLenSum(l.X) }
	}
	noUnique := func(pol bool) func(core.Lit) bool {
		return func(l core.Lit) bool { return zero(l) && l.Pol == pol && lenOf(l.X, "Unique") }
	}
	noCounter := func(pol bool) func(core.Lit) bool {
		return func(l core.Lit) bool {
			if l.Op != token.EQL || l.Pol != pol {
				return false
			}
			fa, is := fieldLoad(l.X, tyMetricBytes, "Counter")
			k, isC := l.Y.(*ssa.Const)
			return is && fa.X == m && isC && k.Value != nil && constant.Sign(constant.ToFloat(k.Value)) == 0
		}
	}
	bothSet, okB := formatConst(c, rule, "TagValueIDSrcIngestionStatusErrValueUniqueBothSet")
	zeroCnt, okZ := formatConst(c, rule, "TagValueIDSrcIngestionStatusErrZeroCounter")
	if !okB || !okZ {
		return
	}
	n, haveBoth, haveEmpty := 0, false, false
	for _, r := range realReturns(fn) {
		n++
		key := fmt.Sprintf("%s/return#%d", fnValidate, n)
		v := core.ReturnedValues(r)[0]
		k, isC := constInt64(v)
		switch {
		case isC && k == bothSet:
			haveBoth = true
			c.Pass(rule, key, r.Pos(), "value+unique rejection")
		case isC && k == zeroCnt:
			haveEmpty = true
			c.Pass(rule, key, r.Pos(), "empty event rejection")
		default:
			okBoth := holdsAnyL(r.Block(), noValues(true), noUnique(true))
			okEmpty := holdsAnyL(r.Block(), noValues(false), noUnique(false), noCounter(false))
			c.Require(okBoth && okEmpty, rule, key, r.Pos(), "reachable only when not (values and uniques) and not empty",
				"this return of ValidateMetricData (which may yield 0 = accepted) is reachable for an event with both values and uniques, or for an empty event; facts: "+core.FactsString(r.Block()))
		}
	}
	c.Require(haveBoth && haveEmpty, rule, fnValidate+"/rejection-constants", fn.Pos(), "both rejection constants are returned",
		"ValidateMetricData never returns ErrValueUniqueBothSet / ErrZeroCounter")
}

// ---- R5 ---------------------------------------------------------------------------------

func c12Ranges(c *core.Check) {
	const rule = "C12-R5"
	c.Rule(rule, "K1 + constants", 2, "ValidateCounter returns 0 only under !IsNaN(f), !(f < 0), !(f > MaxFloat32); ValidateValue returns 0 only under !IsNaN(f), !(f > MaxFloat32), !(f < -MaxFloat32); every other return is a non-zero constant")
	maxF32 := constant.MakeFloat64(math.MaxFloat32)
	isConstF := func(v ssa.Value, want constant.Value) bool {
		k, ok := v.(*ssa.Const)
		return ok && k.Value != nil && (k.Value.Kind() == constant.Float || k.Value.Kind() == constant.Int) && constant.Compare(constant.ToFloat(k.Value), token.EQL, want)
	}
	check := func(name string, lower constant.Value) {
		fn := need(c, rule, name)
		if fn == nil || len(fn.Params) != 1 {
			return
		}
		f := ssa.Value(fn.Params[0])
		notNaN := func(l core.Lit) bool {
			call, ok := l.Cond.(*ssa.Call)
			return ok && !l.Pol && core.CalleeName(&call.Call) == "math.IsNaN" && call.Call.Args[0] == f
		}
		notAbove := func(l core.Lit) bool { // !(Max < f)
			return l.Op == token.LSS && !l.Pol && l.Y == f && isConstF(l.X, maxF32)
		}
		notBelow := func(l core.Lit) bool { // !(f < lower)
			return l.Op == token.LSS && !l.Pol && l.X == f && isConstF(l.Y, lower)
		}
		zeroRets := 0
		bad := ""
		for _, r := range realReturns(fn) {
			v := core.ReturnedValues(r)[0]
			k, isC := constInt64(v)
			if !isC {
				bad = "non-constant result " + core.Expr(v)
				continue
			}
			if k != 0 {
				continue
			}
			zeroRets++
			var missing []string
			if _, ok := litOn(r.Block(), notNaN); !ok {
				missing = append(missing, "!IsNaN(f)")
			}
			if _, ok := litOn(r.Block(), notAbove); !ok {
				missing = append(missing, "!(f > MaxFloat32)")
			}
			if _, ok := litOn(r.Block(), notBelow); !ok {
				missing = append(missing, "!(f < "+lower.String()+")")
			}
			if len(missing) > 0 {
				bad = "returns 0 (valid) without " + strings.Join(missing, ", ") + "; facts: " + core.FactsString(r.Block())
			}
		}
		if zeroRets == 0 && bad == "" {
			bad = "never returns 0"
		}
		c.Require(bad == "", rule, name+"/accepts-only-in-range", fn.Pos(), "0 only for finite arguments in ["+lower.String()+", MaxFloat32]", name+" "+bad)
	}
	check(fnVCounter, constant.MakeFloat64(0))
	check(fnVValue, constant.MakeFloat64(-math.MaxFloat32))
}

// ---- R6 ---------------------------------------------------------------------------------

// constResults collects the integer constants a function can return (through static callees).
func constResults(fn *ssa.Function, depth int, out map[int64]bool) bool {
	if fn == nil || len(fn.Blocks) == 0 || depth > 3 {
		return false
	}
	ok := true
	var visit func(v ssa.Value, seen map[ssa.Value]bool)
	visit = func(v ssa.Value, seen map[ssa.Value]bool) {
		if seen[v] {
			return
		}
		seen[v] = true
		switch x := v.(type) {
		case *ssa.Const:
			if k, isC := constInt64(x); isC {
				out[k] = true
			} else {
				ok = false
			}
		case *ssa.Phi:
			for _, e := range x.Edges {
				visit(e, seen)
			}
		case *ssa.Call:
			callee, isFn := x.Call.Value.(*ssa.Function)
			if !isFn || !constResults(callee, depth+1, out) {
				ok = false
			}
		default:
			ok = false
		}
	}
	for _, r := range realReturns(fn) {
		if len(r.Results) != 1 {
			return false
		}
		visit(core.ReturnedValues(r)[0], map[ssa.Value]bool{})
	}
	return ok
}

func c12Registry(c *core.Check) {
	const rule = "C12-R6"
	c.Rule(rule, "K5 registry agreement", 8, "every integer constant that can be stored into MappedMetricHeader.IngestionStatus (direct stores, arguments of functions that store their parameter, results of ValidateMetricData and its validators) has a case in MapErrorFromHeader")
	all := c.Prog.Funcs()
	statuses := map[int64]string{} // value → where it is stored
	var undec []string
	var fromValue func(v ssa.Value, where string, depth int)
	fromValue = func(v ssa.Value, where string, depth int) {
		switch x := v.(type) {
		case *ssa.Const:
			if k, ok := constInt64(x); ok {
				if _, dup := statuses[k]; !dup {
					statuses[k] = where
				}
				return
			}
		case *ssa.Parameter:
			if depth < 2 && x.Parent() != nil {
				idx := paramIndex(x.Parent(), x)
				for _, s := range core.Callers(all, core.FuncName(x.Parent())) {
					fromValue(s.Arg(idx), c.Prog.Pos(s.Pos()), depth+1)
				}
				return
			}
		case *ssa.Call:
			if callee, ok := x.Call.Value.(*ssa.Function); ok {
				set := map[int64]bool{}
				if constResults(callee, 0, set) {
					for k := range set {
						if _, dup := statuses[k]; !dup {
							statuses[k] = where + " (result of " + core.FuncName(callee) + ")"
						}
					}
					return
				}
			}
		}
		undec = append(undec, where+": "+core.Expr(v))
	}
	for _, w := range core.FieldWrites(all, tyHeader, "IngestionStatus") {
		if st, ok := w.Instr.(*ssa.Store); ok {
			fromValue(st.Val, c.Prog.Pos(st.Pos()), 0)
		}
	}
	if len(undec) > 0 {
		c.Undecided(rule, "status-stores/classification", 0, "cannot enumerate the values stored into IngestionStatus at "+strings.Join(undec, "; "))
	}
	fn := need(c, rule, "internal/data_model.(*MappedMetricHeader).MapErrorFromHeader")
	if fn == nil {
		return
	}
	cases := map[int64]bool{}
	allInstrs(fn, func(in ssa.Instruction) {
		b, ok := in.(*ssa.BinOp)
		if !ok || b.Op != token.EQL {
			return
		}
		if fa, is := fieldLoad(b.X, tyHeader, "IngestionStatus"); is && fa.X == ssa.Value(fn.Params[0]) {
			if k, isC := constInt64(b.Y); isC {
				cases[k] = true
			}
		}
	})
	var vals []int64
	for k := range statuses {
		vals = append(vals, k)
	}
	sort.Slice(vals, func(i, j int) bool { return vals[i] < vals[j] })
	for _, k := range vals {
		if k == 0 {
			continue
		}
		c.Require(cases[k], rule, fmt.Sprintf("status-%d", k), fn.Pos(), "has a case in MapErrorFromHeader (stored at "+statuses[k]+")",
			fmt.Sprintf("ingestion status %d can be stored into the header at %s but MapErrorFromHeader has no case for it: the client gets the generic 'unexpected error status' text", k, statuses[k]))
	}
}
