package props

import (
	"fmt"
	"go/constant"
	"go/token"
	"go/types"
	"strings"

	"golang.org/x/tools/go/ssa"

	"shverif/core"
)

func init() {
	const lev = "internal/vkgo/binlog/fsbinlog/lev.go"
	const rd = "internal/vkgo/binlog/fsbinlog/reader.go"
	const wr = "internal/vkgo/binlog/fsbinlog/writer.go"
	const bl = "internal/vkgo/binlog/fsbinlog/binlog.go"
	const bx = "internal/vkgo/binlog/fsbinlog/buffer_exchange.go"
	Register(&Property{
		ID:   "C18",
		Pkgs: []string{"./internal/vkgo/binlog/fsbinlog", "./internal/vkgo/binlog/fsbinlog/internal/gen/internal"},
		Run:  runC18,
		Mutants: []Mutant{
			// the two regressions handed in by the mutation authors
			{Name: "C18-a-stale-crc-after-snapshot-seek", File: rd, Rule: "C18-R3",
				Old: "			realCrc, err := readToAndUpdateCrc(r, si.CommitPosition-curPos, curCrc32)\n			if err != nil {\n				return 0, 0, fmt.Errorf(\"cannot seek to commit position %d: %w\", startPos, err)\n			}\n			if realCrc != si.CommitCrc {\n				return 0, 0, fmt.Errorf(\"tryed to seek to pos %d, expected crc=0x%x, got=0x%x\", si.CommitPosition, si.CommitCrc, realCrc)\n			}\n			curPos = si.CommitPosition\n			curCrc32 = si.CommitCrc\n",
				New: "			curCrc32, err := readToAndUpdateCrc(r, si.CommitPosition-curPos, curCrc32)\n			if err != nil {\n				return 0, 0, fmt.Errorf(\"cannot seek to commit position %d: %w\", startPos, err)\n			}\n			if curCrc32 != si.CommitCrc {\n				return 0, 0, fmt.Errorf(\"tryed to seek to pos %d, expected crc=0x%x, got=0x%x\", si.CommitPosition, si.CommitCrc, curCrc32)\n			}\n			curPos = si.CommitPosition\n"},
			{Name: "C18-b-writer-appends-after-torn-tail", File: wr, Rule: "C18-R8",
				Old: "	if fi.Size() != expectedSize {", New: "	if fi.Size() < expectedSize {"},
			// R1
			{Name: "crc-lev-crc-read-at-12", File: lev, Rule: "C18-R1",
				Old: "	lev.Pos = int64(binary.LittleEndian.Uint64(data[8:]))\n	lev.Crc32 = binary.LittleEndian.Uint32(data[16:])\n\n	return levCrcSize, nil",
				New: "	lev.Pos = int64(binary.LittleEndian.Uint64(data[8:]))\n	lev.Crc32 = binary.LittleEndian.Uint32(data[12:])\n\n	return levCrcSize, nil"},
			{Name: "rotate-from-hashes-swapped-in-writer", File: lev, Rule: "C18-R1",
				Old: "	binary.LittleEndian.PutUint64(buff[20:], lev.PrevLogHash)\n	binary.LittleEndian.PutUint64(buff[28:], lev.CurLogHash)\n\n	return buff[:]",
				New: "	binary.LittleEndian.PutUint64(buff[20:], lev.CurLogHash)\n	binary.LittleEndian.PutUint64(buff[28:], lev.PrevLogHash)\n\n	return buff[:]"},
			{Name: "rotate-size-constant-drifts", File: lev, Rule: "C18-R1",
				Old: "const levRotateSize = 36", New: "const levRotateSize = 40"},
			{Name: "rotate-to-reader-too-short-guard", File: lev, Rule: "C18-R1",
				Old: "func readLevRotateTo(lev *levRotateTo, data []byte) (int, error) {\n	if len(data) < levRotateSize {", New: "func readLevRotateTo(lev *levRotateTo, data []byte) (int, error) {\n	if len(data) < levCrcSize {"},
			// R2
			{Name: "rotate-to-written-with-rotate-from-magic", File: bl, Rule: "C18-R2",
				Old: "			Type:        magicLevRotateTo,", New: "			Type:        magicLevRotateFrom,"},
			{Name: "crc-case-dispatches-on-tag-magic", File: rd, Rule: "C18-R2",
				Old: "		case magicLevTag:\n			// just read bytes\n			var lev levTag\n			readBytes, processErr = readLevTag(&lev, buff)\n\n		case magicLevCrc32:",
				New: "		case magicLevCrc32:\n			// just read bytes\n			var lev levTag\n			readBytes, processErr = readLevTag(&lev, buff)\n\n		case magicLevTag:"},
			// R3
			{Name: "crc-lev-not-compared", File: rd, Rule: "C18-R3",
				Old: "				if lev.Crc32 != crc32BeforeEvent {", New: "				if lev.Crc32 != crc32BeforeEvent && lev.Pos != curPos {"},
			{Name: "crc-lev-compared-with-timestamp", File: rd, Rule: "C18-R3",
				Old: "				if lev.Crc32 != crc32BeforeEvent {", New: "				if uint32(lev.Timestamp) != crc32BeforeEvent {"},
			{Name: "snapshot-crc-mismatch-tolerated", File: rd, Rule: "C18-R3",
				Old: "			if realCrc != si.CommitCrc {", New: "			if realCrc != si.CommitCrc && si.CommitCrc != 0 {"},
			// R4
			{Name: "commit-before-fsync", File: wr, Rule: "C18-R4",
				Old: "			err := bw.fp.Sync()\n\n			if err != nil {", New: "			_ = bw.engine.Commit(rd.offsetGlobal, nil, rd.offsetGlobal)\n			err := bw.fp.Sync()\n\n			if err != nil {"},
			{Name: "write-error-not-reverted", File: wr, Rule: "C18-R4",
				Old: "				_, _ = bw.engine.Revert(lastFsyncPos)\n				loopErr = err\n", New: "				loopErr = err\n"},
			{Name: "fsync-pos-advanced-before-sync", File: wr, Rule: "C18-R4",
				Old: "		bigUncommittedTail := rd.offsetGlobal-lastFsyncPos > uncommittedMaxSize\n", New: "		bigUncommittedTail := rd.offsetGlobal-lastFsyncPos > uncommittedMaxSize\n		if hitTimer {\n			lastFsyncPos = rd.offsetGlobal\n		}\n"},
			// R5
			{Name: "append-without-offset-check", File: bl, Rule: "C18-R5",
				Old: "	if incomeOffset != b.buffEx.rd.offsetGlobal {", New: "	if incomeOffset > b.buffEx.rd.offsetGlobal {"},
			{Name: "append-without-lock", File: bl, Rule: "C18-R5",
				Old: "	b.buffEx.mu.Lock()\n	defer b.buffEx.mu.Unlock()\n\n	if b.buffEx.finishAccept {", New: "	if b.buffEx.finishAccept {"},
			{Name: "crc-written-outside-updatePos", File: bx, Rule: "C18-R5",
				Old: "	b.rd.commitASAP = false\n", New: "	b.rd.commitASAP = false\n	b.rd.crc = 0\n"},
			{Name: "padding-dropped", File: bx, Rule: "C18-R5",
				Old: "		b.buff = append(b.buff, zero[:4-padding]...)\n", New: "		_ = zero\n"},
			// R6
			{Name: "rotate-to-written-before-new-file", File: wr, Rule: "C18-R6",
				Old: "	prevChunkFd := bw.fp // Сохраняю старый файл для дозаписи события\n", New: "	prevChunkFd := bw.fp // Сохраняю старый файл для дозаписи события\n	_, _ = prevChunkFd.Write(rotateTo)\n"},
			{Name: "new-chunk-without-excl", File: wr, Rule: "C18-R6",
				Old: "		flags |= os.O_CREATE | os.O_EXCL", New: "		flags |= os.O_CREATE"},
			// R7
			{Name: "apply-may-move-backwards", File: rd, Rule: "C18-R7",
				Old: "			if newPos < curPos {", New: "			if newPos < 0 {"},
			{Name: "apply-may-consume-nothing", File: rd, Rule: "C18-R7",
				Old: "			if readBytes <= 0 && processErr == nil {", New: "			if readBytes < 0 && processErr == nil {"},
		},
	})
}

const (
	c18Pkg = "internal/vkgo/binlog/fsbinlog"
	f18    = c18Pkg + "."
	c18Gen = "internal/vkgo/binlog/fsbinlog/internal/gen/internal"
	leU32  = "encoding/binary.(littleEndian).Uint32"
)

type levEntry struct {
	typ, write, read, size string
	readerSkipsMagic       bool
}

func runC18(c *core.Check) {
	c.Decides = "the framing and ordering discipline of fsbinlog: (R1) the fixed layouts of the service events crc32 / rotate-to / rotate-from agree between write* and read* in offsets, widths, byte order and struct field per offset, tile [0,size) with size = levCrcSize/levRotateSize = array length, " +
		"every struct field is written, readers touch the buffer only under len(data) >= size and report exactly size consumed bytes; (R2) every service magic stored into a lev.Type (and the TL tag of LevStart) is the constant under which the reader dispatches to that event's read function, " +
		"and engine.Apply is reached only when no service magic matched; (R3) the crc event is accepted only when lev.Crc32 equals the running crc before the event, the snapshot seek only when the recomputed crc equals si.CommitCrc, and on every path through a crc-recomputing read the crc handed on is that read's result (or a value tested equal to it); " +
		"(R4) engine.Commit is dominated by fp.Sync()==nil, commits rd.offsetGlobal of the rd handed to writeBuffer, no non-empty buffer reaches Commit unwritten, the fsync position advances only after a successful sync, write and sync errors pass ChangeRole and Revert(last fsync position); " +
		"(R5) appends happen under buffEx.mu and only when the caller's offset equals rd.offsetGlobal and accepting was not stopped, crc/offsets have the enumerated writers, appended events are padded to 4 before the crc/offset update; " +
		"(R6) rotation order: sync old, create new (O_CREATE|O_EXCL), write ROTATE_FROM to the new file, then ROTATE_TO to the old one; (R7) Apply results that move backwards, exceed the buffer or consume nothing without error end the replay; " +
		"(R8) the writer opens a chunk for appending only when its size equals the position replay ended at (0 for a new chunk)."
	c.NotDecided = "enumeration of truncation / bit-flip positions, that crc events are frequent enough to cover every byte, compressed binlog chunks, the engine callbacks' own behaviour, interleavings of Append with the writer goroutine beyond the lock discipline, and filesystem durability."

	fns := c.Prog.FuncsIn(c18Pkg)
	pkg := c.Prog.Pkg(c18Pkg)
	if pkg == nil {
		c.Anchor("C18-R1", c18Pkg)
		return
	}
	levs := []levEntry{
		{"levCrc32", "writeLevCrc32", "readLevCrc32", "levCrcSize", true},
		{"levRotateTo", "writeLevRotateTo", "readLevRotateTo", "levRotateSize", false},
		{"levRotateFrom", "writeLevRotateFrom", "readLevRotateFrom", "levRotateSize", true},
	}

	// =================================================================== R1 (K3 fixed)
	c.Rule("C18-R1", "K3 fixed layout + K1", 24, "writeLevCrc32/RotateTo/RotateFrom and readLev* agree on offsets, widths, byte order and struct field per offset; layouts tile [0,size), size = levCrcSize/levRotateSize = writer array length; "+
		"every field of the lev struct is written; readers access the buffer only under len(data) >= size and return size; levTag written by binary.Write has the size readLevTag consumes")
	for _, e := range levs {
		size, okS := pkgConst(c, "C18-R1", c18Pkg, e.size)
		wl := layoutOf(c, "C18-R1", c18Pkg, e.write)
		rl := layoutOf(c, "C18-R1", c18Pkg, e.read)
		wfn := need(c, "C18-R1", f18+e.write)
		rfn := need(c, "C18-R1", f18+e.read)
		if wl == nil || rl == nil || wfn == nil || rfn == nil || !okS {
			continue
		}
		wRoot, wAcc := singleRoot(c, "C18-R1", f18+e.write, wl, true)
		rRoot, rAcc := singleRoot(c, "C18-R1", f18+e.read, rl, false)
		if wRoot == nil || rRoot == nil {
			continue
		}
		c.Require(core.ArrayLen(wRoot) == size, "C18-R1", f18+e.write+"/buffer-size", wRoot.Pos(),
			fmt.Sprintf("buffer is an array of %s=%d bytes", e.size, size), fmt.Sprintf("writer buffer has array length %d but %s is %d", core.ArrayLen(wRoot), e.size, size))
		requireTile(c, "C18-R1", f18+e.write+"/tiles", wl.Fn.Pos(), wAcc, size, "written event")
		// every struct field written, every written value a field of the struct
		st, _ := pkg.Types.Scope().Lookup(e.typ).(*types.TypeName)
		if st == nil {
			c.Anchor("C18-R1", f18+e.typ)
			continue
		}
		sstruct, _ := st.Type().Underlying().(*types.Struct)
		written := map[string]bool{}
		allFields := true
		for _, a := range wAcc {
			if v, ok := a.WhatObj.(*types.Var); ok && v.IsField() {
				written[v.Name()] = true
			} else {
				allFields = false
			}
		}
		var missing []string
		for i := 0; sstruct != nil && i < sstruct.NumFields(); i++ {
			if !written[sstruct.Field(i).Name()] {
				missing = append(missing, sstruct.Field(i).Name())
			}
		}
		c.Require(allFields && len(missing) == 0 && sstruct != nil, "C18-R1", f18+e.write+"/all-fields", wl.Fn.Pos(), "every field of "+e.typ+" is serialised, nothing else",
			fmt.Sprintf("%s must serialise exactly the fields of %s: fields never written %v, non-field values written=%v", e.write, e.typ, missing, !allFields))
		// whole array returned
		for i, r := range liveReturns(wfn) {
			sl, ok := r.Results[0].(*ssa.Slice)
			whole := ok && sl.Low == nil && sl.High == nil
			if whole {
				a, isA := sl.X.(*ssa.Alloc)
				whole = isA && a.Pos() == wRoot.Pos()
			}
			c.Require(whole, "C18-R1", fmt.Sprintf("%s%s/return#%d", f18, e.write, i+1), r.Pos(), "returns the whole buffer", "the writer does not return the whole serialisation buffer (buff[:])")
		}
		// reader
		_, isParam := rRoot.(*types.Var)
		c.Require(isParam && strings.HasPrefix(rAcc[0].RootDesc, "param#1 "), "C18-R1", f18+e.read+"/buffer", rRoot.Pos(), "reads from its data parameter", "reader does not read from its data parameter: "+rAcc[0].RootDesc)
		skip := map[int64]bool{}
		tileAcc := rAcc
		if e.readerSkipsMagic {
			skip[0] = true
			tileAcc = append([]core.LayoutAccess{{Off: 0, Width: 4, End: -1, Order: "LE", What: "magic consumed by the dispatcher"}}, rAcc...)
		}
		requireTile(c, "C18-R1", f18+e.read+"/tiles", rl.Fn.Pos(), tileAcc, size, "parsed event")
		requireAgree(c, "C18-R1", e.write+"<->"+e.read, rl.Fn.Pos(), wAcc, rAcc, core.CompareOpts{ReaderMaySkip: skip})
		// reads only under len(data) >= size; nil-error returns report size
		if len(rfn.Params) == 2 {
			data := rfn.Params[1]
			enough := func(b *ssa.BasicBlock) bool {
				return geFactWith(b, func(l core.Lin) bool { k, m := linShape(l, linTerm{1, isLenOf(data)}); return m && -k >= size })
			}
			for i, a := range rAcc {
				call := core.SSACallAt(rfn, a.Call)
				c.Require(call != nil && enough(call.Block()), "C18-R1", fmt.Sprintf("%s%s/read#%d/bounded", f18, e.read, i+1), a.Pos,
					"read under len(data) >= size", fmt.Sprintf("read at offset %d is not dominated by len(data) >= %s (%d): a truncated event would be parsed (or panic) instead of waiting for more data", a.Off, e.size, size))
			}
			n := 0
			for _, r := range liveReturns(rfn) {
				if !isNil(r.Results[1]) {
					continue
				}
				n++
				k, isK := kInt64(r.Results[0])
				c.Require(isK && k == size && enough(r.Block()), "C18-R1", fmt.Sprintf("%s%s/return-ok#%d", f18, e.read, n), r.Pos(), "reports exactly size consumed bytes",
					fmt.Sprintf("successful return must report %s=%d consumed bytes under len(data) >= size; returns %s", e.size, size, core.Expr(r.Results[0])))
			}
		}
	}
	// levTag: binary.Write of the struct <-> bytes consumed by readLevTag
	if rfn := need(c, "C18-R1", f18+"readLevTag"); rfn != nil {
		if tn, _ := pkg.Types.Scope().Lookup("levTag").(*types.TypeName); tn != nil {
			bsz := binarySize(tn.Type())
			n := 0
			for _, r := range liveReturns(rfn) {
				if !isNil(r.Results[1]) {
					continue
				}
				n++
				k, isK := kInt64(r.Results[0])
				c.Require(isK && k == bsz && bsz > 0, "C18-R1", fmt.Sprintf("%sreadLevTag/return-ok#%d", f18, n), r.Pos(), "readLevTag consumes encoding/binary's size of levTag",
					fmt.Sprintf("readLevTag consumes %s bytes but binary.Write(levTag) emits %d", core.Expr(r.Results[0]), bsz))
			}
		} else {
			c.Anchor("C18-R1", f18+"levTag")
		}
	}

	// =================================================================== R2 (K5)
	c.Rule("C18-R2", "K5 registry agreement (+K1)", 8, "for every service event the constant stored into lev.Type anywhere in the package equals the constant under which readUncompressedFile dispatches to that event's reader on the same buffer; "+
		"LevStart is dispatched under its TL tag; engine.Apply is reached only when no emitted service magic matched")
	reader := need(c, "C18-R2", f18+"(*binlogReader).readUncompressedFile")
	var dispatchVal ssa.Value
	serviceMagics := map[int64]string{}
	if reader != nil {
		dispatchConst := func(site core.Site) (int64, ssa.Value, bool) {
			buf := site.Arg(1)
			for _, g := range core.Facts(site.Block()) {
				if len(g.Alts) != 1 {
					continue
				}
				l := g.Alts[0]
				if l.Op != token.EQL || !l.Pol {
					continue
				}
				call, ok := l.X.(*ssa.Call)
				if !ok || core.CalleeName(&call.Call) != leU32 || call.Call.Args[1] != buf {
					continue
				}
				if k, isK := kInt64(l.Y); isK {
					return k, call, true
				}
			}
			return 0, nil, false
		}
		entries := []struct{ typ, read string }{
			{"levCrc32", "readLevCrc32"}, {"levRotateTo", "readLevRotateTo"}, {"levRotateFrom", "readLevRotateFrom"}, {"levTag", "readLevTag"}, {"levTimestamp", "readLevTimestamp"},
		}
		writerSide := 0
		for _, e := range entries {
			sites := core.CallsTo(reader, f18+e.read)
			if len(sites) != 1 {
				c.Undecided("C18-R2", f18+e.read+"/dispatch", reader.Pos(), fmt.Sprintf("expected one dispatch to %s in readUncompressedFile, found %d", e.read, len(sites)))
				continue
			}
			k, dv, ok := dispatchConst(sites[0])
			if !ok {
				c.Fail("C18-R2", f18+e.read+"/dispatch", sites[0].Pos(), e.read+" is not called under a comparison of the event magic (LittleEndian.Uint32 of the same buffer) with a constant")
				continue
			}
			if dispatchVal == nil {
				dispatchVal = dv
			}
			var bad []string
			stores := 0
			for _, w := range core.FieldWrites(fns, f18+e.typ, "Type") {
				kv, isK := kInt64(w.Val)
				if !isK {
					bad = append(bad, fmt.Sprintf("%s stores a non-constant", core.FuncName(w.Fn)))
					continue
				}
				stores++
				if !strings.HasPrefix(core.FuncName(w.Fn), f18+"read") {
					writerSide++
					serviceMagics[kv] = e.typ
				}
				if kv != k {
					bad = append(bad, fmt.Sprintf("%s stores 0x%x", core.FuncName(w.Fn), kv))
				}
			}
			serviceMagics[k] = e.typ
			c.Require(len(bad) == 0 && stores > 0 && dv == dispatchVal, "C18-R2", f18+e.typ+"/magic", sites[0].Pos(),
				fmt.Sprintf("%s.Type is always 0x%x, the constant %s is dispatched under", e.typ, k, e.read),
				fmt.Sprintf("%s is dispatched under magic 0x%x but %s.Type is stored differently: %s (stores found: %d)", e.read, k, e.typ, strings.Join(bad, "; "), stores))
		}
		if writerSide < 4 {
			c.Undecided("C18-R2", "writer-side-magic-stores", reader.Pos(), fmt.Sprintf("expected the writer side (putLevToBuffer, writeLevCrc32, writeEmptyBinlog) to store at least 4 lev.Type constants, found %d", writerSide))
		}
		// readLevRotateTo re-checks its magic: must be the dispatch constant
		if rt := need(c, "C18-R2", f18+"readLevRotateTo"); rt != nil && len(rt.Params) == 2 {
			var want int64 = -1
			for k, t := range serviceMagics {
				if t == "levRotateTo" {
					want = k
				}
			}
			n := 0
			for _, r := range liveReturns(rt) {
				if !isNil(r.Results[1]) {
					continue
				}
				n++
				ok := eqFact(r.Block(), true, func(v ssa.Value) bool {
					call, isC := v.(*ssa.Call)
					return isC && core.CalleeName(&call.Call) == leU32 && call.Call.Args[1] == ssa.Value(rt.Params[1])
				}, isConstInt(want))
				c.Require(ok, "C18-R2", fmt.Sprintf("%sreadLevRotateTo/return-ok#%d/magic", f18, n), r.Pos(), "accepts only its own magic", fmt.Sprintf("readLevRotateTo succeeds without the first 4 bytes having been tested equal to the rotate-to magic 0x%x", want))
			}
		}
		// LevStart by TL tag
		if sites := core.CallsTo(reader, f18+"readLevStart"); len(sites) == 1 {
			k, dv, ok := dispatchConst(sites[0])
			tag := need(c, "C18-R2", c18Gen+".(FsbinlogLevStart).TLTag")
			var tv int64 = -1
			if tag != nil {
				for _, r := range core.Returns(tag) {
					if kv, isK := kInt64(r.Results[0]); isK {
						tv = kv
					}
				}
			}
			wrote := len(core.Callers(fns, c18Gen+".(*FsbinlogLevStart).WriteTL1Boxed")) > 0
			serviceMagics[k] = "LevStart"
			c.Require(ok && dv == dispatchVal && tv == k && wrote, "C18-R2", f18+"LevStart/magic", sites[0].Pos(), fmt.Sprintf("LevStart dispatched under its TL tag 0x%x", k),
				fmt.Sprintf("readLevStart must be dispatched under the TL tag of LevStart (0x%x) which writeEmptyBinlog emits through WriteTL1Boxed (found=%v); dispatch constant 0x%x", tv, wrote, k))
		} else {
			c.Undecided("C18-R2", f18+"readLevStart/dispatch", reader.Pos(), "expected one dispatch to readLevStart")
		}
		// default -> Apply only when nothing matched
		for i, s := range core.CallsTo(reader, "invoke internal/vkgo/binlog.Engine.Apply") {
			var miss []string
			for _, k := range sortedInt64Keys(serviceMagics) {
				if !eqFact(s.Block(), false, isVal(dispatchVal), isConstInt(k)) {
					miss = append(miss, fmt.Sprintf("0x%x (%s)", k, serviceMagics[k]))
				}
			}
			c.Require(len(miss) == 0 && dispatchVal != nil, "C18-R2", fmt.Sprintf("%sreadUncompressedFile/Apply#%d/not-service", f18, i+1), s.Pos(), "payload handed to the engine only when no service magic matched",
				"engine.Apply can be reached for an event whose magic is a service magic: "+strings.Join(miss, ", "))
		}
	}

	// =================================================================== R3 (K1 + K7 path)
	c.Rule("C18-R3", "K1 guard-dominance + K7 along paths", 5, "the crc event continues the replay only under lev.Crc32 == running crc before the event (the cell updated by crc32.Update at the top of the iteration); "+
		"readAndUpdateCRCIfNeed: after a read that recomputes the crc the crc passed on / returned is that read's result or a value tested equal to it, and the seek to the snapshot position succeeds only under result == si.CommitCrc")
	if reader != nil {
		sites := core.CallsTo(reader, f18+"readLevCrc32")
		if len(sites) == 1 {
			site := sites[0]
			levAlloc := site.Arg(0)
			var cmp *ssa.If
			var other ssa.Value
			var eqSucc, neSucc *ssa.BasicBlock
			ncmp := 0
			for _, b := range reader.Blocks {
				if len(b.Instrs) == 0 {
					continue
				}
				ifi, ok := b.Instrs[len(b.Instrs)-1].(*ssa.If)
				if !ok {
					continue
				}
				l := core.NormLit(ifi.Cond, true)
				if l.Op != token.EQL {
					continue
				}
				for _, pr := range [][2]ssa.Value{{l.X, l.Y}, {l.Y, l.X}} {
					if u, isU := pr[0].(*ssa.UnOp); isU && u.Op == token.MUL {
						if fa, isFA := u.X.(*ssa.FieldAddr); isFA && fa.X == levAlloc && core.IsField(fa, f18+"levCrc32", "Crc32") {
							ncmp++
							cmp, other = ifi, pr[1]
							if l.Pol {
								eqSucc, neSucc = b.Succs[0], b.Succs[1]
							} else {
								eqSucc, neSucc = b.Succs[1], b.Succs[0]
							}
						}
					}
				}
			}
			cont := core.IsCallTo("invoke internal/vkgo/binlog.Engine.Skip", "hash/crc32.Update", "invoke internal/vkgo/binlog.Engine.Apply")
			if ncmp != 1 {
				c.Fail("C18-R3", f18+"readUncompressedFile/crc-event/compare", site.Pos(), fmt.Sprintf("expected exactly one branch comparing the parsed levCrc32.Crc32 with the running crc, found %d: a corrupted binlog would replay without a checksum error", ncmp))
			} else {
				_ = eqSucc
				okGuard := eqFact(cmp.Block(), true, isExtract(site.Value(), 1), isNil)
				p1 := reachFromBlock(neSucc, cont, nil)
				// from the successful parse every continuation passes the comparison
				var succ *ssa.BasicBlock
				for _, s := range site.Block().Succs {
					if l, ok := core.EdgeLit(site.Block(), s); ok && l.Op == token.EQL && l.Pol && isExtract(site.Value(), 1)(l.X) && isNil(l.Y) {
						succ = s
					}
				}
				var p2 *core.PathTo
				if succ != nil {
					p2 = reachFromBlock(succ, cont, func(in ssa.Instruction) bool { return in == ssa.Instruction(cmp) })
				}
				c.Require(okGuard && p1 == nil && succ != nil && p2 == nil, "C18-R3", f18+"readUncompressedFile/crc-event/compare", site.Pos(),
					"after a parsed crc event the replay continues only through lev.Crc32 == running crc",
					fmt.Sprintf("crc event: comparison under parse-ok=%v; mismatch branch continues the replay: %s; parsed event continues without the comparison: %s (parse-ok edge found=%v)", okGuard, pathStr(p1), pathStr(p2), succ != nil))
				// the value compared is the running crc before this event
				ok4, why := false, "the value compared with lev.Crc32 is not a load of the running-crc cell"
				if ld, isLd := other.(*ssa.UnOp); isLd && ld.Op == token.MUL {
					if cell, isCell := ld.X.(*ssa.Alloc); isCell {
						var upd *ssa.Store
						others := 0
						for _, st := range core.CellStores(cell) {
							if call, isCall := st.Val.(*ssa.Call); isCall && core.CalleeName(&call.Call) == "hash/crc32.Update" && st.Parent() == reader {
								if a0, isU := call.Call.Args[0].(*ssa.UnOp); isU && a0.X == ssa.Value(cell) {
									upd = st
									continue
								}
							}
							if st.Parent() != reader {
								others += 100 // a closure writes the running crc: order cannot be decided locally
							}
							others++
						}
						switch {
						case upd == nil:
							why = "the cell compared with lev.Crc32 is not the one updated by crc32.Update(cell, table, processed bytes)"
						case others >= 100:
							why = "a closure stores to the running crc"
						case !core.Dominates(upd, ld):
							why = "the running crc is read on a path that did not pass the crc32.Update of this iteration"
						default:
							p := core.ReachWithout(upd, func(in ssa.Instruction) bool {
								st, isSt := in.(*ssa.Store)
								return isSt && st.Addr == ssa.Value(cell) && st != upd
							}, func(in ssa.Instruction) bool { return in == ssa.Instruction(ld) })
							ok4 = p == nil
							why = "another store to the running crc can happen between the update for the previous events and the comparison: " + pathStr(p)
						}
					}
				}
				c.Require(ok4, "C18-R3", f18+"readUncompressedFile/crc-event/running-crc", site.Pos(), "lev.Crc32 is compared with the crc accumulated over all bytes before the event", why)
			}
		} else {
			c.Undecided("C18-R3", f18+"readUncompressedFile/crc-event", reader.Pos(), "expected one call of readLevCrc32")
		}
	}
	if fn := need(c, "C18-R3", f18+"(*binlogReader).readAndUpdateCRCIfNeed"); fn != nil && len(fn.Params) == 6 {
		siType := ""
		if n, ok := namedU(fn.Params[5].Type()); ok {
			siType = core.TypeName(n.Origin())
		}
		reads := core.CallsTo(fn, f18+"readToAndUpdateCrc")
		byBlock := map[*ssa.BasicBlock]core.Site{}
		for _, s := range reads {
			byBlock[s.Block()] = s
		}
		type verdict struct {
			ok   bool
			msg  string
			pos  token.Pos
			seen bool
		}
		passOn := map[string]*verdict{} // per read call: crc handed on after it
		seekEq := map[string]*verdict{} // per snapshot-seek read: equality with CommitCrc on the path
		keys := core.Ordinals(reads)
		keyOf := map[ssa.Instruction]string{}
		for i, s := range reads {
			keyOf[s.Instr] = keys[i]
			passOn[keys[i]] = &verdict{ok: true, pos: s.Pos()}
			if lin := core.LinOf(s.Arg(1)); func() bool {
				for a := range lin.Coef {
					if loadsFieldU(peelConv(lin.Rep[a]), siType, "CommitPosition") {
						return true
					}
				}
				return false
			}() {
				seekEq[keys[i]] = &verdict{ok: true, pos: s.Pos()}
			}
		}
		complete := core.AcyclicPaths(fn.Blocks[0], 4096, func(p core.Path) {
			last := p[len(p)-1]
			ret, isRet := last.Instrs[len(last.Instrs)-1].(*ssa.Return)
			if !isRet || len(ret.Results) != 3 || !isNil(core.ResolveOnPath(ret.Results[2], p)) {
				return
			}
			var prev *core.Site
			allowed := map[string]bool{}
			var allowedVal ssa.Value
			checkUse := func(v ssa.Value, what string, pos token.Pos) {
				if prev == nil {
					return
				}
				vd := passOn[keyOf[prev.Instr]]
				vd.seen = true
				if v == allowedVal || allowed[core.Expr(v)] {
					return
				}
				vd.ok = false
				vd.msg = fmt.Sprintf("on the path through blocks %v the crc %s is %s, not the result of the preceding readToAndUpdateCrc (nor a value tested equal to it): bytes were consumed but the crc handed on does not cover them", blockIdx(p), what, core.Expr(v))
			}
			for i, b := range p {
				if s, ok := byBlock[b]; ok {
					s := s
					checkUse(core.ResolveOnPath(s.Arg(2), p[:i+1]), "passed to the next readToAndUpdateCrc", s.Pos())
					prev = &s
					allowed = map[string]bool{}
					allowedVal = nil
					for _, ref := range core.Referrers(s.Value()) {
						if ex, isEx := ref.(*ssa.Extract); isEx && ex.Index == 0 {
							allowedVal = ex
							allowed[core.Expr(ex)] = true
						}
					}
					if vd := seekEq[keyOf[s.Instr]]; vd != nil {
						vd.seen = true
						eq := false
						for j := i; j+1 < len(p); j++ {
							if l, ok := core.EdgeLit(p[j], p[j+1]); ok && l.Op == token.EQL && l.Pol {
								for _, pr := range [][2]ssa.Value{{l.X, l.Y}, {l.Y, l.X}} {
									if pr[0] == allowedVal && loadsFieldU(pr[1], siType, "CommitCrc") {
										eq = true
									}
								}
							}
						}
						if !eq {
							vd.ok = false
							vd.msg = fmt.Sprintf("the path through blocks %v seeks to the snapshot position and returns success without the recomputed crc having been tested equal to si.CommitCrc", blockIdx(p))
						}
					}
				}
				if prev != nil && i+1 < len(p) {
					if l, ok := core.EdgeLit(b, p[i+1]); ok && l.Op == token.EQL && l.Pol {
						if l.X == allowedVal {
							allowed[core.Expr(l.Y)] = true
						} else if l.Y == allowedVal {
							allowed[core.Expr(l.X)] = true
						}
					}
				}
			}
			checkUse(core.ResolveOnPath(ret.Results[1], p), "returned", ret.Pos())
		})
		if !complete {
			c.Undecided("C18-R3", f18+"readAndUpdateCRCIfNeed/paths", fn.Pos(), "too many paths to enumerate")
		}
		for _, k := range core.SortedKeys(passOn) {
			v := passOn[k]
			if !v.seen {
				c.Undecided("C18-R3", k+"/crc-handed-on", v.pos, "no successful path passes this read")
				continue
			}
			c.Require(v.ok, "C18-R3", k+"/crc-handed-on", v.pos, "after the read the crc handed on is the read's result (or tested equal to it) on every successful path", v.msg)
		}
		for _, k := range core.SortedKeys(seekEq) {
			v := seekEq[k]
			c.Require(v.ok && v.seen, "C18-R3", k+"/snapshot-crc", v.pos, "snapshot seek succeeds only under recomputed crc == si.CommitCrc", v.msg)
		}
		if len(seekEq) == 0 {
			c.Undecided("C18-R3", f18+"readAndUpdateCRCIfNeed/snapshot-seek", fn.Pos(), "no readToAndUpdateCrc whose length is computed from si.CommitPosition")
		}
	}

	// =================================================================== R4 (K1 + K7 + K6)
	c.Rule("C18-R4", "K1 + K7 + K6", 7, "in binlogWriter.loop engine.Commit is dominated by fp.Sync()==nil and commits rd.offsetGlobal of the rd cell handed to writeBuffer; a non-empty buffer never reaches Commit without writeBuffer; "+
		"the last-fsync position advances only under Sync()==nil; write and sync errors pass ChangeRole and Revert(last fsync position) before the loop ends")
	if loop := need(c, "C18-R4", f18+"(*binlogWriter).loop"); loop != nil {
		syncs := core.CallsTo(loop, "github.com/myxo/gofs.(*File).Sync")
		commits := core.CallsTo(loop, "invoke internal/vkgo/binlog.Engine.Commit")
		wbs := core.CallsTo(loop, f18+"(*binlogWriter).writeBuffer")
		rbs := core.CallsTo(loop, f18+"(*buffExchange).replaceBuff")
		if len(syncs) != 1 || len(wbs) != 1 || len(rbs) != 1 || len(commits) == 0 {
			c.Undecided("C18-R4", f18+"loop/shape", loop.Pos(), fmt.Sprintf("expected one Sync, one writeBuffer, one replaceBuff and at least one Commit; found %d/%d/%d/%d", len(syncs), len(wbs), len(rbs), len(commits)))
		} else {
			sync, wb, rb := syncs[0], wbs[0], rbs[0]
			rdCell, _ := wb.Arg(2).(*ssa.Alloc)
			syncOK := func(b *ssa.BasicBlock) bool { return eqFact(b, true, isVal(sync.Value()), isNil) }
			isRdOffset := func(v ssa.Value) bool {
				u, ok := v.(*ssa.UnOp)
				if !ok || u.Op != token.MUL {
					return false
				}
				fa, ok := u.X.(*ssa.FieldAddr)
				return ok && rdCell != nil && fa.X == ssa.Value(rdCell) && core.IsField(fa, f18+"replaceData", "offsetGlobal")
			}
			// rd cell: only store is replaceBuff's second result, buffer written is its first result
			cellOK := rdCell != nil
			if rdCell != nil {
				for _, st := range core.CellStores(rdCell) {
					if !isExtract(rb.Value(), 1)(st.Val) {
						cellOK = false
					}
				}
				cellOK = cellOK && isExtract(rb.Value(), 0)(wb.Arg(1))
			}
			c.Require(cellOK, "C18-R4", f18+"loop/rd-of-written-buffer", wb.Pos(), "writeBuffer gets the buffer and the rd of the same replaceBuff call; nothing else stores to rd",
				"the replaceData passed to writeBuffer / used for Commit is not exclusively the one returned with the buffer by replaceBuff")
			for i, cm := range commits {
				ok := syncOK(cm.Block()) && isRdOffset(cm.Arg(1)) && isRdOffset(cm.Arg(3))
				c.Require(ok, "C18-R4", fmt.Sprintf("%sloop/Commit#%d", f18, i+1), cm.Pos(), "Commit(rd.offsetGlobal) after Sync()==nil",
					fmt.Sprintf("engine.Commit must be dominated by fp.Sync()==nil (ok=%v) and commit rd.offsetGlobal of the written buffer (offset=%s, safe snapshot offset=%s)", syncOK(cm.Block()), core.Expr(cm.Arg(1)), core.Expr(cm.Arg(3))))
			}
			// non-empty buffer is written before any Commit
			lenZero := func(p, s *ssa.BasicBlock) bool {
				l, ok := core.EdgeLit(p, s)
				if !ok || l.Op != token.EQL || !l.Pol {
					return false
				}
				k, isK := kInt64(l.Y)
				if !isK || k != 0 {
					return false
				}
				call, isC := l.X.(*ssa.Call)
				return isC && core.CalleeName(&call.Call) == "builtin len" && isExtract(rb.Value(), 0)(call.Call.Args[0])
			}
			wbOK := func(in ssa.Instruction) bool { return in == wb.Instr }
			p := reachEdges(rb.Instr, core.IsCallTo("invoke internal/vkgo/binlog.Engine.Commit"), wbOK, lenZero)
			c.Require(p == nil, "C18-R4", f18+"loop/written-before-commit", rb.Pos(), "a non-empty buffer reaches Commit only through writeBuffer",
				"a non-empty buffer taken from the exchange can reach engine.Commit without writeBuffer (commit of bytes that are not in the file): "+pathStr(p))
			// successful write precedes: Commit not reachable from a failed write
			var wbFail *ssa.BasicBlock
			for _, s := range wb.Block().Succs {
				if l, ok := core.EdgeLit(wb.Block(), s); ok && l.Op == token.EQL && !l.Pol && l.X == wb.Value() && isNil(l.Y) {
					wbFail = s
				}
			}
			var syncFail *ssa.BasicBlock
			for _, s := range sync.Block().Succs {
				if l, ok := core.EdgeLit(sync.Block(), s); ok && l.Op == token.EQL && !l.Pol && l.X == sync.Value() && isNil(l.Y) {
					syncFail = s
				}
			}
			// last fsync position: leaves of the Revert argument
			lastPosOK := func(v ssa.Value) (bool, string) {
				seen := map[ssa.Value]bool{}
				var walk func(v ssa.Value) (bool, string)
				walk = func(v ssa.Value) (bool, string) {
					if seen[v] {
						return true, ""
					}
					seen[v] = true
					switch x := v.(type) {
					case *ssa.Phi:
						for _, e := range x.Edges {
							if ok, why := walk(e); !ok {
								return false, why
							}
						}
						return true, ""
					case *ssa.Parameter:
						if len(loop.Params) == 2 && x == loop.Params[1] {
							return true, ""
						}
					}
					if isRdOffset(v) {
						if in, ok := v.(ssa.Instruction); ok && syncOK(in.Block()) {
							return true, ""
						}
						return false, "rd.offsetGlobal becomes the last-fsync position in a block not dominated by Sync()==nil"
					}
					return false, "last-fsync position has a source that is neither the start position parameter nor rd.offsetGlobal after a successful sync: " + core.Expr(v)
				}
				return walk(v)
			}
			for name, fb := range map[string]*ssa.BasicBlock{"write-error": wbFail, "sync-error": syncFail} {
				if fb == nil {
					c.Undecided("C18-R4", f18+"loop/"+name, loop.Pos(), "the error branch was not found")
					continue
				}
				for _, must := range []string{"invoke internal/vkgo/binlog.Engine.ChangeRole", "invoke internal/vkgo/binlog.Engine.Revert"} {
					exit := func(in ssa.Instruction) bool {
						return core.IsReturn(in) || in == rb.Instr || core.IsCallTo("invoke internal/vkgo/binlog.Engine.Commit")(in)
					}
					p := reachFromBlock(fb, exit, core.IsCallTo(must))
					c.Require(p == nil, "C18-R4", f18+"loop/"+name+"->"+strings.TrimPrefix(must, "invoke internal/vkgo/binlog.Engine."), fb.Instrs[0].Pos(), "error path passes "+must,
						"after a "+name+" the loop can end / continue without "+must+": "+pathStr(p))
				}
				for _, s := range core.CallsTo(loop, "invoke internal/vkgo/binlog.Engine.Revert") {
					if s.Block() == fb || fb.Dominates(s.Block()) {
						ok, why := lastPosOK(s.Arg(1))
						c.Require(ok, "C18-R4", f18+"loop/"+name+"/revert-position", s.Pos(), "Revert(last successfully fsynced position)", "Revert argument: "+why)
					}
				}
			}
		}
	}

	// =================================================================== R5 (K1/K4 + K2)
	c.Rule("C18-R5", "K4 lock discipline (local) + K1 + K2 + K6", 12, "putLevToBuffer appends only with buffEx.mu held, after finishAccept was tested false and incomeOffset == rd.offsetGlobal; appendLevUnsafe/rotateFile/updatePos are called only from holders or each other; "+
		"rd.crc/offsetLocal/offsetGlobal are written only in updatePos/rotateFile/newBuffEx; appendLevUnsafe pads the buffer to a multiple of 4 before updatePos")
	tBX := f18 + "buffExchange"
	bxHelpers := []string{f18 + "(*buffExchange).appendLevUnsafe", f18 + "(*buffExchange).rotateFile", f18 + "(*buffExchange).updatePos", f18 + "(*buffExchange).getSizeUnsafe"}
	if put := need(c, "C18-R5", f18+"(*fsBinlog).putLevToBuffer"); put != nil {
		locks := core.AnalyzeLocks(put)
		n := 0
		for _, s := range core.Calls(put) {
			if !core.GlobAny(bxHelpers, s.Callee) {
				continue
			}
			n++
			c.CallSites++
			key := fmt.Sprintf("%sputLevToBuffer/%s#%d", f18, strings.TrimPrefix(s.Callee, f18+"(*buffExchange)."), n)
			lvl, reach := locks.Level(s.Instr, mutexKey(s.Arg(0), "mu"))
			if !reach {
				continue
			}
			ok := lvl == core.LockW
			why := ""
			if !ok {
				why = "called without " + mutexKey(s.Arg(0), "mu") + " held (held: " + locks.HeldAt(s.Instr) + ")"
			}
			if ok && s.Callee != f18+"(*buffExchange).getSizeUnsafe" {
				offOK := eqFact(s.Block(), true, isVal(put.Params[1]), loadsField(f18+"replaceData", "offsetGlobal"))
				accOK := false
				for _, g := range core.Facts(s.Block()) {
					if len(g.Alts) == 1 && !g.Alts[0].Pol && core.LoadsField(g.Alts[0].Cond, tBX, "finishAccept") {
						accOK = true
					}
				}
				if !offOK || !accOK {
					ok = false
					why = fmt.Sprintf("append not dominated by incomeOffset == rd.offsetGlobal (ok=%v) and !finishAccept (ok=%v)", offOK, accOK)
				}
			}
			c.Require(ok, "C18-R5", key, s.Pos(), "buffer operation under buffEx.mu, the offset test and the accept test", why)
		}
		for i, r := range liveReturns(put) {
			var key string
			for _, op := range core.MinLockOps(put) {
				if op.Op == "Lock" {
					key = op.Mutex
				}
			}
			lvl, reach := locks.Level(r, key)
			if reach {
				c.Require(lvl == core.LockNone || locks.DeferredRelease(r, key), "C18-R5", fmt.Sprintf("%sputLevToBuffer/return#%d/released", f18, i+1), r.Pos(), "buffEx.mu released on return", "return with buffEx.mu held and no deferred Unlock")
			}
		}
	}
	// who may call the unsafe helpers / operate the mutex
	holders := []string{f18 + "(*fsBinlog).putLevToBuffer"}
	for _, h := range bxHelpers {
		if h == f18+"(*buffExchange).getSizeUnsafe" {
			continue
		}
		whoMayCall(c, "C18-R5", fns, h, append(append([]string{}, holders...), bxHelpers...), "buffer exchange internals run under buffEx.mu taken by putLevToBuffer")
	}
	for _, fn := range fns {
		name := core.FuncName(fn)
		for i, op := range core.MinLockOps(fn) {
			if fa, ok := op.Addr.(*ssa.FieldAddr); ok && core.IsField(fa, tBX, "mu") && inFuncs(name, bxHelpers) {
				c.Fail("C18-R5", fmt.Sprintf("%s/lock-op#%d", name, i+1), op.Instr.Pos(), "a caller-holds-lock helper operates buffEx.mu itself")
			}
		}
		// every other access to the exchange buffer / rd happens under the mutex
		if inFuncs(name, bxHelpers) || name == f18+"newBuffEx" || name == f18+"(*fsBinlog).putLevToBuffer" {
			continue
		}
		var locks *core.HeldLocks
		n := 0
		for _, b := range fn.Blocks {
			for _, in := range b.Instrs {
				v, ok := in.(ssa.Value)
				if !ok {
					continue
				}
				for _, f := range []string{"buff", "rd", "finishAccept"} {
					if core.IsField(v, tBX, f) {
						if locks == nil {
							locks = core.AnalyzeLocks(fn)
						}
						n++
						lvl, reach := locks.Level(in, mutexKey(fieldBaseOf(v), "mu"))
						if reach {
							c.Require(lvl == core.LockW, "C18-R5", fmt.Sprintf("%s/access:%s#%d", name, f, n), in.Pos(), "exchange state accessed under buffEx.mu",
								"buffExchange."+f+" is accessed in "+name+" without buffEx.mu (held: "+locks.HeldAt(in)+")")
						}
					}
				}
			}
		}
	}
	for _, f := range []string{"crc", "offsetLocal", "offsetGlobal"} {
		for i, w := range core.FieldWrites(fns, f18+"replaceData", f) {
			name := core.FuncName(w.Fn)
			c.Require(inFuncs(name, []string{f18 + "(*buffExchange).updatePos", f18 + "(*buffExchange).rotateFile", f18 + "newBuffEx"}), "C18-R5", fmt.Sprintf("replaceData.%s-writer#%d:%s", f, i+1, name), w.Instr.Pos(),
				"enumerated writer", "replaceData."+f+" is written in "+name+"; crc and offsets must move only together with appended bytes (updatePos), at rotation or at construction")
		}
	}
	if ap := need(c, "C18-R5", f18+"(*buffExchange).appendLevUnsafe"); ap != nil {
		ups := core.CallsTo(ap, f18+"(*buffExchange).updatePos")
		var rem *ssa.If
		var unaligned *ssa.BasicBlock
		for _, b := range ap.Blocks {
			if len(b.Instrs) == 0 {
				continue
			}
			ifi, ok := b.Instrs[len(b.Instrs)-1].(*ssa.If)
			if !ok {
				continue
			}
			l := core.NormLit(ifi.Cond, true)
			if l.Op != token.EQL {
				continue
			}
			bo, isB := l.X.(*ssa.BinOp)
			k, isK := kInt64(l.Y)
			if !isB || bo.Op != token.REM || !isK || k != 0 {
				continue
			}
			if m, isM := kInt64(bo.Y); !isM || m != 4 || !isLenOfField(bo.X, tBX, "buff") {
				continue
			}
			rem = ifi
			if l.Pol {
				unaligned = b.Succs[1]
			} else {
				unaligned = b.Succs[0]
			}
		}
		if rem == nil || len(ups) != 1 {
			c.Fail("C18-R5", f18+"appendLevUnsafe/padding", ap.Pos(), "appendLevUnsafe does not branch on len(b.buff) % 4 before updatePos: events would not be padded to 4 bytes (the reader skips padding after every event)")
		} else {
			// on the unaligned branch the buffer is extended by 4 - len%4 zero bytes before updatePos
			padOK := false
			for _, in := range unaligned.Instrs {
				st, ok := in.(*ssa.Store)
				if !ok || !core.IsField(st.Addr, tBX, "buff") {
					continue
				}
				call, ok := st.Val.(*ssa.Call)
				if !ok || core.CalleeName(&call.Call) != "builtin append" || len(call.Call.Args) != 2 || !core.LoadsField(call.Call.Args[0], tBX, "buff") {
					continue
				}
				sl, ok := call.Call.Args[1].(*ssa.Slice)
				if !ok || sl.Low != nil || sl.High == nil {
					continue
				}
				if hb, isB := sl.High.(*ssa.BinOp); isB && hb.Op == token.SUB {
					if four, is4 := kInt64(hb.X); is4 && four == 4 {
						if rb, isR := hb.Y.(*ssa.BinOp); isR && rb.Op == token.REM && isLenOfField(rb.X, tBX, "buff") {
							if m, isM := kInt64(rb.Y); isM && m == 4 {
								padOK = true
							}
						}
					}
				}
			}
			p := reachFromBlock(unaligned, func(in ssa.Instruction) bool { return in == ups[0].Instr }, isStoreToField(tBX, "buff"))
			c.Require(padOK && p == nil && core.Dominates(rem, ups[0].Instr), "C18-R5", f18+"appendLevUnsafe/padding", ups[0].Pos(), "unaligned events are padded with 4-len%4 bytes before updatePos",
				fmt.Sprintf("appendLevUnsafe must extend the buffer by 4 - len%%4 bytes when len%%4 != 0 before updatePos (pad ok=%v, unpadded path: %s)", padOK, pathStr(p)))
		}
	}

	// =================================================================== R6 (K6 order)
	c.Rule("C18-R6", "K6 order (dominance)", 2, "rotate: Sync of the old file, then initChunk(createNew=true) which opens with O_CREATE|O_EXCL, then ROTATE_FROM written to the new file, then ROTATE_TO written to the old file handle saved before initChunk")
	if rot := need(c, "C18-R6", f18+"(*binlogWriter).rotate"); rot != nil && len(rot.Params) == 3 {
		var firstSync, initC, wFrom, wTo *core.Site
		for _, s := range core.Calls(rot) {
			s := s
			switch s.Callee {
			case "github.com/myxo/gofs.(*File).Sync":
				if firstSync == nil {
					firstSync = &s
				}
			case f18 + "(*binlogWriter).initChunk":
				initC = &s
			case "github.com/myxo/gofs.(*File).Write":
				if s.Arg(1) == ssa.Value(rot.Params[2]) {
					wFrom = &s
				} else if s.Arg(1) == ssa.Value(rot.Params[1]) {
					wTo = &s
				}
			}
		}
		if firstSync == nil || initC == nil || wFrom == nil || wTo == nil {
			c.Fail("C18-R6", f18+"rotate/order", rot.Pos(), "rotate must sync the old file, call initChunk and write both rotate events (one of these calls is missing)")
		} else {
			var probs []string
			if !core.Dominates(firstSync.Instr, initC.Instr) || !eqFact(initC.Block(), true, isVal(firstSync.Value()), isNil) {
				probs = append(probs, "the new chunk is created before the old file was synced successfully")
			}
			if !core.ConstBool(initC.Arg(1), true) {
				probs = append(probs, "initChunk is not called with createNew=true")
			}
			if !core.Dominates(initC.Instr, wFrom.Instr) || !eqFact(wFrom.Block(), true, isVal(initC.Value()), isNil) {
				probs = append(probs, "ROTATE_FROM is written without initChunk having succeeded")
			}
			if !core.Dominates(wFrom.Instr, wTo.Instr) || !eqFact(wTo.Block(), true, isExtract(wFrom.Value(), 1), isNil) {
				probs = append(probs, "ROTATE_TO is written to the old file before ROTATE_FROM is in the new file")
			}
			// receivers: wFrom writes to bw.fp loaded after initChunk, wTo to bw.fp loaded before it
			ldFrom, ok1 := wFrom.Arg(0).(*ssa.UnOp)
			ldTo, ok2 := wTo.Arg(0).(*ssa.UnOp)
			if !ok1 || !ok2 || !core.IsField(ldFrom.X, f18+"binlogWriter", "fp") || !core.IsField(ldTo.X, f18+"binlogWriter", "fp") {
				probs = append(probs, "the rotate events are not written to loads of bw.fp")
			} else {
				if !core.Dominates(initC.Instr, ldFrom) {
					probs = append(probs, "ROTATE_FROM goes to the file handle read before the new chunk was opened")
				}
				if !core.Dominates(ldTo, initC.Instr) {
					probs = append(probs, "ROTATE_TO goes to a file handle read after the new chunk replaced bw.fp (it must go to the old file)")
				}
			}
			// no other write to the old handle before the new file has ROTATE_FROM
			for _, s := range core.CallsTo(rot, "github.com/myxo/gofs.(*File).Write") {
				if s.Instr != wFrom.Instr && s.Instr != wTo.Instr {
					probs = append(probs, "unexpected extra Write in rotate at "+c.Prog.Pos(s.Pos()))
				}
			}
			c.Require(len(probs) == 0, "C18-R6", f18+"rotate/order", rot.Pos(), "sync old -> create new -> ROTATE_FROM to new -> ROTATE_TO to old", strings.Join(probs, "; "))
		}
	}
	initChunk := need(c, "C18-R6", f18+"(*binlogWriter).initChunk")
	if initChunk != nil && len(initChunk.Params) == 4 {
		// flags: under createNew the O_CREATE|O_EXCL bits are set in the flags passed to OpenFile
		opens := core.CallsTo(initChunk, "invoke github.com/myxo/gofs.FS.OpenFile")
		ok := false
		if len(opens) == 1 {
			if phi, isPhi := opens[0].Arg(2).(*ssa.Phi); isPhi {
				for i, e := range phi.Edges {
					pred := phi.Block().Preds[i]
					underCreate := false
					for _, g := range core.Facts(pred) {
						if len(g.Alts) == 1 && g.Alts[0].Pol && g.Alts[0].Cond == ssa.Value(initChunk.Params[1]) {
							underCreate = true
						}
					}
					if underCreate {
						if v, isC := e.(*ssa.Const); isC {
							if n, isN := constant.Int64Val(constant.ToInt(v.Value)); isN && n&0x40 != 0 && n&0x80 != 0 && n&0x400 != 0 { // O_CREAT|O_EXCL|O_APPEND on linux
								ok = true
							}
						} else if bo, isB := e.(*ssa.BinOp); isB && bo.Op == token.OR {
							if n, isN := kInt64(bo.Y); isN && n&0x40 != 0 && n&0x80 != 0 {
								ok = true
							}
						}
					}
				}
			}
		}
		c.Require(ok, "C18-R6", f18+"initChunk/excl", initChunk.Pos(), "a new chunk is opened with O_CREATE|O_EXCL", "initChunk(createNew=true) does not open the file with O_CREATE|O_EXCL: rotation could append to (or truncate the meaning of) an existing chunk")
	}

	// =================================================================== R7 (K1)
	c.Rule("C18-R7", "K1 guard-dominance", 1, "after engine.Apply the replay continues only when the new position is not before the current one, the consumed bytes fit the buffer, and (bytes > 0 or an error was returned)")
	if reader != nil {
		for i, s := range core.CallsTo(reader, "invoke internal/vkgo/binlog.Engine.Apply") {
			isNewPos := isExtract(s.Value(), 0)
			// continuation point: the padding of the consumed byte count (AddPadding) / loop top
			conts := core.CallsTo(reader, f18+"AddPadding")
			var cont *core.Site
			for j := range conts {
				if core.Dominates(s.Instr, conts[j].Instr) && core.Derives(conts[j].Arg(0), s.Value()) {
					cont = &conts[j]
				}
			}
			if cont == nil {
				c.Undecided("C18-R7", fmt.Sprintf("%sreadUncompressedFile/Apply#%d", f18, i+1), s.Pos(), "continuation after Apply (AddPadding of the consumed bytes) not found")
				continue
			}
			b := cont.Block()
			var miss []string
			isCell := func(v ssa.Value) bool {
				u, ok := peelConv(v).(*ssa.UnOp)
				if !ok || u.Op != token.MUL {
					return false
				}
				_, isA := u.X.(*ssa.Alloc)
				return isA
			}
			if !geFactWith(b, func(l core.Lin) bool {
				k, m := linShape(l, linTerm{1, isNewPos}, linTerm{-1, isCell})
				return m && k <= 0
			}) {
				miss = append(miss, "newPos >= curPos")
			}
			fits := false
			for _, g := range core.Facts(b) {
				if len(g.Alts) != 1 || g.Alts[0].Op != token.LSS || g.Alts[0].Pol {
					continue
				}
				// !(len(aligned) < consumed)
				x, y := g.Alts[0].X, g.Alts[0].Y
				if call, ok := x.(*ssa.Call); ok && core.CalleeName(&call.Call) == "builtin len" && call.Call.Args[0] == s.Arg(1) && core.Derives(y, s.Value()) {
					fits = true
				}
			}
			if !fits {
				miss = append(miss, "consumed <= len(buffer given to Apply)")
			}
			progress := false
			for _, g := range core.Facts(b) {
				all := len(g.Alts) > 0
				for _, l := range g.Alts {
					pos := l.Op == token.LSS && l.Pol && isConstInt(0)(l.X) && core.Derives(l.Y, s.Value())
					errNon := l.Op == token.EQL && !l.Pol && isExtract(s.Value(), 1)(l.X) && isNil(l.Y)
					if !pos && !errNon {
						all = false
					}
				}
				if all {
					progress = true
				}
			}
			if !progress {
				miss = append(miss, "consumed > 0 or Apply returned an error")
			}
			c.Require(len(miss) == 0, "C18-R7", fmt.Sprintf("%sreadUncompressedFile/Apply#%d/result-checked", f18, i+1), s.Pos(), "Apply result validated before the replay continues",
				"the replay continues after engine.Apply without: "+strings.Join(miss, "; "))
		}
	}

	// =================================================================== R8 (K1)
	c.Rule("C18-R8", "K1 guard-dominance + K7", 3, "initChunk installs the file for appending only when its size equals the expected size parameter; newBinlogWriter passes replay end position minus the chunk's start position, rotate passes 0 for the new chunk")
	if initChunk != nil && len(initChunk.Params) == 4 {
		exp := initChunk.Params[3]
		isSize := func(v ssa.Value) bool {
			call, ok := v.(*ssa.Call)
			return ok && strings.HasSuffix(core.CalleeName(&call.Call), "FileInfo.Size")
		}
		sizeEq := func(b *ssa.BasicBlock) bool {
			if eqFact(b, true, isSize, isVal(exp)) {
				return true
			}
			// size <= exp && size >= exp
			le := geFactWith(b, func(l core.Lin) bool {
				k, m := linShape(l, linTerm{1, isVal(exp)}, linTerm{-1, isSize})
				return m && k <= 0
			})
			ge := geFactWith(b, func(l core.Lin) bool {
				k, m := linShape(l, linTerm{-1, isVal(exp)}, linTerm{1, isSize})
				return m && k <= 0
			})
			return le && ge
		}
		n := 0
		for _, w := range core.FieldWrites([]*ssa.Function{initChunk}, f18+"binlogWriter", "fp") {
			n++
			c.Require(sizeEq(w.Instr.Block()), "C18-R8", fmt.Sprintf("%sinitChunk/install#%d", f18, n), w.Instr.Pos(), "file installed only under Size() == expectedSize",
				"bw.fp is set without the file size having been tested equal to the expected size: the writer would append after bytes the replay never delivered (a torn tail or foreign data), shifting every later offset; facts: "+core.FactsString(w.Instr.Block()))
		}
		for _, r := range liveReturns(initChunk) {
			if isNil(r.Results[0]) {
				n++
				c.Require(sizeEq(r.Block()), "C18-R8", fmt.Sprintf("%sinitChunk/return-ok#%d", f18, n), r.Pos(), "success only under Size() == expectedSize", "initChunk returns nil without Size() == expectedSize")
			}
		}
		if n == 0 {
			c.Undecided("C18-R8", f18+"initChunk/install", initChunk.Pos(), "no store to bw.fp found")
		}
		// who may write bw.fp
		for i, w := range core.FieldWrites(fns, f18+"binlogWriter", "fp") {
			c.Require(core.FuncName(w.Fn) == f18+"(*binlogWriter).initChunk", "C18-R8", fmt.Sprintf("binlogWriter.fp-writer#%d:%s", i+1, core.FuncName(w.Fn)), w.Instr.Pos(), "bw.fp set only by initChunk", "bw.fp is assigned outside initChunk (no size check)")
		}
		for i, s := range core.Callers(fns, f18+"(*binlogWriter).initChunk") {
			key := fmt.Sprintf("initChunk-caller#%d:%s", i+1, core.FuncName(s.Fn))
			if core.ConstBool(s.Arg(1), true) {
				k, isK := kInt64(s.Arg(3))
				c.Require(isK && k == 0, "C18-R8", key, s.Pos(), "new chunk expected empty", "a newly created chunk must be expected to have size 0")
				continue
			}
			// existing chunk: expected size = position after replay - chunk start position
			e := core.LinOf(s.Arg(3))
			k, m := linShape(e, linTerm{1, func(v ssa.Value) bool { _, isP := v.(*ssa.Parameter); return isP }}, linTerm{-1, loadsField(f18+"FileHeader", "Position")})
			c.Require(m && k == 0 && core.ConstBool(s.Arg(1), false), "C18-R8", key, s.Pos(), "expected size = replay end position - chunk start position",
				"initChunk for an existing chunk must expect (position after replay) - (FileHeader.Position); found "+e.String())
		}
	}
}

// binarySize is encoding/binary's size of a fixed-size type (-1 if not fixed).
func binarySize(t types.Type) int64 {
	switch u := t.Underlying().(type) {
	case *types.Basic:
		switch u.Kind() {
		case types.Int8, types.Uint8, types.Bool:
			return 1
		case types.Int16, types.Uint16:
			return 2
		case types.Int32, types.Uint32, types.Float32:
			return 4
		case types.Int64, types.Uint64, types.Float64:
			return 8
		}
	case *types.Array:
		e := binarySize(u.Elem())
		if e < 0 {
			return -1
		}
		return e * u.Len()
	case *types.Struct:
		var s int64
		for i := 0; i < u.NumFields(); i++ {
			e := binarySize(u.Field(i).Type())
			if e < 0 {
				return -1
			}
			s += e
		}
		return s
	}
	return -1
}

func sortedInt64Keys(m map[int64]string) []int64 {
	var ks []int64
	for k := range m {
		ks = append(ks, k)
	}
	for i := range ks {
		for j := i + 1; j < len(ks); j++ {
			if ks[j] < ks[i] {
				ks[i], ks[j] = ks[j], ks[i]
			}
		}
	}
	return ks
}

func blockIdx(p core.Path) []int {
	out := make([]int, len(p))
	for i, b := range p {
		out[i] = b.Index
	}
	return out
}

// isLenOfField matches len(load of typ.field).
func isLenOfField(v ssa.Value, typ, field string) bool {
	call, ok := peelConv(v).(*ssa.Call)
	return ok && core.CalleeName(&call.Call) == "builtin len" && len(call.Call.Args) == 1 && core.LoadsField(call.Call.Args[0], typ, field)
}
