package props

import (
	"fmt"
	"go/token"
	"strings"

	"golang.org/x/tools/go/ssa"

	"shverif/core"
)

// need resolves an anchored function or reports the anchor as unresolved.
func need(c *core.Check, rule, name string) *ssa.Function {
	fn := c.Prog.Func(name)
	if fn == nil {
		c.Anchor(rule, name)
		return nil
	}
	c.Seen(name)
	return fn
}

// sig is a conjunction of guard conditions.
type sig struct {
	name  string
	conds []core.Cond
}

// matchSig returns the name of the first signature all of whose conditions hold at b.
func matchSig(b *ssa.BasicBlock, sigs []sig) (string, bool) {
	for _, s := range sigs {
		if len(core.HoldsAll(b, s.conds...)) == 0 {
			return s.name, true
		}
	}
	return "", false
}

func sigNames(sigs []sig) string {
	var n []string
	for _, s := range sigs {
		var cs []string
		for _, c := range s.conds {
			cs = append(cs, c.String())
		}
		n = append(n, s.name+"{"+strings.Join(cs, " && ")+"}")
	}
	return strings.Join(n, " | ")
}

// whoMayCall checks that every call of callee within fns is made from an allowed
// function (canonical names, anonymous functions count as their parent when
// allowNested). Returns the number of call sites.
func whoMayCall(c *core.Check, rule string, fns []*ssa.Function, callee string, allowed []string, reason string) int {
	sites := core.Callers(fns, callee)
	keys := core.Ordinals(sites)
	for i, s := range sites {
		c.CallSites++
		caller := core.FuncName(s.Fn)
		ok := false
		for _, a := range allowed {
			if caller == a || strings.HasPrefix(caller, a+"$") {
				ok = true
			}
		}
		c.Require(ok, rule, keys[i], s.Pos(),
			"allowed caller of "+callee,
			fmt.Sprintf("%s is called from %s, which is not in the allow-list %v (%s)", callee, caller, allowed, reason))
	}
	for _, u := range core.FuncValueUses(fns, callee) {
		c.Fail(rule, core.FuncName(u.Parent())+"/value-use:"+callee, u.Pos(),
			callee+" is used as a function value (escapes the who-may-call rule)")
	}
	return len(sites)
}

// nonNilErr reports whether error value v is provably non-nil at block b: built by
// fmt.Errorf/errors.New, a pointer-to-struct literal converted to an interface, or
// tested `v != nil` on the dominator chain.
func nonNilErr(v ssa.Value, b *ssa.BasicBlock) bool {
	switch x := v.(type) {
	case *ssa.Call:
		n := core.CalleeName(&x.Call)
		if n == "fmt.Errorf" || n == "errors.New" {
			return true
		}
	case *ssa.MakeInterface:
		if _, ok := x.X.(*ssa.Alloc); ok {
			return true
		}
		if c, ok := x.X.(*ssa.Call); ok {
			n := core.CalleeName(&c.Call)
			if n == "fmt.Errorf" || n == "errors.New" {
				return true
			}
		}
	}
	for _, g := range core.Facts(b) {
		if len(g.Alts) != 1 {
			continue
		}
		l := g.Alts[0]
		if l.Op == token.EQL && !l.Pol && l.X == v {
			if k, ok := l.Y.(*ssa.Const); ok && k.Value == nil {
				return true
			}
		}
	}
	return false
}

// isNilConst reports whether v is the nil constant.
func isNilConst(v ssa.Value) bool {
	k, ok := v.(*ssa.Const)
	return ok && k.Value == nil
}

// baseChain follows the "container" operand of v back to its roots:
// field, deref, extract, next, range, index, lookup, conversions.
func baseChain(v ssa.Value) []ssa.Value {
	var out []ssa.Value
	seen := map[ssa.Value]bool{}
	for v != nil && !seen[v] {
		seen[v] = true
		out = append(out, v)
		switch x := v.(type) {
		case *ssa.FieldAddr:
			v = x.X
		case *ssa.Field:
			v = x.X
		case *ssa.UnOp:
			v = x.X
		case *ssa.Extract:
			v = x.Tuple
		case *ssa.Next:
			v = x.Iter
		case *ssa.Range:
			v = x.X
		case *ssa.IndexAddr:
			v = x.X
		case *ssa.Index:
			v = x.X
		case *ssa.Lookup:
			v = x.X
		case *ssa.Convert:
			v = x.X
		case *ssa.ChangeType:
			v = x.X
		case *ssa.MakeInterface:
			v = x.X
		case *ssa.Slice:
			v = x.X
		case *ssa.Alloc:
			// address-taken local: follow its single assignment
			if sts := core.StoresTo(x); len(sts) == 1 {
				v = sts[0].Val
			} else {
				v = nil
			}
		default:
			v = nil
		}
	}
	return out
}

// blockStart returns the first instruction of a block (for reachability searches).
func blockStart(b *ssa.BasicBlock) ssa.Instruction { return b.Instrs[0] }

// reachFromBlock searches from the beginning of b.
func reachFromBlock(b *ssa.BasicBlock, target, stop func(ssa.Instruction) bool) *core.PathTo {
	first := b.Instrs[0]
	if stop != nil && stop(first) {
		return nil
	}
	if target(first) {
		return &core.PathTo{End: first, Blocks: []int{b.Index}}
	}
	return core.ReachWithout(first, target, stop)
}

func pathStr(p *core.PathTo) string {
	if p == nil {
		return ""
	}
	return fmt.Sprintf("blocks %v", p.Blocks)
}

// ifOn finds the If instruction that branches on value v (directly) in fn.
func ifOn(fn *ssa.Function, v ssa.Value) *ssa.If {
	for _, b := range fn.Blocks {
		if len(b.Instrs) == 0 {
			continue
		}
		if i, ok := b.Instrs[len(b.Instrs)-1].(*ssa.If); ok && i.Cond == v {
			return i
		}
	}
	return nil
}

func isStoreToField(typ, field string) func(ssa.Instruction) bool {
	return func(in ssa.Instruction) bool {
		st, ok := in.(*ssa.Store)
		return ok && core.IsField(st.Addr, typ, field)
	}
}

func or(ps ...func(ssa.Instruction) bool) func(ssa.Instruction) bool {
	return func(in ssa.Instruction) bool {
		for _, p := range ps {
			if p(in) {
				return true
			}
		}
		return false
	}
}
