package props

import (
	"fmt"
	"go/constant"
	"go/token"
	"go/types"
	"sort"
	"strings"

	"golang.org/x/tools/go/ssa"

	"shverif/core"
)

func init() {
	ck := func(name, header, n string) Mutant {
		return Mutant{Name: "msgpack-unbounded-" + name + " (revert of F4)", File: "internal/receiver/msgpack.go", Rule: "C13-R1",
			Old: "			if err = basictl.CheckLengthSanity(buf, " + n + "); err != nil {\n				return nil, msgp.WrapError(err, \"" + header + "\")\n			}\n",
			New: ""}
	}
	Register(&Property{
		ID:   "C13",
		Pkgs: []string{"./internal/receiver", "./internal/data_model/gen2/internal", "./internal/vkgo/basictl"},
		Run:  runC13,
		Mutants: []Mutant{
			ck("tags", "tags", "numTags, 2"),
			ck("value", "value", "numValues, 1"),
			ck("unique", "unique", "numUnique, 1"),
			ck("histogram", "histogram", "numValues, 3"),
			ck("metrics", "Metrics", "numMetrics, 1"),
			{Name: "msgpack-check-result-ignored", File: "internal/receiver/msgpack.go", Rule: "C13-R1",
				Old: "			if err = basictl.CheckLengthSanity(buf, numUnique, 1); err != nil {\n				return nil, msgp.WrapError(err, \"unique\")\n			}\n",
				New: "			_ = basictl.CheckLengthSanity(buf, numUnique, 1)\n"},
			{Name: "msgpack-check-other-count", File: "internal/receiver/msgpack.go", Rule: "C13-R1",
				Old: "basictl.CheckLengthSanity(buf, numMetrics, 1)", New: "basictl.CheckLengthSanity(buf, numFields, 1)"},
			{Name: "tl-vector-unbounded", File: "internal/data_model/gen2/internal/statshouse.metric.go", Rule: "C13-R1",
				Old: "func BuiltinVectorStatshouseMetricBytesReadTL1(w []byte, vec *[]StatshouseMetricBytes) (_ []byte, err error) {\n	var l uint32\n	if w, err = basictl.NatRead(w, &l); err != nil {\n		return w, err\n	}\n	if err = basictl.CheckLengthSanity(w, l, 4); err != nil {\n		return w, err\n	}\n",
				New: "func BuiltinVectorStatshouseMetricBytesReadTL1(w []byte, vec *[]StatshouseMetricBytes) (_ []byte, err error) {\n	var l uint32\n	if w, err = basictl.NatRead(w, &l); err != nil {\n		return w, err\n	}\n"},
			{Name: "sanity-check-weakened", File: "internal/vkgo/basictl/basictl.go", Rule: "C13-R1",
				Old: "	if uint64(len(r)) < uint64(natParam)*uint64(minObjectSize) {", New: "	if len(r) == 0 && natParam != 0 {"},
			{Name: "protobuf-passes-remainder (revert of F5)", File: "internal/receiver/receiver.go", Rule: "C13-R2",
				Old: "			pkt, err = protobufUnmarshalStatshouseAddMetricBatch(batch, pkt)\n			size := len(was) - len(pkt)\n			if !u.handleMetricsBatch(h, ingestionError, batch, was, err, scratch, connHost) {",
				New: "			pkt, err = protobufUnmarshalStatshouseAddMetricBatch(batch, pkt)\n			size := len(was) - len(pkt)\n			if !u.handleMetricsBatch(h, ingestionError, batch, pkt, err, scratch, connHost) {"},
			{Name: "msgpack-passes-remainder", File: "internal/receiver/receiver.go", Rule: "C13-R2",
				Old: "			pkt, err = msgpackUnmarshalStatshouseAddMetricBatch(batch, pkt)\n			size := len(was) - len(pkt)\n			if !u.handleMetricsBatch(h, ingestionError, batch, was, err, scratch, connHost) {",
				New: "			pkt, err = msgpackUnmarshalStatshouseAddMetricBatch(batch, pkt)\n			size := len(was) - len(pkt)\n			if !u.handleMetricsBatch(h, ingestionError, batch, pkt, err, scratch, connHost) {"},
			{Name: "msgpack-unique-not-set", File: "internal/receiver/msgpack.go", Rule: "C13-R3",
				Old: "			m.SetUnique(value)\n", New: "			_ = value\n"},
			{Name: "protobuf-histogram-not-set", File: "internal/receiver/protobuf.go", Rule: "C13-R3",
				Old: "			if cap(m.Histogram) > len(m.Histogram) {\n				m.Histogram = m.Histogram[:len(m.Histogram)+1]\n			} else {\n				m.Histogram = append(m.Histogram, [2]float64{})\n			}\n			buf = buf[n:]\n			if _, err = protobufUnmarshalCentroid(data, &m.Histogram[len(m.Histogram)-1]); err != nil {\n				return buf, err\n			}\n			m.SetHistogram(m.Histogram)\n",
				New: "			var centroid [2]float64\n			buf = buf[n:]\n			if _, err = protobufUnmarshalCentroid(data, &centroid); err != nil {\n				return buf, err\n			}\n"},
			{Name: "tl-magic-wrong-byte-order", File: "internal/receiver/receiver.go", Rule: "C13-R4",
				Old: "metricsBatchPrefix = \"\\x39\\x02\\x58\\x56\"", New: "metricsBatchPrefix = \"\\x56\\x58\\x02\\x39\""},
			{Name: "json-prefix-collides-with-msgpack", File: "internal/receiver/receiver.go", Rule: "C13-R4",
				Old: "jsonPacketPrefix   = \"{\" ", New: "jsonPacketPrefix   = \"\\x81\" "},
			{Name: "msgpack-branch-uses-protobuf-decoder", File: "internal/receiver/receiver.go", Rule: "C13-R4",
				Old: "			pkt, err = msgpackUnmarshalStatshouseAddMetricBatch(batch, pkt)\n", New: "			pkt, err = protobufUnmarshalStatshouseAddMetricBatch(batch, pkt)\n"},
			{Name: "metrics-handled-on-parse-error", File: "internal/receiver/receiver.go", Rule: "C13-R5",
				Old: "	if parseErr != nil {\n		u.statBatchesTotalErr.Inc()\n		if len(pkt) != 0 {\n			handler.HandleParseError(pkt, parseErr)\n		}\n		return false\n	}",
				New: "	if parseErr != nil && len(b.Metrics) == 0 {\n		u.statBatchesTotalErr.Inc()\n		if len(pkt) != 0 {\n			handler.HandleParseError(pkt, parseErr)\n		}\n		return false\n	}"},
			{Name: "parse-error-swallowed", File: "internal/receiver/receiver.go", Rule: "C13-R5",
				Old: "		if len(pkt) != 0 {\n			handler.HandleParseError(pkt, parseErr)\n		}\n		return false",
				New: "		if len(pkt) != 0 {\n			handler.HandleParseError(pkt, parseErr)\n		}\n		return len(b.Metrics) != 0"},
		},
	})
}

const (
	tyMetricBytes = "internal/data_model/gen2/internal.StatshouseMetricBytes"
	fnSanity      = "internal/vkgo/basictl.CheckLengthSanity"
	fnParse       = "internal/receiver.(*parser).parse"
	fnHandleBatch = "internal/receiver.(*parser).handleMetricsBatch"
)

func runC13(c *core.Check) {
	c.Decides = "(R1) every make([]T, n) in internal/receiver and in the generated TL readers of internal/data_model/gen2/internal whose n is a count decoded from the wire (msgp map/array headers, basictl.NatRead, protowire numbers) " +
		"is dominated by a bound on that same count (constant, len/cap, or a successful basictl.CheckLengthSanity with element size >= 1), and CheckLengthSanity returns nil only when len(buf) >= n*size; " +
		"(R2) the bytes handed to handleMetricsBatch (and from there to HandleParseError) are the input of the decode call whose error is handed along, never its remainder; " +
		"(R3) the msgpack, protobuf and JSON metric decoders can set every field the TL reader sets; (R4) each decoder runs only under its own detection test, the TL magic equals the little-endian TL tag of statshouse.addMetricsBatch, " +
		"the constant prefixes have pairwise different first bytes none of which is a MessagePack map header (so the order of the tests cannot matter), protobuf is the default; " +
		"(R5) handleMetricsBatch calls HandleMetrics only under parseErr == nil, reports success only then, and calls HandleParseError with its own packet and error parameters."
	c.NotDecided = "that the four decoders yield equal metric sequences for equivalent encodings; absence of panics and hangs inside msgp, protowire, the JSON lexer and the generated readers; counts that reach an allocation through a struct field or a callee parameter (K9 is intraprocedural); allocation growth by append."

	c13Alloc(c)
	c13Packet(c)
	c13Fields(c)
	c13Detect(c)
	c13Handler(c)
	debugObs(c)
}

// ---- R1 ---------------------------------------------------------------------------------

func c13Alloc(c *core.Check) {
	const rule = "C13-R1"
	c.Rule(rule, "K9 tainted allocation bound", 5+2+28,
		"make([]T, n) with n decoded from the packet is dominated by a bound on n (5 sites in receiver/msgpack.go, the vector readers of gen2/internal); CheckLengthSanity(r, n, size) returns nil only under !(len(r) < n*size)")
	fns := c.Prog.FuncsIn("internal/receiver", "internal/data_model/gen2/internal")
	allocs := core.TaintedAllocs(fns, core.DecodeCountSources, fnSanity)
	cnt := map[string]int{}
	for _, a := range allocs {
		name := core.FuncName(a.Fn)
		c.Seen(name)
		cnt[name]++
		key := fmt.Sprintf("%s/make#%d", name, cnt[name])
		var rs []string
		for _, r := range a.Roots {
			rs = append(rs, r.String())
		}
		c.Require(a.Bounded, rule, key, a.Make.Pos(), "bounded: "+a.How,
			"allocation "+core.Expr(a.Make)+" is sized by "+strings.Join(rs, ", ")+" without a dominating bound ("+a.How+"): a short packet can request an allocation of any size (out of memory)")
	}
	// the sanity function itself
	if fn := need(c, rule, fnSanity); fn != nil && len(fn.Params) == 3 {
		n := 0
		for _, r := range realReturns(fn) {
			n++
			v := core.ReturnedValues(r)[0]
			key := fmt.Sprintf("%s/return#%d", fnSanity, n)
			if !isNilConst(v) {
				c.Require(nonNilErr(v, r.Block()), rule, key, r.Pos(), "error return", "cannot show the returned error is non-nil: "+core.Expr(v))
				continue
			}
			_, ok := litOn(r.Block(), func(l core.Lit) bool {
				if l.Pol || l.Op != token.LSS {
					return false
				}
				// len(r) on the left, n*size on the right (both widened to 64 bit)
				lc, isCall := stripConv(l.X).(*ssa.Call)
				if !isCall || core.CalleeName(&lc.Call) != "builtin len" || lc.Call.Args[0] != ssa.Value(fn.Params[0]) {
					return false
				}
				m, isMul := l.Y.(*ssa.BinOp)
				if !isMul || m.Op != token.MUL {
					return false
				}
				if bits, _, isInt := core.IntKind(m.Type()); !isInt || bits != 64 {
					return false // a 32-bit product could wrap
				}
				a, b := stripConv(m.X), stripConv(m.Y)
				return (a == ssa.Value(fn.Params[1]) && b == ssa.Value(fn.Params[2])) || (a == ssa.Value(fn.Params[2]) && b == ssa.Value(fn.Params[1]))
			})
			c.Require(ok, rule, key, r.Pos(), "nil only when len(r) >= n*size (64-bit product)",
				"CheckLengthSanity returns nil without the guard !(len(r) < uint64(n)*uint64(size)): it no longer bounds the count by the bytes present; facts: "+core.FactsString(r.Block()))
		}
	}
}

// ---- R2 ---------------------------------------------------------------------------------

func c13Packet(c *core.Check) {
	const rule = "C13-R2"
	c.Rule(rule, "K7 provenance", 4, "at every handleMetricsBatch call in parser.parse the packet argument is the []byte argument of the decode call that produced the error argument")
	fn := need(c, rule, fnParse)
	if fn == nil {
		return
	}
	sites := core.CallsTo(fn, fnHandleBatch)
	keys := core.Ordinals(sites)
	for i, s := range sites {
		c.CallSites++
		errArg, pktArg := s.Arg(5), s.Arg(4)
		var dec *ssa.Call
		switch x := errArg.(type) {
		case *ssa.Extract:
			dec, _ = x.Tuple.(*ssa.Call)
		case *ssa.Call:
			dec = x
		}
		if dec == nil {
			c.Undecided(rule, keys[i], s.Pos(), "the error handed to handleMetricsBatch is not the result of a decode call: "+core.Expr(errArg))
			continue
		}
		var inputs []ssa.Value
		for _, a := range dec.Call.Args {
			if sl, ok := a.Type().Underlying().(*types.Slice); ok {
				if b, isB := sl.Elem().Underlying().(*types.Basic); isB && b.Kind() == types.Uint8 {
					inputs = append(inputs, a)
				}
			}
		}
		if len(inputs) != 1 {
			c.Undecided(rule, keys[i], s.Pos(), fmt.Sprintf("decode call %s has %d []byte arguments, expected one", core.CalleeName(&dec.Call), len(inputs)))
			continue
		}
		why := "packet argument " + core.Expr(pktArg) + " is not the input of " + core.CalleeName(&dec.Call)
		if ex, ok := pktArg.(*ssa.Extract); ok && ex.Tuple == ssa.Value(dec) {
			why = "the decoder's remainder is handed to handleMetricsBatch instead of the packet that failed to parse: HandleParseError is skipped when the remainder is empty and otherwise gets the wrong bytes"
		}
		c.Require(pktArg == inputs[0], rule, keys[i], s.Pos(), "packet = input of "+core.CalleeName(&dec.Call), why)
	}
}

// ---- R3 ---------------------------------------------------------------------------------

// setFields computes the fields of StatshouseMetricBytes that fn can fill from its
// input: stored with a value other than a zero constant or a re-slice of the field
// itself, handed by address to a callee, or set by a callee that receives the metric.
func setFields(fn *ssa.Function, depth int, memo map[*ssa.Function]map[string]bool) map[string]bool {
	if m, ok := memo[fn]; ok {
		return m
	}
	out := map[string]bool{}
	memo[fn] = out
	if depth > 3 {
		return out
	}
	allInstrs(fn, func(in ssa.Instruction) {
		switch x := in.(type) {
		case *ssa.FieldAddr:
			n, ok := namedOf(x.X.Type())
			if !ok || core.TypeName(n) != tyMetricBytes {
				return
			}
			field := fieldNameOf(x)
			for _, ref := range core.Referrers(x) {
				switch r := ref.(type) {
				case *ssa.Store:
					if r.Addr != ssa.Value(x) {
						continue
					}
					if k, isC := r.Val.(*ssa.Const); isC && (k.Value == nil || constant.Sign(constant.ToFloat(k.Value)) == 0) {
						continue // cleared
					}
					if sl, isSl := r.Val.(*ssa.Slice); isSl {
						if fa, isLd := fieldLoadAny(sl.X, field); isLd && fa.X == x.X {
							if hk, isK := sl.High.(*ssa.Const); isK && hk.Value != nil && constant.Sign(hk.Value) == 0 {
								continue // x = x[:0]
							}
						}
					}
					out[field] = true
				case ssa.CallInstruction:
					for _, a := range r.Common().Args {
						if a == ssa.Value(x) {
							out[field] = true
						}
					}
				}
			}
		case *ssa.Call:
			callee, ok := x.Call.Value.(*ssa.Function)
			if !ok || len(callee.Blocks) == 0 {
				return
			}
			takes := false
			for _, a := range x.Call.Args {
				if n, isN := namedOf(a.Type()); isN && core.TypeName(n) == tyMetricBytes {
					takes = true
				}
			}
			if takes {
				for f := range setFields(callee, depth+1, memo) {
					out[f] = true
				}
			}
		}
	})
	return out
}

func namedOf(t types.Type) (*types.Named, bool) {
	t = types.Unalias(t)
	if p, ok := t.Underlying().(*types.Pointer); ok {
		t = types.Unalias(p.Elem())
	}
	n, ok := t.(*types.Named)
	return n, ok
}

func fieldNameOf(fa *ssa.FieldAddr) string {
	t := fa.X.Type()
	if p, ok := t.Underlying().(*types.Pointer); ok {
		t = p.Elem()
	}
	if st, ok := t.Underlying().(*types.Struct); ok && fa.Field < st.NumFields() {
		return st.Field(fa.Field).Name()
	}
	return fmt.Sprint(fa.Field)
}

func c13Fields(c *core.Check) {
	const rule = "C13-R3"
	c.Rule(rule, "K5 field-set agreement", 3, "every field of statshouse.metric that the TL reader (*StatshouseMetricBytes).ReadTL1 fills from the wire (except fields_mask) can also be filled by msgpackUnmarshalStatshouseMetric, protobufUnmarshalStatshouseMetric and the JSON reader")
	tl := need(c, rule, "internal/data_model/gen2/internal.(*StatshouseMetricBytes).ReadTL1")
	if tl == nil {
		return
	}
	memo := map[*ssa.Function]map[string]bool{}
	want := setFields(tl, 0, memo)
	delete(want, "FieldsMask")
	if len(want) < 7 {
		c.Undecided(rule, "tl-reader/field-set", tl.Pos(), fmt.Sprintf("the TL reader fills only %v: expected at least name, tags, counter, ts, value, unique, histogram", core.SortedKeys(want)))
		return
	}
	for _, name := range []string{
		"internal/receiver.msgpackUnmarshalStatshouseMetric",
		"internal/receiver.protobufUnmarshalStatshouseMetric",
		"internal/data_model/gen2/internal.(*StatshouseMetricBytes).ReadJSONGeneral",
	} {
		fn := need(c, rule, name)
		if fn == nil {
			continue
		}
		got := setFields(fn, 0, memo)
		var missing []string
		for f := range want {
			if !got[f] {
				missing = append(missing, f)
			}
		}
		sort.Strings(missing)
		c.Require(len(missing) == 0, rule, name+"/fields", fn.Pos(), fmt.Sprintf("can set %v", core.SortedKeys(want)),
			"decoder never sets "+strings.Join(missing, ", ")+" although the TL reader does: the same batch decodes to different metrics depending on the wire format")
	}
}

// ---- R4 ---------------------------------------------------------------------------------

// prefixTest recognises `len(pkt) >= k && string(pkt[0:k]) == "const"` (as the phi the
// short-circuit lowers to, or the bare comparison) on the packet parameter.
func prefixTest(cond ssa.Value, pkt ssa.Value) (string, bool) {
	eq := cond
	if phi, ok := cond.(*ssa.Phi); ok {
		eq = nil
		for _, e := range phi.Edges {
			if core.ConstBool(e, false) {
				continue
			}
			if eq != nil {
				return "", false
			}
			eq = e
		}
	}
	b, ok := eq.(*ssa.BinOp)
	if !ok || b.Op != token.EQL {
		return "", false
	}
	k, isC := b.Y.(*ssa.Const)
	conv, isConv := b.X.(*ssa.Convert)
	if !isC || !isConv || k.Value == nil || k.Value.Kind() != constant.String {
		return "", false
	}
	sl, isSl := conv.X.(*ssa.Slice)
	if !isSl || sl.X != pkt {
		return "", false
	}
	s := constant.StringVal(k.Value)
	lo, loOK := int64(0), sl.Low == nil
	if !loOK {
		lo, loOK = constInt64(sl.Low)
	}
	hi, hiOK := constInt64(sl.High)
	if !loOK || !hiOK || lo != 0 || hi != int64(len(s)) || len(s) == 0 {
		return "", false
	}
	return s, true
}

func c13Detect(c *core.Check) {
	const rule = "C13-R4"
	c.Rule(rule, "K5 detection table + K1", 6,
		"in parser.parse each decoder call is dominated by its own detection test (TL: magic prefix; JSON: '{'; msgpack: msgpackLooksLikeMap(pkt); protobuf: none of them) and by a non-empty packet; the TL magic is the little-endian TL tag; constant prefixes have distinct first bytes, none a MessagePack map header (0x80-0x8f, 0xde, 0xdf)")
	fn := need(c, rule, fnParse)
	if fn == nil || len(fn.Params) < 4 {
		return
	}
	pkt := ssa.Value(fn.Params[3])
	// TL tag from the generated code
	var tlMagic string
	if tagFn := need(c, rule, "internal/data_model/gen2/internal.(StatshouseAddMetricsBatchBytes).TLTag"); tagFn != nil {
		if rets := realReturns(tagFn); len(rets) == 1 {
			if k, ok := constInt64(rets[0].Results[0]); ok {
				tlMagic = string([]byte{byte(k), byte(k >> 8), byte(k >> 16), byte(k >> 24)})
			}
		}
	}
	if tlMagic == "" {
		c.Undecided(rule, "tl-tag", fn.Pos(), "cannot read the TL tag constant of statshouse.addMetricsBatch from the generated TLTag()")
		return
	}
	// all constant prefixes tested in the function
	prefixes := map[string]bool{}
	for _, b := range fn.Blocks {
		if len(b.Instrs) == 0 {
			continue
		}
		if i, ok := b.Instrs[len(b.Instrs)-1].(*ssa.If); ok {
			if s, isP := prefixTest(i.Cond, pkt); isP {
				prefixes[s] = true
			}
		}
	}
	first := map[byte]string{}
	disjoint, why := true, ""
	for _, p := range core.SortedKeys(prefixes) {
		b0 := p[0]
		if other, dup := first[b0]; dup {
			disjoint, why = false, fmt.Sprintf("prefixes %q and %q start with the same byte", other, p)
		}
		first[b0] = p
		if (b0 >= 0x80 && b0 <= 0x8f) || b0 == 0xde || b0 == 0xdf {
			disjoint, why = false, fmt.Sprintf("prefix %q starts with a MessagePack map header byte", p)
		}
	}
	c.Require(disjoint && len(prefixes) >= 2, rule, fnParse+"/prefixes-disjoint", fn.Pos(), fmt.Sprintf("constant prefixes %q are mutually exclusive and exclusive with MessagePack maps", core.SortedKeys(prefixes)),
		"format detection is ambiguous: "+why+" (the outcome would depend on the order of the tests)")
	c.Require(prefixes[tlMagic], rule, fnParse+"/tl-magic", fn.Pos(), "TL magic prefix equals the little-endian tag of statshouse.addMetricsBatch",
		fmt.Sprintf("no detection test uses the little-endian TL tag %q of statshouse.addMetricsBatch (prefixes tested: %q): TL batches are not recognised", tlMagic, core.SortedKeys(prefixes)))

	holdsPrefix := func(b *ssa.BasicBlock, want string, pol bool) bool {
		_, ok := litOn(b, func(l core.Lit) bool {
			s, isP := prefixTest(l.Cond, pkt)
			return isP && s == want && l.Pol == pol
		})
		return ok
	}
	holdsLooksLikeMap := func(b *ssa.BasicBlock, pol bool) bool {
		_, ok := litOn(b, func(l core.Lit) bool {
			call, isCall := l.Cond.(*ssa.Call)
			return isCall && l.Pol == pol && core.CalleeName(&call.Call) == "internal/receiver.msgpackLooksLikeMap" && call.Call.Args[0] == pkt
		})
		return ok
	}
	nonEmpty := func(b *ssa.BasicBlock) bool {
		_, ok := litOn(b, func(l core.Lit) bool {
			if l.Pol || l.Op != token.EQL {
				return false
			}
			k, isC := constInt64(l.Y)
			call, isCall := l.X.(*ssa.Call)
			return isC && k == 0 && isCall && core.CalleeName(&call.Call) == "builtin len" && call.Call.Args[0] == pkt
		})
		return ok
	}
	type decoder struct {
		callee string
		guard  func(b *ssa.BasicBlock) (bool, string)
	}
	decoders := []decoder{
		{"internal/data_model/gen2/internal.(*StatshouseAddMetricsBatchBytes).ReadTL1Boxed", func(b *ssa.BasicBlock) (bool, string) {
			return holdsPrefix(b, tlMagic, true), "TL magic prefix"
		}},
		{"internal/data_model/gen2/internal.(*StatshouseAddMetricsBatchBytes).UnmarshalJSON", func(b *ssa.BasicBlock) (bool, string) {
			return holdsPrefix(b, "{", true), "prefix '{'"
		}},
		{"internal/receiver.msgpackUnmarshalStatshouseAddMetricBatch", func(b *ssa.BasicBlock) (bool, string) {
			return holdsLooksLikeMap(b, true), "msgpackLooksLikeMap(pkt)"
		}},
		{"internal/receiver.protobufUnmarshalStatshouseAddMetricBatch", func(b *ssa.BasicBlock) (bool, string) {
			ok := holdsLooksLikeMap(b, false)
			for p := range prefixes {
				ok = ok && holdsPrefix(b, p, false)
			}
			return ok, "none of the other detection tests (default)"
		}},
	}
	for _, d := range decoders {
		sites := core.CallsTo(fn, d.callee)
		if len(sites) == 0 {
			c.Fail(rule, fnParse+"/"+d.callee, fn.Pos(), "parser.parse never calls "+d.callee+": the format is not decoded any more")
			continue
		}
		keys := core.Ordinals(sites)
		for i, s := range sites {
			c.CallSites++
			ok, what := d.guard(s.Block())
			c.Require(ok && nonEmpty(s.Block()), rule, keys[i], s.Pos(), "decoder runs under: "+what+", packet not empty",
				"decoder is not dominated by its detection test ("+what+" and a non-empty packet): packets of another format are fed to it; facts: "+core.FactsString(s.Block()))
		}
	}
	// every batch handed to the handler comes from one of the enumerated decoders
	for _, s := range core.CallsTo(fn, fnHandleBatch) {
		var dec *ssa.Call
		switch x := s.Arg(5).(type) {
		case *ssa.Extract:
			dec, _ = x.Tuple.(*ssa.Call)
		case *ssa.Call:
			dec = x
		}
		known := false
		if dec != nil {
			for _, d := range decoders {
				if core.CalleeName(&dec.Call) == d.callee {
					known = true
				}
			}
		}
		if !known {
			c.Fail(rule, core.Ordinals([]core.Site{s})[0]+"/decoder", s.Pos(), "handleMetricsBatch receives the result of a decoder that is not in the detection table")
		}
	}
}

// ---- R5 ---------------------------------------------------------------------------------

func c13Handler(c *core.Check) {
	const rule = "C13-R5"
	c.Rule(rule, "K1", 4, "in handleMetricsBatch: HandleMetrics only under parseErr == nil; `return true` only under parseErr == nil; HandleParseError only under parseErr != nil and with the function's own packet and error parameters")
	fn := need(c, rule, fnHandleBatch)
	if fn == nil || len(fn.Params) < 6 {
		return
	}
	pkt, perr := ssa.Value(fn.Params[4]), ssa.Value(fn.Params[5])
	errIs := func(b *ssa.BasicBlock, isNil bool) bool {
		_, ok := litOn(b, func(l core.Lit) bool {
			return l.Op == token.EQL && l.X == perr && isNilConst(l.Y) && l.Pol == isNil
		})
		return ok
	}
	hm := core.CallsTo(fn, "invoke internal/receiver.Handler.HandleMetrics")
	if len(hm) == 0 {
		c.Fail(rule, fnHandleBatch+"/HandleMetrics", fn.Pos(), "handleMetricsBatch never calls HandleMetrics")
	}
	for i, s := range hm {
		c.CallSites++
		c.Require(errIs(s.Block(), true), rule, fmt.Sprintf("%s/HandleMetrics#%d", fnHandleBatch, i+1), s.Pos(), "metrics handled only after a successful parse",
			"HandleMetrics is reachable with parseErr != nil: metrics of a batch that failed to parse are ingested; facts: "+core.FactsString(s.Block()))
	}
	pe := core.CallsTo(fn, "invoke internal/receiver.Handler.HandleParseError")
	if len(pe) == 0 {
		c.Fail(rule, fnHandleBatch+"/HandleParseError", fn.Pos(), "handleMetricsBatch never reports a parse error")
	}
	for i, s := range pe {
		c.CallSites++
		ok := errIs(s.Block(), false) && s.Arg(1) == pkt && s.Arg(2) == perr
		c.Require(ok, rule, fmt.Sprintf("%s/HandleParseError#%d", fnHandleBatch, i+1), s.Pos(), "parse error reported with the packet and error given",
			"HandleParseError is not called under parseErr != nil with the function's packet and error parameters")
	}
	n := 0
	for _, r := range realReturns(fn) {
		n++
		v := core.ReturnedValues(r)[0]
		key := fmt.Sprintf("%s/return#%d", fnHandleBatch, n)
		switch {
		case core.ConstBool(v, true):
			c.Require(errIs(r.Block(), true), rule, key, r.Pos(), "success only without parse error", "handleMetricsBatch reports success although parseErr may be non-nil")
		case core.ConstBool(v, false):
			c.Require(errIs(r.Block(), false), rule, key, r.Pos(), "failure only with parse error", "handleMetricsBatch reports failure although parseErr is nil (parse would return a nil error for a failed batch)")
		default:
			c.Fail(rule, key, r.Pos(), "non-constant result "+core.Expr(v)+": success must be tied to parseErr == nil")
		}
	}
}
