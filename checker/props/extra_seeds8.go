package props

import (
	"fmt"
	"go/constant"
	"go/token"
	"go/types"
	"strings"

	"golang.org/x/tools/go/ssa"

	"shverif/core"
)

// Eighth batch: rules for the round-g seeds that the tables did not report
// (C03-g, C09-g, C13-g, C18-g, C28-g, C31-g); see DESIGN.md §11.

func init() {
	Extend("C03", runC03Extra8,
		Mutant{Name: "seed-C03g-centroid-skipped-count-kept", File: "internal/vkgo/kittenhouseclient/rowbinary/rowbinary.go", Rule: "C03-R8",
			Old: "	for _, centroid := range centroids {\n", New: "	for _, centroid := range centroids {\n		if float32(centroid.Weight*sampleFactor) == 0 {\n			continue\n		}\n"},
		Mutant{Name: "array-item-skipped-count-kept", File: "internal/vkgo/kittenhouseclient/rowbinary/rowbinary.go", Rule: "C03-R8",
			Old: "	for _, v := range in {\n		buf = onEachItem(buf, v)", New: "	for i, v := range in {\n		if i > 1000 {\n			break\n		}\n		buf = onEachItem(buf, v)"})
	Extend("C09", runC09Extra8,
		Mutant{Name: "seed-C09g-startup-files-ordered-by-size-first", File: "internal/agent/disk_cache.go", Rule: "C09-R9",
			Old: "		return d.waitingFilesTail[i].name < d.waitingFilesTail[j].name", New: "		if d.waitingFilesTail[i].size != d.waitingFilesTail[j].size {\n			return d.waitingFilesTail[i].size > d.waitingFilesTail[j].size\n		}\n		return d.waitingFilesTail[i].name < d.waitingFilesTail[j].name"})
	Extend("C13", runC13Extra8,
		Mutant{Name: "seed-C13g-protobuf-string-aliases-packet", File: "internal/receiver/protobuf.go", Rule: "C13-R9",
			Old: "	*result = append((*result)[:0], data...)", New: "	*result = data"})
	Extend("C18", runC18Extra8,
		Mutant{Name: "seed-C18g-skip-reads-past-the-resume-position", File: "internal/vkgo/binlog/fsbinlog/reader.go", Rule: "C18-R11",
			Old: "		n, err := r.Read(buff[:to])", New: "		_ = to\n		n, err := r.Read(buff)"})
	Extend("C28", runC28Extra8,
		Mutant{Name: "seed-C28g-range-selector-prints-offset-list-twice", File: "internal/promql/parser/printer.go", Rule: "C28-R9",
			Old: "	vecSelector.OriginalOffsetEx = nil\n", New: ""},
		Mutant{Name: "range-selector-prints-at-modifier-twice", File: "internal/promql/parser/printer.go", Rule: "C28-R9",
			Old: "	vecSelector.Timestamp = nil\n", New: ""})
	Extend("C31", runC31Extra8,
		Mutant{Name: "seed-C31g-drop-counter-read-then-reset", File: "internal/balancer/egress.go", Rule: "C31-R9",
			Old: "	n := s.wouldBlockBytes.Swap(0)\n	if n == 0 {\n		return scratch\n	}", New: "	n := s.wouldBlockBytes.Load()\n	if n == 0 {\n		return scratch\n	}\n	s.wouldBlockBytes.Store(0)"})
}

// C03-R8: count-prefixed RowBinary sequences write one element per iteration.
func runC03Extra8(c *core.Check) {
	c.Decides += " R8 in the RowBinary encoders that write an element count followed by the elements (AppendCentroids, AppendArray, AppendMap) every iteration of the element loop writes the same, non-zero number of pieces and the loop is left only when the collection is exhausted (no skipped element, no early exit: the count announced in front must equal the number of elements that follow, otherwise every later column of the insert body is shifted)."
	const rule = "C03-R8"
	c.Rule(rule, "K4 loop shape", 3, "in rowbinary.AppendCentroids / AppendArray / AppendMap: per-iteration count of element writes is constant and >= 1 at every back edge; the only loop exit is the header")
	const pkg = "internal/vkgo/kittenhouseclient/rowbinary"
	n := 0
	for _, fn := range c.Prog.FuncsIn(pkg) {
		name := core.FuncName(fn)
		base := name[strings.LastIndex(name, ".")+1:]
		if i := strings.Index(base, "["); i >= 0 {
			base = base[:i]
		}
		if base != "AppendCentroids" && base != "AppendArray" && base != "AppendMap" {
			continue
		}
		if len(fn.Blocks) == 0 {
			continue
		}
		loops := core.NatLoops(fn)
		if len(loops) == 0 {
			c.Undecided(rule, name+"/loop", fn.Pos(), "no element loop found")
			continue
		}
		for li, l := range loops {
			n++
			isWrite := func(in ssa.Instruction) bool {
				call, ok := in.(*ssa.Call)
				if !ok {
					return false
				}
				cn := core.CalleeName(&call.Call)
				return cn == "builtin append" || cn == "dynamic" || strings.HasPrefix(cn, pkg+".Append")
			}
			edges, err := l.IterationCounts(isWrite)
			if err != nil {
				c.Undecided(rule, fmt.Sprintf("%s/loop#%d", name, li+1), l.Header.Instrs[0].Pos(), "element loop cannot be counted: "+err.Error())
				continue
			}
			okAll := true
			why := ""
			var first *core.Range
			for _, e := range edges {
				if e.Back {
					if e.Count.Min != e.Count.Max || e.Count.Min < 1 {
						okAll, why = false, fmt.Sprintf("an iteration can write %s pieces", e.Count)
					}
					if first == nil {
						r := e.Count
						first = &r
					} else if *first != e.Count {
						okAll, why = false, fmt.Sprintf("iterations write %s or %s pieces", *first, e.Count)
					}
				} else if e.From != l.Header {
					okAll, why = false, "the loop is left from inside its body"
				}
			}
			pos := fn.Pos()
			if len(l.Header.Instrs) > 0 {
				pos = l.Header.Instrs[len(l.Header.Instrs)-1].Pos()
			}
			c.Require(okAll, rule, fmt.Sprintf("%s/loop#%d", base, li+1), pos, "one element written per iteration",
				name+": "+why+" although the element count was written in front of the loop from the size of the collection: the sequence announces more elements than follow, ClickHouse reads the next column's bytes as elements (the whole insert body is shifted or rejected)")
		}
	}
	if n < 3 {
		c.Undecided(rule, pkg+"/count-prefixed-encoders", 0, fmt.Sprintf("expected the loops of AppendCentroids, AppendArray and AppendMap, found %d", n))
	}
}

// C09-R9: files found at start are ordered by name only.
func runC09Extra8(c *core.Check) {
	c.Decides += " R9 the files found at start are queued for re-reading in the order of their names alone (names carry the creation time in write order; sizes and modification times change when seconds are erased or appended, so they must not take part in the order)."
	const rule = "C09-R9"
	c.Rule(rule, "K8 comparator shape", 1, "every value returned by the sort comparator of makeDiscCacheShard is a comparison of the name fields of two waitingFile elements")
	fn := need(c, rule, "internal/agent.makeDiscCacheShard")
	if fn == nil {
		return
	}
	n := 0
	for _, s := range core.CallsTo(fn, "sort.Slice", "sort.SliceStable", "slices.SortFunc", "slices.SortStableFunc") {
		if !strings.HasSuffix(core.Expr(s.Arg(0)), ".waitingFilesTail") && !strings.Contains(core.Expr(s.Arg(0)), "waitingFilesTail") {
			continue
		}
		var less *ssa.Function
		switch f := s.Arg(1).(type) {
		case *ssa.MakeClosure:
			less, _ = f.Fn.(*ssa.Function)
		case *ssa.Function:
			less = f
		}
		if less == nil {
			c.Undecided(rule, "internal/agent.makeDiscCacheShard/sort", s.Pos(), "the comparator is not a function literal")
			continue
		}
		for ri, ret := range core.Returns(less) {
			n++
			ok := false
			if len(ret.Results) == 1 {
				if b, isB := ret.Results[0].(*ssa.BinOp); isB && (b.Op == token.LSS || b.Op == token.GTR) {
					ok = c09IsNameField(b.X) && c09IsNameField(b.Y)
				}
			}
			res := "?"
			if len(ret.Results) > 0 {
				res = core.Expr(ret.Results[0])
			}
			c.Require(ok, rule, fmt.Sprintf("internal/agent.makeDiscCacheShard/sort/return#%d", ri+1), ret.Pos(), "files ordered by name",
				"the start-up order of cache files is decided by "+res+", not by the comparison of their names: erasing a second rewrites the older file (its size/mtime changes), so after a restart seconds are re-read out of write order")
		}
	}
	if n == 0 {
		c.Undecided(rule, "internal/agent.makeDiscCacheShard/sort", fn.Pos(), "no sort of waitingFilesTail found")
	}
}

func c09IsNameField(v ssa.Value) bool {
	ld, ok := v.(*ssa.UnOp)
	if !ok || ld.Op != token.MUL {
		if f, isF := v.(*ssa.Field); isF {
			return core.IsField(f, "internal/agent.waitingFile", "name")
		}
		return false
	}
	return core.IsField(ld.X, "internal/agent.waitingFile", "name")
}

// C13-R9: protobuf decoders copy bytes out of the packet.
func runC13Extra8(c *core.Check) {
	c.Decides += " R9 the protobuf decoders never store a slice of the packet into the decoded batch: every []byte stored through a result pointer is the result of append (a copy) — the batch object and the read buffer are both reused, so an aliased name or tag would be overwritten by the next packet and, when the next packet is decoded in place into the old backing array, would overwrite that packet."
	const rule = "C13-R9"
	c.Rule(rule, "K9 ownership", 1, "in internal/receiver proto* decoders every store of a []byte through a pointer parameter stores a value rooted in builtin append, never one rooted in the input buffer or in protowire.Consume*")
	n := 0
	for _, fn := range c.Prog.FuncsIn("internal/receiver") {
		name := core.FuncName(fn)
		short := name[strings.LastIndex(name, ".")+1:]
		if !strings.HasPrefix(short, "protoRead") && !strings.HasPrefix(short, "protobufUnmarshal") {
			continue
		}
		for _, b := range fn.Blocks {
			for _, in := range b.Instrs {
				st, ok := in.(*ssa.Store)
				if !ok {
					continue
				}
				sl, isSl := st.Val.Type().Underlying().(*types.Slice)
				if !isSl {
					continue
				}
				if bt, isB := sl.Elem().Underlying().(*types.Basic); !isB || bt.Kind() != types.Uint8 {
					continue
				}
				if _, viaParam := c13RootParam(st.Addr); !viaParam {
					continue
				}
				n++
				root := c13SliceRoot(st.Val, map[ssa.Value]bool{})
				c.Require(root == "append" || root == "fresh", rule, fmt.Sprintf("%s/store-bytes#%d", name, n), st.Pos(), "decoded bytes are a copy",
					name+" stores "+core.Expr(st.Val)+" (rooted in "+root+") into the caller's object: the decoded string shares memory with the packet buffer, which the receiver reuses for the next packet")
			}
		}
	}
	if n == 0 {
		c.Undecided(rule, "internal/receiver/proto-decoders", 0, "no store of decoded bytes found")
	}
}

func c13RootParam(v ssa.Value) (*ssa.Parameter, bool) {
	for i := 0; i < 8; i++ {
		switch x := v.(type) {
		case *ssa.Parameter:
			return x, true
		case *ssa.FieldAddr:
			v = x.X
		case *ssa.IndexAddr:
			v = x.X
		case *ssa.UnOp:
			v = x.X
		default:
			return nil, false
		}
	}
	return nil, false
}

// c13SliceRoot classifies where the memory of a byte slice comes from.
func c13SliceRoot(v ssa.Value, seen map[ssa.Value]bool) string {
	if seen[v] {
		return "append"
	}
	seen[v] = true
	switch x := v.(type) {
	case *ssa.Slice:
		return c13SliceRoot(x.X, seen)
	case *ssa.Call:
		cn := core.CalleeName(&x.Call)
		if cn == "builtin append" {
			return "append"
		}
		return cn
	case *ssa.Extract:
		return c13SliceRoot(x.Tuple, seen)
	case *ssa.MakeSlice, *ssa.Alloc:
		return "fresh"
	case *ssa.Const:
		return "fresh"
	case *ssa.Phi:
		worst := "append"
		for _, e := range x.Edges {
			if r := c13SliceRoot(e, seen); r != "append" && r != "fresh" {
				worst = r
			}
		}
		return worst
	case *ssa.Parameter:
		return "parameter " + x.Name()
	case *ssa.UnOp:
		// the object's own memory (re-slicing a field of the caller's object, e.g. m.Key = m.Key[:0])
		if p, ok := c13RootParam(x.X); ok {
			if _, isPtr := p.Type().Underlying().(*types.Pointer); isPtr {
				return "fresh"
			}
		}
		return "load " + core.Expr(x.X)
	}
	return core.Expr(v)
}

// C18-R11: the skip reader never reads more than what is left to skip.
func runC18Extra8(c *core.Check) {
	c.Decides += " R11 readToAndUpdateCrc (which moves the reader to a resume position inside a chunk) hands every Read a buffer cut to the number of bytes still to skip (a value of the loop's remaining-bytes counter), so it cannot consume bytes beyond the resume position."
	const rule = "C18-R11"
	c.Rule(rule, "K7 provenance", 1, "every io.Reader.Read in readToAndUpdateCrc gets a slice whose upper bound derives from the loop-carried remaining count")
	fn := need(c, rule, "internal/vkgo/binlog/fsbinlog.readToAndUpdateCrc")
	if fn == nil || len(fn.Params) < 2 {
		return
	}
	// the remaining-bytes counter: a phi with an edge that is the parameter
	var remaining []*ssa.Phi
	for _, b := range fn.Blocks {
		for _, phi := range core.Phis(b) {
			for _, e := range phi.Edges {
				if e == ssa.Value(fn.Params[1]) {
					remaining = append(remaining, phi)
				}
			}
		}
	}
	n := 0
	for _, s := range core.CallsTo(fn, "invoke io.Reader.Read") {
		n++
		ok := false
		if sl, isSl := s.Arg(1).(*ssa.Slice); isSl && sl.High != nil {
			for _, phi := range remaining {
				if c18DerivesArgs(sl.High, phi, map[ssa.Value]bool{}) {
					ok = true
				}
			}
		}
		c.Require(ok, rule, fmt.Sprintf("internal/vkgo/binlog/fsbinlog.readToAndUpdateCrc/Read#%d", n), s.Pos(), "read bounded by the bytes left to skip",
			"Read is given "+core.Expr(s.Arg(1))+", whose length is not bounded by the remaining distance: the last read of a skip longer than the buffer consumes bytes behind the resume position, the crc no longer matches the snapshot meta and replay continues in the middle of an event")
	}
	if n == 0 {
		c.Undecided(rule, "internal/vkgo/binlog/fsbinlog.readToAndUpdateCrc/Read", fn.Pos(), "no Read call found")
	}
}

// c18DerivesArgs is core.Derives that also looks through the arguments of builtin min
// and conversions.
func c18DerivesArgs(v, src ssa.Value, seen map[ssa.Value]bool) bool {
	if v == src {
		return true
	}
	if v == nil || seen[v] {
		return false
	}
	seen[v] = true
	switch x := v.(type) {
	case *ssa.Call:
		if core.CalleeName(&x.Call) == "builtin min" {
			for _, a := range x.Call.Args {
				if c18DerivesArgs(a, src, seen) {
					return true
				}
			}
		}
	case *ssa.Convert:
		return c18DerivesArgs(x.X, src, seen)
	case *ssa.ChangeType:
		return c18DerivesArgs(x.X, src, seen)
	}
	return false
}

// C28-R9: what the range selector prints itself is cleared in the copy it delegates to.
func runC28Extra8(c *core.Check) {
	c.Decides += " R9 MatrixSelector.String clears, in the copy of the vector selector whose String() it calls, every field it has read from that copy to print the modifiers itself (offset, offset list, @ timestamp, start()/end()), so no modifier is printed twice (a modifier in front of the range does not parse)."
	const rule = "C28-R9"
	c.Rule(rule, "K6 must-pass-through", 4, "every VectorSelector field loaded from the local copy before the call of (*VectorSelector).String is stored a zero constant on the way to that call")
	fn := need(c, rule, "internal/promql/parser.(*MatrixSelector).String")
	if fn == nil {
		return
	}
	sites := core.CallsTo(fn, "internal/promql/parser.(*VectorSelector).String")
	if len(sites) == 0 {
		c.Undecided(rule, "internal/promql/parser.(*MatrixSelector).String/inner-String", fn.Pos(), "no call of (*VectorSelector).String found")
		return
	}
	n := 0
	for _, s := range sites {
		cp, ok := s.Arg(0).(*ssa.Alloc)
		if !ok {
			c.Undecided(rule, "internal/promql/parser.(*MatrixSelector).String/copy", s.Pos(), "the inner String() is not called on a local copy")
			continue
		}
		read := map[int]bool{}
		zeroed := map[int]bool{}
		names := map[int]string{}
		for _, ref := range *cp.Referrers() {
			fa, isFA := ref.(*ssa.FieldAddr)
			if !isFA {
				continue
			}
			names[fa.Field] = core.Expr(fa)
			for _, use := range *fa.Referrers() {
				switch u := use.(type) {
				case *ssa.UnOp:
					if u.Op == token.MUL && !core.Dominates(s.Instr, u) { // read on some way to the call (not behind it)
						read[fa.Field] = true
					}
				case *ssa.Store:
					if u.Addr != ssa.Value(fa) || !core.Dominates(u, s.Instr) {
						continue
					}
					k, isK := u.Val.(*ssa.Const)
					isZero := isK && (k.IsNil() || (k.Value != nil && (k.Value.Kind() == constant.Int || k.Value.Kind() == constant.Float) && constant.Sign(k.Value) == 0))
					// a later non-zero store before the call undoes the clearing
					if isZero {
						zeroed[fa.Field] = true
					} else {
						zeroed[fa.Field] = false
					}
				}
			}
		}
		for f := range read {
			n++
			nm := names[f]
			if i := strings.LastIndex(nm, "."); i >= 0 {
				nm = nm[i+1:]
			}
			c.Require(zeroed[f], rule, "internal/promql/parser.(*MatrixSelector).String/cleared:"+nm, s.Pos(), "modifier printed by the range selector is cleared in the copy",
				"MatrixSelector.String reads "+nm+" of the selector copy to print the modifier behind the range, but does not clear it before calling the copy's String(): the modifier is printed twice, the first time in front of the range, which the parser rejects")
		}
	}
	if n < 4 {
		c.Undecided(rule, "internal/promql/parser.(*MatrixSelector).String/modifiers", fn.Pos(), fmt.Sprintf("expected 4 modifier fields read from the copy, found %d", n))
	}
}

// C31-R9: the drop counter is drained atomically.
func runC31Extra8(c *core.Check) {
	c.Decides += " R9 the counter of dropped bytes (tcpSender.wouldBlockBytes, increased concurrently by every accepting goroutine) is reset only by the atomic exchange whose result is the number reported: no Store/CompareAndSwap on it (a read followed by a reset loses the drops counted in between, they are never reported upstream)."
	const rule = "C31-R9"
	c.Rule(rule, "K2 who-may-write", 2, "every method called on tcpSender.wouldBlockBytes is Add, Swap or Load; the value handed to encodeClientWriteErrPacket derives from Swap's result")
	n, swaps := 0, 0
	for _, fn := range c.Prog.FuncsIn("internal/balancer") {
		for _, s := range core.Calls(fn) {
			cn := core.CalleeName(s.Common())
			if !strings.HasPrefix(cn, "sync/atomic.(*Int64).") || len(s.Common().Args) == 0 {
				continue
			}
			if !core.IsField(s.Common().Args[0], "internal/balancer.tcpSender", "wouldBlockBytes") {
				continue
			}
			n++
			m := cn[strings.LastIndex(cn, ".")+1:]
			if m == "Swap" {
				swaps++
			}
			c.Require(m == "Add" || m == "Swap" || m == "Load", rule, fmt.Sprintf("%s/wouldBlockBytes.%s", core.FuncName(fn), m), s.Pos(), "drop counter changed only by Add / Swap",
				core.FuncName(fn)+" calls "+m+" on the drop counter: a reset that is not the atomic exchange which also reads the value discards the bytes other goroutines added between the read and the reset, those drops are never reported upstream")
		}
	}
	if fn := need(c, rule, "internal/balancer.(*tcpSender).reportWouldBlockIfAny"); fn != nil {
		for _, s := range core.CallsTo(fn, "internal/balancer.encodeClientWriteErrPacket") {
			n++
			src := core.Expr(s.Arg(0))
			c.Require(strings.Contains(src, "sync/atomic.(*Int64).Swap("), rule, "internal/balancer.(*tcpSender).reportWouldBlockIfAny/reported-value", s.Pos(), "reported value is what the exchange took out",
				"the number of dropped bytes reported upstream is "+src+", not the result of the atomic exchange that resets the counter")
		}
	}
	if n < 2 || swaps == 0 {
		c.Undecided(rule, "internal/balancer/wouldBlockBytes", 0, fmt.Sprintf("expected Add and Swap on tcpSender.wouldBlockBytes, found %d call(s), %d Swap", n, swaps))
	}
}

// ---- C13-R10/R11 (F27, F28): protobuf wire types and error propagation ----------------

func init() {
	Extend("C13", runC13Extra8b,
		Mutant{Name: "revert-F27-non-packed-unique-read-from-fixed64-field", File: "internal/receiver/protobuf.go", Rule: "C13-R10",
			Old: "		if f == 6 && t == 0 { // non-packed int64 is a varint", New: "		if f == 6 && t == 1 {"},
		Mutant{Name: "non-packed-value-read-from-varint-field", File: "internal/receiver/protobuf.go", Rule: "C13-R10",
			Old: "		if f == 5 && t == 1 {", New: "		if f == 5 && t == 0 {"},
		Mutant{Name: "revert-F28-malformed-packed-varint-accepted", File: "internal/receiver/protobuf.go", Rule: "C13-R11",
			Old: "		if data, err = protoReadInt64(data, &val); err != nil {\n			return buf, err", New: "		if data, err = protoReadInt64(data, &val); err != nil {\n			return buf, nil"},
		Mutant{Name: "malformed-tag-accepted", File: "internal/receiver/protobuf.go", Rule: "C13-R11",
			Old: "	f, t, n := protowire.ConsumeTag(buf)\n	if n < 0 {\n		return 0, 0, buf, protobufError(n)", New: "	f, t, n := protowire.ConsumeTag(buf)\n	if n < 0 {\n		return 0, 0, buf, nil"})
}

var c13WireClass = map[string]int64{
	"google.golang.org/protobuf/encoding/protowire.ConsumeVarint":  0,
	"google.golang.org/protobuf/encoding/protowire.ConsumeFixed64": 1,
	"google.golang.org/protobuf/encoding/protowire.ConsumeBytes":   2,
	"google.golang.org/protobuf/encoding/protowire.ConsumeFixed32": 5,
}

func runC13Extra8b(c *core.Check) {
	c.Decides += " R10 in the protobuf decoders a field reader is called only under the wire type it consumes (varint reader under type 0, fixed64 reader under type 1, length-delimited readers under type 2): a valid encoding is neither skipped nor read with the wrong reader; R11 no protobuf reader returns a nil error on a path on which protowire reported a negative length or an inner reader returned an error (malformed input is a parse error, never a batch of garbage)."
	const r10 = "C13-R10"
	c.Rule(r10, "K1 guard dominance", 8, "every call of a protoRead* reader from a field loop is dominated by (wire type == class of the protowire.Consume* the reader uses)")
	var decoders []*ssa.Function
	class := map[string]int64{}
	for _, fn := range c.Prog.FuncsIn("internal/receiver") {
		name := core.FuncName(fn)
		short := name[strings.LastIndex(name, ".")+1:]
		if !strings.HasPrefix(short, "protoRead") && !strings.HasPrefix(short, "protobufUnmarshal") && short != "protoSkipField" {
			continue
		}
		decoders = append(decoders, fn)
		if !strings.HasPrefix(short, "protoRead") || short == "protoReadTag" {
			continue
		}
		kinds := map[int64]bool{}
		for _, s := range core.Calls(fn) {
			if k, ok := c13WireClass[core.CalleeName(s.Common())]; ok {
				kinds[k] = true
			}
		}
		if len(kinds) == 1 {
			for k := range kinds {
				class[name] = k
			}
		}
	}
	n := 0
	for _, fn := range decoders {
		name := core.FuncName(fn)
		if !strings.Contains(name, ".protobufUnmarshal") {
			continue
		}
		ord := map[string]int{}
		for _, s := range core.Calls(fn) {
			cn := core.CalleeName(s.Common())
			want, isReader := class[cn]
			if !isReader {
				continue
			}
			// the wire type tested on the way: a fact (protoReadTag(...)#1 == K)
			got, found := int64(-1), false
			for _, g := range core.Facts(s.Block()) {
				if len(g.Alts) != 1 {
					continue
				}
				l := g.Alts[0]
				if !l.Pol || l.Op != token.EQL {
					continue
				}
				ex, isEx := l.X.(*ssa.Extract)
				if !isEx || ex.Index != 1 {
					continue
				}
				call, isCall := ex.Tuple.(*ssa.Call)
				if !isCall || core.CalleeName(&call.Call) != "internal/receiver.protoReadTag" {
					continue
				}
				if k, isK := l.Y.(*ssa.Const); isK && k.Value != nil && k.Value.Kind() == constant.Int {
					got, _ = constant.Int64Val(k.Value)
					found = true
					break
				}
			}
			if !found {
				continue // not inside a field loop case (e.g. a length-delimited sub-message read directly)
			}
			n++
			short := cn[strings.LastIndex(cn, ".")+1:]
			ord[short]++
			c.Require(got == want, r10, fmt.Sprintf("%s/%s#%d", name, short, ord[short]), s.Pos(), "reader called under its own wire type",
				fmt.Sprintf("%s is called under wire type %d, but it consumes wire type %d: the valid encoding of this field (wire type %d) falls through to the skip branch and is silently dropped, and a field of wire type %d is read with the wrong reader", short, got, want, want, got))
		}
	}
	if n == 0 {
		c.Undecided(r10, "internal/receiver/proto-field-loops", 0, "no reader call under a wire-type test found")
	}

	const r11 = "C13-R11"
	c.Rule(r11, "K1 error discipline", 11, "in protoRead*/protobufUnmarshal* no return with a nil error is reached under (n < 0) of protowire.Consume* or under (err != nil) of a reader")
	m := 0
	for _, fn := range decoders {
		name := core.FuncName(fn)
		for ri, ret := range core.Returns(fn) {
			if len(ret.Results) == 0 {
				continue
			}
			last := ret.Results[len(ret.Results)-1]
			if !types.Identical(last.Type(), types.Universe.Lookup("error").Type()) {
				continue
			}
			k, isK := last.(*ssa.Const)
			if !isK || !k.IsNil() {
				continue
			}
			m++
			bad := ""
			for _, g := range core.Facts(ret.Block()) {
				if len(g.Alts) != 1 {
					continue
				}
				l := g.Alts[0]
				switch {
				case l.Op == token.EQL && !l.Pol:
					if yk, ok := l.Y.(*ssa.Const); ok && yk.IsNil() && types.Identical(l.X.Type(), types.Universe.Lookup("error").Type()) {
						bad = l.String()
					}
				case l.Op == token.LSS && l.Pol:
					if ex, ok := l.X.(*ssa.Extract); ok {
						if call, ok := ex.Tuple.(*ssa.Call); ok && strings.Contains(core.CalleeName(&call.Call), "protowire.Consume") && core.IsConstInt(l.Y, 0) {
							bad = l.String()
						}
					}
				}
			}
			c.Require(bad == "", r11, fmt.Sprintf("%s/nil-error-return#%d", name, ri+1), ret.Pos(), "success is not reported on a failure path",
				name+" returns a nil error under "+bad+": malformed input is accepted, the values decoded so far (and whatever the caller makes of the un-advanced buffer) become a batch instead of a parse error")
		}
	}
	if m == 0 {
		c.Undecided(r11, "internal/receiver/proto-readers", 0, "no successful return found in the protobuf readers")
	}
}

// ---- C03-R9 (F29): state decoders overwrite the reused element --------------------------

func init() {
	Extend("C03", runC03Extra8b,
		Mutant{Name: "revert-F29-string-arg-minmax-keeps-stale-fields", File: "internal/data_model/ch_arg_minmax_string.go", Rule: "C03-R9",
			Old: "	*arg = ArgMinMaxStringFloat32{} // columns are decoded into reused elements, empty state has no fields to read\n", New: ""},
		Mutant{Name: "revert-F29-int32-arg-minmax-keeps-stale-fields", File: "internal/data_model/ch_arg_minmax_int32.go", Rule: "C03-R9",
			Old: "	*arg = ArgMinMaxInt32Float32{} // columns are decoded into reused elements, empty state has no fields to read\n", New: ""})
}

func runC03Extra8b(c *core.Check) {
	c.Decides += " R9 the readers of the arg-min/arg-max aggregate states (ArgMinMaxStringFloat32.ReadFrom, ArgMinMaxInt32Float32.ReadFrom), which the API decodes into elements of a reused column slice, assign every field of the element on every path to a successful return (the encoding omits absent parts, so an element that is not cleared keeps the tag/value of the row decoded there before)."
	const rule = "C03-R9"
	c.Rule(rule, "K6 must-pass-through", 5, "for each field of the receiver struct: no path from entry to a nil-error return of ReadFrom avoids a store to that field (a store of the whole struct counts for all fields)")
	n := 0
	for _, name := range []string{"internal/data_model.(*ArgMinMaxStringFloat32).ReadFrom", "internal/data_model.(*ArgMinMaxInt32Float32).ReadFrom"} {
		fn := need(c, rule, name)
		if fn == nil || len(fn.Params) == 0 {
			continue
		}
		recv := fn.Params[0]
		pt, ok := recv.Type().Underlying().(*types.Pointer)
		if !ok {
			continue
		}
		st, ok := pt.Elem().Underlying().(*types.Struct)
		if !ok {
			continue
		}
		okReturn := func(in ssa.Instruction) bool {
			ret, isRet := in.(*ssa.Return)
			if !isRet || len(ret.Results) == 0 {
				return false
			}
			k, isK := ret.Results[len(ret.Results)-1].(*ssa.Const)
			return isK && k.IsNil()
		}
		for i := 0; i < st.NumFields(); i++ {
			fi := i
			n++
			stores := func(in ssa.Instruction) bool {
				s, isS := in.(*ssa.Store)
				if !isS {
					return false
				}
				if s.Addr == ssa.Value(recv) {
					return true // *arg = T{...}
				}
				fa, isFA := s.Addr.(*ssa.FieldAddr)
				return isFA && fa.X == ssa.Value(recv) && fa.Field == fi
			}
			p := core.ReachFromEntryWithout(fn, okReturn, stores)
			c.Require(p == nil, rule, fmt.Sprintf("%s/field:%s", name, st.Field(i).Name()), fn.Pos(), "field assigned on every successful path",
				name+" can return success without assigning "+st.Field(i).Name()+": the column decoders hand it elements of a reused slice, so the element keeps the "+st.Field(i).Name()+" of the row decoded at this index in the previous block (a host attribution that was never written)")
		}
	}
	if n < 5 {
		c.Undecided(rule, "internal/data_model/arg-minmax-readers", 0, fmt.Sprintf("expected 5 fields in the two reader structs, found %d", n))
	}
}

// ---- C18-R12 (F30): a tail slice `x[len(x)-k:]` needs k <= len(x) ----------------------

func init() {
	Extend("C18", runC18Extra8b,
		Mutant{Name: "second-unguarded-tail-slice-of-session-bytes", File: "internal/vkgo/binlog/fsbinlog/binlog.go", Rule: "C18-R12",
			Old: "					_, _ = hash.Write(b.buffEx.hashBuff2)\n", New: "					_, _ = hash.Write(b.buffEx.hashBuff2[len(b.buffEx.hashBuff2)-levRotateSize:])\n"})
}

func runC18Extra8b(c *core.Check) {
	c.Decides += " R12 in fsbinlog every tail slice x[len(x)-k:] is taken only where k <= len(x) was established (the bytes kept for the first chunk's hash are those of the current writer session only; after a restart late in the first chunk fewer than k are held and Append panics at the first rotation — known finding F30)."
	const rule = "C18-R12"
	c.Rule(rule, "K1 guard dominance", 1, "every Slice whose low bound is len(x)-k of the sliced value x is dominated by !(len(x) < k) / (k <= len(x)) or has a constant-foldable bound")
	n := 0
	for _, fn := range c.Prog.FuncsIn("internal/vkgo/binlog/fsbinlog") {
		name := core.FuncName(fn)
		ord := 0
		for _, b := range fn.Blocks {
			for _, in := range b.Instrs {
				sl, ok := in.(*ssa.Slice)
				if !ok || sl.Low == nil {
					continue
				}
				sub, ok := sl.Low.(*ssa.BinOp)
				if !ok || sub.Op != token.SUB {
					continue
				}
				lenCall, ok := sub.X.(*ssa.Call)
				if !ok || core.CalleeName(&lenCall.Call) != "builtin len" {
					continue
				}
				if core.Expr(lenCall.Call.Args[0]) != core.Expr(sl.X) {
					continue
				}
				n++
				ord++
				lx, k := core.Expr(sub.X), core.Expr(sub.Y)
				guarded := false
				for _, g := range core.Facts(b) {
					if len(g.Alts) != 1 {
						continue
					}
					l := g.Alts[0]
					if l.Op != token.LSS {
						continue
					}
					x, y := core.Expr(l.X), core.Expr(l.Y)
					// !(len < k)  or  (k-1 < len) forms; accept !(len < k) and (k < len)
					if (!l.Pol && x == lx && y == k) || (l.Pol && x == k && y == lx) {
						guarded = true
					}
				}
				c.Require(guarded, rule, fmt.Sprintf("%s/tail-slice#%d", name, ord), sl.Pos(), "tail slice taken only when enough bytes are held",
					name+" slices "+core.Expr(sl.X)+" from len-"+k+" without having established "+k+" <= len: when fewer bytes are held the slice expression panics (slice bounds out of range)")
			}
		}
	}
	if n == 0 {
		c.Undecided(rule, "internal/vkgo/binlog/fsbinlog/tail-slices", 0, "no tail slice found")
	}
}
