package props

import (
	"fmt"
	"go/constant"
	"go/token"
	"strings"

	"golang.org/x/tools/go/ssa"

	"shverif/core"
)

func init() {
	const q = "internal/util/queue/round_robin_queue.go"
	const s = "internal/vkgo/semaphore/semaphore.go"
	Register(&Property{
		ID:   "C29",
		Pkgs: []string{"./internal/util/queue", "./internal/vkgo/semaphore"},
		Run:  runC29,
		Mutants: []Mutant{
			// R1
			{Name: "revert-F11-equality-guard", File: q, Rule: "C29-R1",
				Old: "	if q.activeQuery >= q.maxActiveQuery { // capacity can be lowered below number of active queries\n",
				New: "	if q.activeQuery == q.maxActiveQuery {\n"},
			{Name: "fastpath-admits-without-capacity-test", File: q, Rule: "C29-R1",
				Old: "		if q.activeQuery < q.maxActiveQuery {\n			q.activeQuery++\n			return nil, nil, true\n		}",
				New: "		if q.activeQuery != q.maxActiveQuery {\n			q.activeQuery++\n			return nil, nil, true\n		}"},
			// R2
			{Name: "revert-F12-capacity-raise-grants-nobody", File: q, Rule: "C29-R2",
				Old: "	for q.activeQuery < q.maxActiveQuery && q.waitingUsersByPriority.Len() > 0 {\n		q.nextQueryLocked()\n	}\n",
				New: ""},
			{Name: "capacity-raise-grants-only-one", File: q, Rule: "C29-R2",
				Old: "	for q.activeQuery < q.maxActiveQuery && q.waitingUsersByPriority.Len() > 0 {\n		q.nextQueryLocked()\n	}\n",
				New: "	q.nextQueryLocked()\n"},
			{Name: "cancel-of-granted-query-frees-slot-without-grant", File: q, Rule: "C29-R2",
				Old: "		if isClosed(qry.ch) {\n			return nil\n		}",
				New: "		if isClosed(qry.ch) {\n			q.activeQuery--\n			return err\n		}"},
			{Name: "release-without-grant", File: q, Rule: "C29-R2",
				Old: "	q.activeQuery--\n	q.nextQueryLocked()\n", New: "	q.activeQuery--\n"},
			{Name: "semaphore-setsize-without-notify", File: s, Rule: "C29-R2",
				Old: "	s.size = n\n	s.notifyWaiters() // In case size was increased and someone was waiting\n", New: "	s.size = n\n"},
			// R3
			{Name: "cancel-without-recheck", File: q, Rule: "C29-R3",
				Old: "		if isClosed(qry.ch) {\n			return nil\n		}\n", New: ""},
			{Name: "fastpath-leaves-queue-locked", File: q, Rule: "C29-R3",
				Old: "	if fastpath {\n		q.mx.Unlock()\n		return nil\n	}", New: "	if fastpath {\n		return nil\n	}"},
			{Name: "observe-without-lock", File: q, Rule: "C29-R3",
				Old: "func (q *Queue) Observe() (int64, error) {\n	q.mx.Lock()\n	defer q.mx.Unlock()\n", New: "func (q *Queue) Observe() (int64, error) {\n"},
			{Name: "grant-after-unlock", File: q, Rule: "C29-R3",
				Old: "	q.nextQueryLocked()\n	q.mx.Unlock()\n	select {", New: "	q.mx.Unlock()\n	q.nextQueryLocked()\n	select {"},
			// R4
			{Name: "acquire-fastpath-barges-past-waiters", File: s, Rule: "C29-R4",
				Old: "	if s.size-s.cur >= n && s.waiters.Len() == 0 {\n		s.cur += n\n", New: "	if s.size-s.cur >= n {\n		s.cur += n\n"},
			{Name: "tryacquire-barges-past-waiters", File: s, Rule: "C29-R4",
				Old: "	success := s.size-s.cur >= n && s.waiters.Len() == 0\n", New: "	success := s.size-s.cur >= n\n"},
			{Name: "acquire-fastpath-ignores-capacity", File: s, Rule: "C29-R4",
				Old: "	if s.size-s.cur >= n && s.waiters.Len() == 0 {\n		s.cur += n\n", New: "	if s.size >= n && s.waiters.Len() == 0 {\n		s.cur += n\n"},
			{Name: "notify-serves-last-waiter", File: s, Rule: "C29-R4",
				Old: "		next := s.waiters.Front()\n", New: "		next := s.waiters.Back()\n"},
			{Name: "notify-skips-waiter-that-does-not-fit", File: s, Rule: "C29-R4",
				Old: "		next := s.waiters.Front()\n		if next == nil {\n			break // No more waiters blocked.\n		}\n",
				New: "		next := s.waiters.Front()\n		for next != nil && s.size-s.cur < next.Value.(waiter).n {\n			next = next.Next()\n		}\n		if next == nil {\n			break // No more waiters blocked.\n		}\n"},
			{Name: "cancelled-front-waiter-does-not-notify", File: s, Rule: "C29-R4",
				Old: "			if isFront && s.size > s.cur {\n				s.notifyWaiters()\n			}\n", New: "			_ = isFront\n"},
			{Name: "cancelled-waiter-stays-queued", File: s, Rule: "C29-R4",
				Old: "			s.waiters.Remove(elem)\n", New: "			_ = elem\n"},
			{Name: "release-notifies-after-unlock", File: s, Rule: "C29-R4",
				Old: "	s.notifyWaiters()\n	s.mu.Unlock()\n}\n\nfunc (s *Weighted) notifyWaiters() {", New: "	s.mu.Unlock()\n	s.notifyWaiters()\n}\n\nfunc (s *Weighted) notifyWaiters() {"},
		},
	})
}

const (
	tQueue    = "internal/util/queue.Queue"
	pQueue    = "internal/util/queue.(*Queue)."
	tWeighted = "internal/vkgo/semaphore.Weighted"
	pWeighted = "internal/vkgo/semaphore.(*Weighted)."
)

func runC29(c *core.Check) {
	c.Decides = "(R1, K1) every increment of Queue.activeQuery is dominated by `activeQuery < maxActiveQuery` on the same queue (an `!=`/`==` test is rejected: AdjustCapacity can lower the capacity below the active count) " +
		"with no write to either field between test and increment; " +
		"(R2, K6) every decrement of activeQuery and every store of maxActiveQuery is followed, on every path to the return, by the grant routine nextQueryLocked unless the path leaves through a test establishing " +
		"`!(activeQuery < maxActiveQuery)` or `no user waiting`; after a capacity store the grant is repeated (call site on a loop); sibling: every decrement of Weighted.cur / store of Weighted.size is followed by notifyWaiters; " +
		"(R3, K4) all Queue fields are read and written with q.mx held (functions named *Locked and the unexported helper incOrder only run with it held), every return of every Queue method leaves q.mx in its entry state, " +
		"no double lock/unlock; in Acquire's cancellation branch the waiting entry is removed only after isClosed(qry.ch) on that very query returned false under the same critical section; " +
		"(R4, K1/K4/K6) semaphore: `cur += n` on a fast path is guarded by `size-cur >= n` on the same n and by `waiters.Len() == 0`, in notifyWaiters by `!(size-cur < w.n)` for the waiter taken from waiters.Front() which is the element removed and whose channel is closed; " +
		"the first waiter that does not fit ends notifyWaiters; ForceAcquire is the one documented unconditional increment; the cancel branch removes its own element on every not-yet-acquired path and calls notifyWaiters " +
		"whenever it was at the front and capacity is left; all Weighted fields are accessed under s.mu (notifyWaiters only runs with it held), lock balanced on every path."
	c.NotDecided = "fairness over schedules (round-robin order by `order`, that a user is not granted twice while another waits), that channels are closed exactly once, " +
		"goroutine scheduling between Unlock and select; WaitEmpty reads size without the mutex (exempted with reason, not one of the property's operations)."

	qf := c.Prog.FuncsIn("internal/util/queue")
	sf := c.Prog.FuncsIn("internal/vkgo/semaphore")

	// ---- R1 -------------------------------------------------------------------------
	c.Rule("C29-R1", "K1 guard-dominance", 4, "every increment of Queue.activeQuery is dominated by activeQuery < maxActiveQuery of the same queue (`<` or negated `>=`; `!=` is insufficient), no write to either field in between")
	grant := need(c, "C29-R2", pQueue+"nextQueryLocked")
	queueWriters := writersOf(qf, tQueue, "activeQuery", "maxActiveQuery")
	for _, d := range deltasOf(qf, tQueue, "activeQuery") {
		if d.kind != "inc" {
			continue
		}
		c.Seen(core.FuncName(d.fn))
		key := fmt.Sprintf("%s/activeQuery++#%d", core.FuncName(d.fn), d.ord)
		lit := func(l core.Lit) bool {
			return l.Op == token.LSS && l.Pol && isFieldLoadOf(l.X, tQueue, "activeQuery", d.base) && isFieldLoadOf(l.Y, tQueue, "maxActiveQuery", d.base)
		}
		g := guardBlock(d.st.Block(), lit)
		if !c.Require(g != nil, "C29-R1", key, d.st.Pos(), "increment under activeQuery < maxActiveQuery",
			"activeQuery is incremented on a path that has not established activeQuery < maxActiveQuery (after AdjustCapacity lowered the capacity below the active count an equality test keeps admitting); facts: "+core.FactsString(d.st.Block())) {
			continue
		}
		p := writeBetween(g, d.st, queueWriters)
		c.Require(p == nil, "C29-R1", key+"/fresh", d.st.Pos(), "no write to activeQuery/maxActiveQuery between the test and the increment",
			"activeQuery or maxActiveQuery can be written between the capacity test and the increment: "+pathStr(p))
	}

	// ---- R2 -------------------------------------------------------------------------
	c.Rule("C29-R2", "K6 must-pass-through", 5, "every decrement of activeQuery / store of maxActiveQuery reaches the return only through nextQueryLocked or through a test showing no grant is possible; the grant after a capacity store is repeated; semaphore: decrement of cur / store of size is followed by notifyWaiters")
	if grant != nil {
		isGrantOn := func(base ssa.Value) func(ssa.Instruction) bool {
			return func(in ssa.Instruction) bool {
				ci, ok := in.(*ssa.Call)
				return ok && core.CalleeName(&ci.Call) == pQueue+"nextQueryLocked" && len(ci.Call.Args) > 0 && sameObj(ci.Call.Args[0], base)
			}
		}
		type site struct {
			fn   *ssa.Function
			st   *ssa.Store
			base ssa.Value
			what string
			key  string
		}
		var sites []site
		for _, d := range deltasOf(qf, tQueue, "activeQuery") {
			switch d.kind {
			case "dec":
				sites = append(sites, site{d.fn, d.st, d.base, "decrement of activeQuery", fmt.Sprintf("%s/activeQuery--#%d", core.FuncName(d.fn), d.ord)})
			case "inc":
			default:
				c.Undecided("C29-R2", fmt.Sprintf("%s/activeQuery=#%d", core.FuncName(d.fn), d.ord), d.st.Pos(), "store to activeQuery that is neither ++ nor --: "+core.Expr(d.st.Val))
			}
		}
		for _, d := range deltasOf(qf, tQueue, "maxActiveQuery") {
			sites = append(sites, site{d.fn, d.st, d.base, "store of maxActiveQuery", fmt.Sprintf("%s/maxActiveQuery=#%d", core.FuncName(d.fn), d.ord)})
		}
		for _, s := range sites {
			c.Seen(core.FuncName(s.fn))
			st := s.st
			noGrantPossible := func(pred, succ *ssa.BasicBlock) bool {
				l, ok := core.EdgeLit(pred, succ)
				if !ok {
					return false
				}
				full := l.Op == token.LSS && !l.Pol && isFieldLoadOf(l.X, tQueue, "activeQuery", s.base) && isFieldLoadOf(l.Y, tQueue, "maxActiveQuery", s.base)
				empty := false
				if call, isCall := lenCallOn(l, tQueue, "waitingUsersByPriority", s.base); isCall {
					empty = core.Dominates(st, call)
				}
				if full {
					// the values compared must be read after the store
					for _, v := range []ssa.Value{l.X, l.Y} {
						if in, isInstr := v.(ssa.Instruction); !isInstr || !core.Dominates(st, in) {
							full = false
						}
					}
				}
				return full || empty
			}
			p := core.ReachAvoiding(st, core.IsReturn, isGrantOn(s.base), noGrantPossible)
			c.Require(p == nil, "C29-R2", s.key, st.Pos(), s.what+" is followed by the grant routine (or by a test showing nothing can be granted) on every path",
				"after this "+s.what+" a path reaches the return without calling nextQueryLocked and without establishing that nothing can be granted: a waiting query is not woken although capacity is free (lost wakeup): "+pathStr(p))
			if strings.HasPrefix(s.what, "store") {
				// capacity can grow by more than one: the grant must be repeated
				var first ssa.Instruction
				if q := core.ReachWithout(st, isGrantOn(s.base), nil); q != nil {
					first = q.End
				}
				c.Require(first != nil && core.OnCycle(first), "C29-R2", s.key+"/repeated", st.Pos(), "the grant after a capacity change sits in a loop",
					"the grant routine serves one query per call; after a capacity change it is not called in a loop, so capacity raised by k > 1 wakes at most one waiting query")
			}
		}
	}
	notify := need(c, "C29-R2", pWeighted+"notifyWaiters")
	if notify != nil {
		isNotifyOn := func(base ssa.Value) func(ssa.Instruction) bool {
			return func(in ssa.Instruction) bool {
				ci, ok := in.(*ssa.Call)
				return ok && core.CalleeName(&ci.Call) == pWeighted+"notifyWaiters" && len(ci.Call.Args) > 0 && sameObj(ci.Call.Args[0], base)
			}
		}
		chk := func(d delta, what, key string) {
			c.Seen(core.FuncName(d.fn))
			p := core.ReachWithout(d.st, core.IsReturn, isNotifyOn(d.base))
			c.Require(p == nil, "C29-R2", key, d.st.Pos(), what+" is followed by notifyWaiters on every path to the return",
				"after this "+what+" a path returns without notifyWaiters: waiters that now fit are not woken: "+pathStr(p))
		}
		for _, d := range deltasOf(sf, tWeighted, "cur") {
			if d.kind == "dec" {
				chk(d, "decrement of cur", fmt.Sprintf("%s/cur-=#%d", core.FuncName(d.fn), d.ord))
			}
		}
		for _, d := range deltasOf(sf, tWeighted, "size") {
			chk(d, "store of size", fmt.Sprintf("%s/size=#%d", core.FuncName(d.fn), d.ord))
		}
	}

	// ---- R3 -------------------------------------------------------------------------
	c.Rule("C29-R3", "K4 lock discipline + K1", 36, "Queue fields are accessed only under q.mx; *Locked functions and incOrder are called with it held; every return of every Queue method restores the entry lock state; removeQueryLocked in Acquire runs only after isClosed(qry.ch) == false on the same query, in the same critical section")
	qrep := core.RunLockDiscipline(c, &core.LockSpec{
		RuleCalls: "C29-R3", RuleAccess: "C29-R3", RuleBalance: "C29-R3",
		Funcs: qf,
		Types: []core.GuardedType{{
			Type: tQueue, Mutex: "mx", CheckReads: true, Suffixes: []string{"Locked"},
			Fields:        []string{"activeQuery", "maxActiveQuery", "waitingUsersByName", "waitingUsersByPriority", "globalOrder"},
			ReadOnlyCalls: []string{"github.com/petar/GoLLRB/llrb.(*LLRB).Len", "github.com/petar/GoLLRB/llrb.(*LLRB).Min", "github.com/petar/GoLLRB/llrb.(*LLRB).Has", "github.com/petar/GoLLRB/llrb.(*LLRB).Get"},
		}},
	})
	if fn := need(c, "C29-R3", pQueue+"Acquire"); fn != nil {
		adds := core.CallsTo(fn, pQueue+"addUserQueryLocked")
		rems := core.CallsTo(fn, pQueue+"removeQueryLocked")
		if len(adds) != 1 || len(rems) < 1 {
			c.Undecided("C29-R3", pQueue+"Acquire/shape", fn.Pos(), fmt.Sprintf("expected one addUserQueryLocked and at least one removeQueryLocked in Acquire, found %d/%d", len(adds), len(rems)))
		} else {
			add := adds[0]
			li := qrep.An.Info(fn)
			for i, rm := range rems {
				key := fmt.Sprintf("%sAcquire/removeQueryLocked#%d", pQueue, i+1)
				// removes the element that addUserQueryLocked returned
				ex, isEx := rm.Arg(2).(*ssa.Extract)
				c.Require(isEx && ex.Tuple == add.Value() && ex.Index == 0, "C29-R3", key+"/element", rm.Pos(), "removes the list element created by this Acquire",
					"the cancellation branch removes "+core.Expr(rm.Arg(2))+", not the element returned by addUserQueryLocked")
				// guarded by !isClosed(qry.ch) on this query
				var chk *ssa.Call
				lit := func(l core.Lit) bool {
					call, ok := l.Cond.(*ssa.Call)
					if !ok || l.Pol || core.CalleeName(&call.Call) != "internal/util/queue.isClosed" {
						return false
					}
					for _, v := range baseChain(call.Call.Args[0]) {
						if e, ok := v.(*ssa.Extract); ok && e.Tuple == add.Value() && e.Index == 1 {
							chk = call
							return true
						}
					}
					return false
				}
				if !c.Require(holdsLit(rm.Block(), lit), "C29-R3", key+"/recheck", rm.Pos(), "removal only after isClosed(qry.ch) == false",
					"the waiting entry is removed without re-checking under the lock that the query was not granted meanwhile: a granted query is reported as cancelled and its slot is never released; facts: "+core.FactsString(rm.Block())) {
					continue
				}
				// test and removal in one critical section
				mx := core.ObjKey(rm.Arg(0)) + ".mx"
				same := li.HeldAt(chk, mx) != core.NotHeld && li.HeldAt(rm.Instr, mx) != core.NotHeld
				if same {
					p := core.ReachWithout(chk, func(in ssa.Instruction) bool {
						op, ok := core.ClassifyLockOp(in)
						return ok && !op.Deferred && op.Mutex.Key == mx
					}, func(in ssa.Instruction) bool { return in == rm.Instr })
					same = p == nil
				}
				c.Require(same, "C29-R3", key+"/atomic", rm.Pos(), "re-check and removal happen in one critical section of q.mx",
					"q.mx is not held continuously from the isClosed re-check to the removal: the query can be granted in between")
			}
		}
	}

	// ---- R4 -------------------------------------------------------------------------
	c.Rule("C29-R4", "K1+K4+K6", 40, "semaphore: fast-path `cur += n` under size-cur >= n and waiters.Len()==0; notifyWaiters serves waiters.Front() under !(size-cur < w.n), removes and closes that waiter, stops at the first that does not fit; ForceAcquire documented; cancel branch removes its element and notifies when it was the front and capacity is left; all under s.mu")
	unconditional := map[string]string{
		pWeighted + "ForceAcquire": "documented: an external force acquires unconditionally (disk space already used at start-up); Acquire then waits until enough is released",
	}
	semWriters := writersOf(sf, tWeighted, "cur", "size")
	for _, d := range deltasOf(sf, tWeighted, "cur") {
		if d.kind != "inc" {
			if d.kind == "set" {
				c.Undecided("C29-R4", fmt.Sprintf("%s/cur=#%d", core.FuncName(d.fn), d.ord), d.st.Pos(), "store to cur that is neither += nor -=: "+core.Expr(d.st.Val))
			}
			continue
		}
		name := core.FuncName(d.fn)
		c.Seen(name)
		key := fmt.Sprintf("%s/cur+=#%d", name, d.ord)
		if why, ok := unconditional[name]; ok {
			c.Pass("C29-R4", key, d.st.Pos(), "unconditional increment: "+why)
			continue
		}
		fits := func(l core.Lit) bool {
			if l.Op != token.LSS || l.Pol {
				return false
			}
			sub, ok := l.X.(*ssa.BinOp)
			return ok && sub.Op == token.SUB && isFieldLoadOf(sub.X, tWeighted, "size", d.base) && isFieldLoadOf(sub.Y, tWeighted, "cur", d.base) && sameStableValue(l.Y, d.amount)
		}
		lits := litsAt(d.st.Block())
		gFits := findLit(lits, fits)
		if !c.Require(gFits != nil, "C29-R4", key+"/fits", d.st.Pos(), "increment under size-cur >= amount",
			"cur is increased by "+core.Expr(d.amount)+" without having established size-cur >= that amount: the semaphore admits more than its size; facts: "+litsString(lits)) {
			continue
		}
		p := writeBetween(gFits.at, d.st, semWriters)
		c.Require(p == nil, "C29-R4", key+"/fresh", d.st.Pos(), "no write to cur/size between the test and the increment", "cur or size can be written between the capacity test and the increment: "+pathStr(p))
		front := frontCallOf(d.amount, d.base)
		if front == nil {
			// fast path: must not overtake queued waiters
			noWaiters := func(l core.Lit) bool {
				call, ok := lenCallOn(l, tWeighted, "waiters", d.base)
				return ok && call != nil
			}
			c.Require(findLit(lits, noWaiters) != nil, "C29-R4", key+"/fifo", d.st.Pos(), "fast path only when nobody is waiting",
				"cur is increased on a fast path without testing waiters.Len() == 0: a new request overtakes queued waiters (FIFO barging, starvation of large requests); facts: "+litsString(lits))
			continue
		}
		// grant path: the waiter served is the front one, it is removed and woken (in the
		// region guarded by the same capacity test, in any order)
		inRegion := func(in ssa.Instruction) bool {
			return gFits.at == in.Block() || gFits.at.Dominates(in.Block())
		}
		var removed, closed bool
		for _, s := range core.Calls(d.fn) {
			if s.Callee == "container/list.(*List).Remove" && inRegion(s.Instr) && s.Arg(1) == ssa.Value(front) && isFieldOfBase(s.Arg(0), tWeighted, "waiters", d.base) {
				removed = true
			}
			if s.Callee == "builtin close" && inRegion(s.Instr) && frontCallOf(s.Arg(0), d.base) == front {
				closed = true
			}
		}
		c.Require(removed && closed, "C29-R4", key+"/serves-front", d.st.Pos(), "the waiter whose weight is added is waiters.Front(); it is removed and its channel closed",
			fmt.Sprintf("after adding the weight of waiters.Front() the same element is not both removed (%v) and woken (%v)", removed, closed))
		// stops at the first waiter that does not fit
		tooBig := func(l core.Lit) bool { l.Pol = !l.Pol; return fits(l) }
		exits := edgesWhere(d.fn, tooBig)
		if len(exits) == 0 {
			c.Fail("C29-R4", key+"/stops", d.st.Pos(), "no branch on `size-cur < w.n` found in the grant loop")
		}
		for i, e := range exits {
			p := reachFromBlock(e, func(in ssa.Instruction) bool {
				if semWriters(in) {
					return true
				}
				ci, ok := in.(ssa.CallInstruction)
				return ok && (core.CalleeName(ci.Common()) == "container/list.(*List).Remove" || core.CalleeName(ci.Common()) == "builtin close")
			}, nil)
			c.Require(p == nil, "C29-R4", fmt.Sprintf("%s/stops#%d", key, i+1), d.st.Pos(), "the first waiter that does not fit ends the grant loop",
				"after finding that the front waiter does not fit the function can still grant another waiter (barging past a large request): "+pathStr(p))
		}
	}
	// every element handed to Remove in notifyWaiters is the front one
	if notify != nil {
		for i, s := range core.CallsTo(notify, "container/list.(*List).Remove") {
			call, ok := s.Arg(1).(*ssa.Call)
			c.Require(ok && core.CalleeName(&call.Call) == "container/list.(*List).Front" && sameObj(call.Call.Args[0], s.Arg(0)), "C29-R4",
				fmt.Sprintf("%snotifyWaiters/Remove#%d", pWeighted, i+1), s.Pos(), "notifyWaiters removes only waiters.Front()", "notifyWaiters removes "+core.Expr(s.Arg(1))+", which is not waiters.Front()")
		}
	}
	// cancellation branch of Acquire
	if fn := need(c, "C29-R4", pWeighted+"Acquire"); fn != nil {
		pushes := core.CallsTo(fn, "container/list.(*List).PushBack")
		if len(pushes) != 1 {
			c.Undecided("C29-R4", pWeighted+"Acquire/shape", fn.Pos(), fmt.Sprintf("expected one PushBack of the waiter, found %d", len(pushes)))
		} else {
			elem := pushes[0].Value()
			base := ssa.Value(fn.Params[0])
			isRemoveElem := func(in ssa.Instruction) bool {
				ci, ok := in.(*ssa.Call)
				return ok && core.CalleeName(&ci.Call) == "container/list.(*List).Remove" && len(ci.Call.Args) == 2 && ci.Call.Args[1] == elem
			}
			isUnlockOrReturn := func(in ssa.Instruction) bool {
				if core.IsReturn(in) {
					return true
				}
				op, ok := core.ClassifyLockOp(in)
				return ok && op.Kind == core.OpUnlock && !op.Deferred && op.Mutex.Key == core.ObjKey(base)+".mu"
			}
			// (a) a cancelled waiter that was not granted leaves the list
			ready := readyChanOf(pushes[0])
			notGranted := func(l core.Lit) bool {
				if l.Op != token.EQL || l.Pol {
					return false
				}
				ex, ok := l.X.(*ssa.Extract)
				if !ok || ex.Index != 0 || !constIs(l.Y, 0) {
					return false
				}
				sel, ok := ex.Tuple.(*ssa.Select)
				return ok && !sel.Blocking && len(sel.States) == 1 && ready != nil && chanIs(sel.States[0].Chan, ready)
			}
			entries := edgesWhere(fn, notGranted)
			if len(entries) == 0 {
				c.Fail("C29-R4", pWeighted+"Acquire/cancel", fn.Pos(), "the cancellation branch does not test (non-blocking receive on the waiter's ready channel) whether the waiter was granted meanwhile")
			}
			for i, e := range entries {
				p := reachFromBlock(e, isUnlockOrReturn, isRemoveElem)
				c.Require(p == nil, "C29-R4", fmt.Sprintf("%sAcquire/cancel#%d/removes", pWeighted, i+1), pushes[0].Pos(), "a cancelled, not yet granted waiter is removed from the list before the unlock",
					"a cancelled waiter that was not granted can stay in the waiter list (it would later be granted capacity nobody uses): "+pathStr(p))
			}
			// (b) if it was the front and capacity is left, the next waiters are notified
			for i, s := range core.CallsTo(fn, "container/list.(*List).Remove") {
				if s.Arg(1) != elem {
					continue
				}
				rm := s.Instr
				excused := func(pred, succ *ssa.BasicBlock) bool {
					l, ok := core.EdgeLit(pred, succ)
					if !ok || l.Pol {
						return false
					}
					if l.Op == token.EQL {
						// Front() == elem, with Front() evaluated before the removal
						for _, pair := range [][2]ssa.Value{{l.X, l.Y}, {l.Y, l.X}} {
							if call, ok := pair[0].(*ssa.Call); ok && core.CalleeName(&call.Call) == "container/list.(*List).Front" && pair[1] == elem && core.Dominates(call, rm) {
								return true
							}
						}
					}
					// cur < size read after the removal
					return l.Op == token.LSS && isFieldLoadOf(l.X, tWeighted, "cur", base) && isFieldLoadOf(l.Y, tWeighted, "size", base)
				}
				isNotify := func(in ssa.Instruction) bool {
					ci, ok := in.(*ssa.Call)
					return ok && core.CalleeName(&ci.Call) == pWeighted+"notifyWaiters" && sameObj(ci.Call.Args[0], base)
				}
				p := core.ReachAvoiding(rm, isUnlockOrReturn, isNotify, excused)
				c.Require(p == nil, "C29-R4", fmt.Sprintf("%sAcquire/cancel-remove#%d/notifies", pWeighted, i+1), s.Pos(), "removing the front waiter with capacity left notifies the next waiters",
					"after removing a cancelled waiter the mutex is released without notifyWaiters on a path that has not established `it was not the front` or `no capacity left`: waiters behind a cancelled large request stay blocked: "+pathStr(p))
			}
		}
	}
	core.RunLockDiscipline(c, &core.LockSpec{
		RuleCalls: "C29-R4", RuleAccess: "C29-R4", RuleBalance: "C29-R4",
		Funcs: sf,
		Types: []core.GuardedType{{
			Type: tWeighted, Mutex: "mu", CheckReads: true, Fields: []string{"size", "cur", "waiters"},
			ReadOnlyCalls: []string{"container/list.(*List).Len", "container/list.(*List).Front", "container/list.(*List).Back"},
		}},
		ExemptAccess: map[string]string{
			pWeighted + "WaitEmpty": "reads size without the mutex to pass it to Acquire/Release; WaitEmpty is not one of the operations the property quantifies over (a concurrent SetSize makes it release a different amount than it acquired — reported as an observation)",
		},
	})
	debugObs(c)
}

// ---- helpers ------------------------------------------------------------------------

func sameObj(a, b ssa.Value) bool { return a == b || core.ObjKey(a) == core.ObjKey(b) }

// isFieldOfBase: v is the address of typ.field of the object base denotes.
func isFieldOfBase(v ssa.Value, typ, field string, base ssa.Value) bool {
	fa, ok := v.(*ssa.FieldAddr)
	return ok && core.IsField(fa, typ, field) && sameObj(fa.X, base)
}

// isFieldLoadOf: v is a load of typ.field of the object base denotes.
func isFieldLoadOf(v ssa.Value, typ, field string, base ssa.Value) bool {
	u, ok := v.(*ssa.UnOp)
	return ok && u.Op == token.MUL && isFieldOfBase(u.X, typ, field, base)
}

// delta is a store to a counter field, classified as x = x + k ("inc"), x = x - k ("dec")
// or anything else ("set").
type delta struct {
	fn     *ssa.Function
	st     *ssa.Store
	base   ssa.Value // the object whose field is stored
	kind   string
	amount ssa.Value
	ord    int // ordinal among the stores of that field in fn
}

func deltasOf(fns []*ssa.Function, typ, field string) []delta {
	var out []delta
	for _, fn := range fns {
		ord := 0
		for _, b := range fn.Blocks {
			for _, in := range b.Instrs {
				st, ok := in.(*ssa.Store)
				if !ok || !core.IsField(st.Addr, typ, field) {
					continue
				}
				fa := st.Addr.(*ssa.FieldAddr)
				if _, fresh := fa.X.(*ssa.Alloc); fresh {
					continue // object under construction
				}
				ord++
				d := delta{fn: fn, st: st, base: fa.X, kind: "set", ord: ord}
				if bin, ok := st.Val.(*ssa.BinOp); ok && (bin.Op == token.ADD || bin.Op == token.SUB) && isFieldLoadOf(bin.X, typ, field, fa.X) {
					d.amount = bin.Y
					neg := false
					if k, isConst := bin.Y.(*ssa.Const); isConst && k.Value != nil && k.Value.Kind() == constant.Int {
						neg = constant.Sign(k.Value) < 0
					}
					if (bin.Op == token.ADD) != neg {
						d.kind = "inc"
					} else {
						d.kind = "dec"
					}
				}
				out = append(out, d)
			}
		}
	}
	return out
}

// writersOf builds a predicate matching stores to the fields and calls of module
// functions that (transitively, within fns) store to them.
func writersOf(fns []*ssa.Function, typ string, fields ...string) func(ssa.Instruction) bool {
	direct := func(in ssa.Instruction) bool {
		st, ok := in.(*ssa.Store)
		if !ok {
			return false
		}
		for _, f := range fields {
			if core.IsField(st.Addr, typ, f) {
				return true
			}
		}
		return false
	}
	writers := map[string]bool{}
	for changed := true; changed; {
		changed = false
		for _, fn := range fns {
			name := core.FuncName(fn)
			if writers[name] {
				continue
			}
			for _, b := range fn.Blocks {
				for _, in := range b.Instrs {
					w := direct(in)
					if ci, ok := in.(ssa.CallInstruction); ok && writers[core.CalleeName(ci.Common())] {
						w = true
					}
					if w && !writers[name] {
						writers[name] = true
						changed = true
					}
				}
			}
		}
	}
	return func(in ssa.Instruction) bool {
		if direct(in) {
			return true
		}
		ci, ok := in.(ssa.CallInstruction)
		return ok && writers[core.CalleeName(ci.Common())]
	}
}

// writeBetween searches for an instruction satisfying bad that lies on a path from the
// beginning of block g to instruction s (reachable from g without passing s, and s
// reachable from it).
func writeBetween(g *ssa.BasicBlock, s ssa.Instruction, bad func(ssa.Instruction) bool) *core.PathTo {
	isS := func(in ssa.Instruction) bool { return in == s }
	return reachFromBlock(g, func(in ssa.Instruction) bool {
		return in != s && bad(in) && core.ReachWithout(in, isS, nil) != nil
	}, isS)
}

// guardBlock returns the block entered under a literal satisfying pred that dominates b.
func guardBlock(b *ssa.BasicBlock, pred func(core.Lit) bool) *ssa.BasicBlock {
	for _, g := range core.Facts(b) {
		all := len(g.Alts) > 0
		for _, l := range g.Alts {
			if !pred(l) {
				all = false
			}
		}
		if all {
			return g.Block
		}
	}
	return nil
}

// lenCallOn matches the literal "the container held in typ.field of base is empty" in its
// spellings Len() == 0, !(0 < Len()), !(Len() > 0); it returns the Len call.
func lenCallOn(l core.Lit, typ, field string, base ssa.Value) (*ssa.Call, bool) {
	isLen := func(v ssa.Value) *ssa.Call {
		call, ok := v.(*ssa.Call)
		if !ok || call.Call.IsInvoke() || len(call.Call.Args) != 1 || !strings.HasSuffix(core.CalleeName(&call.Call), ").Len") {
			return nil
		}
		a := call.Call.Args[0]
		if isFieldOfBase(a, typ, field, base) || isFieldLoadOf(a, typ, field, base) {
			return call
		}
		return nil
	}
	switch {
	case l.Op == token.EQL && l.Pol && constIs(l.Y, 0):
		if c := isLen(l.X); c != nil {
			return c, true
		}
	case l.Op == token.LSS && !l.Pol && constIs(l.X, 0):
		if c := isLen(l.Y); c != nil {
			return c, true
		}
	}
	return nil, false
}

// litAt is a literal together with the block from which on it holds.
type litAt struct {
	core.Lit
	at *ssa.BasicBlock
}

// litsAt lists the literals that hold at b: the single-alternative guards of the dominator
// chain, and, for a branch on a short-circuit value `x := a && b` (a phi whose other
// edges are the constant false), the conjuncts and the facts of the block that computed b.
func litsAt(b *ssa.BasicBlock) []litAt {
	var out []litAt
	seen := map[*ssa.BasicBlock]bool{}
	var add func(b *ssa.BasicBlock, at *ssa.BasicBlock)
	var expand func(l core.Lit, at *ssa.BasicBlock)
	expand = func(l core.Lit, at *ssa.BasicBlock) {
		out = append(out, litAt{l, at})
		phi, ok := l.Cond.(*ssa.Phi)
		if !ok {
			return
		}
		var live []int
		for i, e := range phi.Edges {
			if core.ConstBool(e, !l.Pol) {
				continue // this edge gives the opposite truth value
			}
			live = append(live, i)
		}
		if len(live) != 1 {
			return
		}
		i := live[0]
		if !core.ConstBool(phi.Edges[i], l.Pol) {
			expand(core.NormLit(phi.Edges[i], l.Pol), at)
		}
		add(phi.Block().Preds[i], at)
	}
	add = func(b *ssa.BasicBlock, at *ssa.BasicBlock) {
		if seen[b] {
			return
		}
		seen[b] = true
		for _, g := range core.Facts(b) {
			if len(g.Alts) == 1 {
				where := g.Block
				if at != nil {
					where = at
				}
				expand(g.Alts[0], where)
			}
		}
	}
	add(b, nil)
	return out
}

func findLit(ls []litAt, pred func(core.Lit) bool) *litAt {
	for i := range ls {
		if pred(ls[i].Lit) {
			return &ls[i]
		}
	}
	return nil
}

func litsString(ls []litAt) string {
	var s []string
	for _, l := range ls {
		s = append(s, l.String())
	}
	return strings.Join(s, " && ")
}

// sameStableValue: a and b denote the same value: the same SSA value, or two loads of the
// same field of a local that is assigned once, or syntactically equal expressions over
// parameters and constants.
func sameStableValue(a, b ssa.Value) bool {
	if a == b {
		return true
	}
	if core.Expr(a) != core.Expr(b) {
		return false
	}
	var stable func(v ssa.Value, d int) bool
	stable = func(v ssa.Value, d int) bool {
		if d > 6 {
			return false
		}
		switch x := v.(type) {
		case *ssa.Parameter, *ssa.Const:
			return true
		case *ssa.Convert:
			return stable(x.X, d+1)
		case *ssa.BinOp:
			return stable(x.X, d+1) && stable(x.Y, d+1)
		case *ssa.UnOp:
			if x.Op != token.MUL {
				return stable(x.X, d+1)
			}
			if fa, ok := x.X.(*ssa.FieldAddr); ok {
				if al, ok := fa.X.(*ssa.Alloc); ok {
					return len(core.CellStores(al)) <= 1 && fieldStores(al) == 0
				}
			}
		}
		return false
	}
	// two loads of one field of a once-assigned local must read the same local
	ua, oka := a.(*ssa.UnOp)
	ub, okb := b.(*ssa.UnOp)
	if oka && okb {
		fa, ok1 := ua.X.(*ssa.FieldAddr)
		fb, ok2 := ub.X.(*ssa.FieldAddr)
		if ok1 && ok2 && (fa.X != fb.X || fa.Field != fb.Field) {
			return false
		}
	}
	return stable(a, 0) && stable(b, 0)
}

// fieldStores counts the stores through field addresses of a local struct.
func fieldStores(al *ssa.Alloc) int {
	n := 0
	for _, r := range core.Referrers(al) {
		if fa, ok := r.(*ssa.FieldAddr); ok {
			for _, rr := range core.Referrers(fa) {
				if st, ok := rr.(*ssa.Store); ok && st.Addr == fa {
					n++
				}
			}
		}
	}
	return n
}

// frontCallOf returns the waiters.Front() call (on the semaphore base) that v is read
// from (through Value, type assertion, local copy and field selection), nil otherwise.
func frontCallOf(v ssa.Value, base ssa.Value) *ssa.Call {
	for _, x := range baseChain(v) {
		if ta, ok := x.(*ssa.TypeAssert); ok {
			for _, y := range baseChain(ta.X) {
				if call, ok := y.(*ssa.Call); ok && core.CalleeName(&call.Call) == "container/list.(*List).Front" && isFieldOfBase(call.Call.Args[0], tWeighted, "waiters", base) {
					return call
				}
			}
		}
		if call, ok := x.(*ssa.Call); ok && core.CalleeName(&call.Call) == "container/list.(*List).Front" && isFieldOfBase(call.Call.Args[0], tWeighted, "waiters", base) {
			return call
		}
	}
	return nil
}

// readyChanOf returns the channel stored in the `ready` field of the waiter value pushed.
func readyChanOf(push core.Site) ssa.Value {
	arg := push.Arg(1)
	if mi, ok := arg.(*ssa.MakeInterface); ok {
		arg = mi.X
	}
	ld, ok := arg.(*ssa.UnOp)
	if !ok || ld.Op != token.MUL {
		return nil
	}
	al, ok := ld.X.(*ssa.Alloc)
	if !ok {
		return nil
	}
	for _, r := range core.Referrers(al) {
		fa, ok := r.(*ssa.FieldAddr)
		if !ok || !core.IsField(fa, "internal/vkgo/semaphore.waiter", "ready") {
			continue
		}
		for _, rr := range core.Referrers(fa) {
			if st, ok := rr.(*ssa.Store); ok && st.Addr == fa {
				return st.Val
			}
		}
	}
	return nil
}

// chanIs: v is channel ch, possibly converted to a directional type.
func chanIs(v, ch ssa.Value) bool {
	for {
		if v == ch {
			return true
		}
		switch x := v.(type) {
		case *ssa.ChangeType:
			v = x.X
		case *ssa.Convert:
			v = x.X
		default:
			// the stored value may itself be a conversion of the made channel
			switch y := ch.(type) {
			case *ssa.ChangeType:
				ch = y.X
				continue
			case *ssa.Convert:
				ch = y.X
				continue
			}
			return false
		}
	}
}
