package props

import (
	"fmt"
	"go/ast"
	"go/constant"
	"go/token"
	"strings"

	"golang.org/x/tools/go/ssa"

	"shverif/core"
)

func init() {
	Register(&Property{
		ID:   "C26",
		Pkgs: []string{"./internal/api", "./internal/data_model"},
		Run:  runC26,
		Mutants: []Mutant{
			{Name: "value-without-escaping", File: "internal/api/sql_query_series.go", Rule: "C26-R1",
				Old: "sb.WriteString(escapeReplacer.Replace(v.Value))", New: "sb.WriteString(v.Value)"},
			{Name: "seed-C26a-regex-own-escaping", File: "internal/api/sql_query_series.go", Rule: "C26-R1",
				Old: "sb.WriteString(escapeReplacer.Replace(filter.Re2))", New: "sb.WriteString(strings.ReplaceAll(filter.Re2, \"'\", \"\\\\'\"))"},
			{Name: "escaped-value-outside-quotes", File: "internal/api/sql_query_series.go", Rule: "C26-R1",
				Old: "				sb.WriteString(\",'\")\n				sb.WriteString(escapeReplacer.Replace(filter.Re2))", New: "				sb.WriteString(\",\")\n				sb.WriteString(escapeReplacer.Replace(filter.Re2))"},
			{Name: "replacer-forgets-backslash", File: "internal/api/sql_query_series.go", Rule: "C26-R2",
				Old: "var escapeReplacer = strings.NewReplacer(`'`, `\\'`, `\\`, `\\\\`)", New: "var escapeReplacer = strings.NewReplacer(`'`, `\\'`)"},
			{Name: "user-string-in-sprintf", File: "internal/api/sql_query_series.go", Rule: "C26-R1",
				Old: "				sb.WriteString(b.colStr(tagX))\n				sb.WriteString(\",'\")", New: "				sb.WriteString(fmt.Sprintf(\"%s/*%s*/\", b.colStr(tagX), b.user))\n				sb.WriteString(\",'\")"},
			{Name: "seed-C26b-empty-value-in-string-list", File: "internal/api/sql_query_series.go", Rule: "C26-R4",
				Old: "				for _, v := range filter.Values {\n					if v.Empty() {\n						continue\n					}\n					if v.HasValue() {\n						if !hasValue {",
				New: "				for _, v := range filter.Values {\n					if v.HasValue() {\n						if !hasValue {"},
			{Name: "not-in-uses-or", File: "internal/api/sql_query_series.go", Rule: "C26-R3",
				Old: "var filterOperatorNotIn = filterOperator{operatorNotIn, \" AND \"}", New: "var filterOperatorNotIn = filterOperator{operatorNotIn, \" OR \"}"},
		},
	})
}

func runC26(c *core.Check) {
	c.Decides = "R1 every string written into the SQL text by the functions reachable from the query assemblers (buildSeriesQuery, buildTagValuesQueryEx) is a constant, a formatted number, " +
		"the result of a function all of whose returns are such (fixpoint over the package), an enumerated trusted configuration source, or escapeReplacer.Replace(x) written directly between single-quote constants; " +
		"R2 escapeReplacer maps ' to \\' and \\ to \\\\; R3 the tag filter is emitted for both polarities with the operator table {IN/OR, NOT IN/AND}; " +
		"R4 both passes over the filter values in writeTagFilter skip the empty value (it is emitted by the dedicated `=0 AND stag=''` clause)."
	c.NotDecided = "that the generated text is well-formed SQL for the storage, that the escaping is what the storage's lexer undoes, and that the where-clause selects exactly the matching rows."

	api := c.Prog.FuncsIn("internal/api")
	byName := map[string]*ssa.Function{}
	for _, fn := range api {
		byName[core.FuncName(fn)] = fn
	}
	// scope: functions reachable by static calls inside package api from the assemblers
	roots := []string{"internal/api.(*queryBuilder).buildSeriesQuery", "internal/api.(*queryBuilder).buildTagValuesQueryEx",
		"internal/api.(*queryBuilder).buildTagValuesQuery", "internal/api.(*queryBuilder).buildTagValueIDsQuery"}
	scope := map[*ssa.Function]bool{}
	var work []*ssa.Function
	for _, r := range roots {
		if fn := need(c, "C26-R1", r); fn != nil {
			scope[fn] = true
			work = append(work, fn)
		}
	}
	for len(work) > 0 {
		fn := work[0]
		work = work[1:]
		for _, s := range core.Calls(fn) {
			if cal := s.Common().StaticCallee(); cal != nil && core.FuncPkg(cal) == "internal/api" && len(cal.Blocks) > 0 && !scope[cal] {
				scope[cal] = true
				work = append(work, cal)
			}
		}
		for _, a := range fn.AnonFuncs {
			if !scope[a] {
				scope[a] = true
				work = append(work, a)
			}
		}
	}

	ss := core.NewSafeStrings(c.Prog)
	trustedFields := map[string]string{
		"internal/api.listItemSeparator.value": "separator set by newListComma from a constant",
	}
	ss.Trusted = func(v ssa.Value) string {
		// operator table: values of the constant-table type api.filterOperator
		if ix, ok := v.(*ssa.UnOp); ok && ix.Op == token.MUL {
			if ia, ok := ix.X.(*ssa.IndexAddr); ok && strings.HasSuffix(core.TypeName(ia.X.Type()), "internal/api.filterOperator") {
				return "element of the constant operator table type filterOperator (checked by C26-R3)"
			}
			if fa, ok := ix.X.(*ssa.FieldAddr); ok {
				for k, why := range trustedFields {
					i := strings.LastIndex(k, ".")
					if core.IsField(fa, k[:i], k[i+1:]) {
						return why
					}
				}
			}
		}
		if ix, ok := v.(*ssa.Index); ok && strings.HasSuffix(core.TypeName(ix.X.Type()), "internal/api.filterOperator") {
			return "element of the constant operator table type filterOperator"
		}
		if p, ok := v.(*ssa.Parameter); ok && p.Parent() != nil {
			name := core.FuncName(p.Parent())
			// the `settings` string of the assemblers comes from server configuration (ClickHouse SETTINGS clause)
			if (name == roots[0] || name == roots[1] || name == roots[2] || name == roots[3]) && p == p.Parent().Params[2] {
				return "storage settings string from server configuration"
			}
		}
		if call, ok := v.(*ssa.Call); ok {
			switch core.CalleeName(&call.Call) {
			case "time.(*Location).String":
				return "time zone name from server configuration"
			case "internal/format.TagID", "internal/format.TagIDLegacy":
				return "element of the constant table of tag column suffixes, indexed by an integer"
			case "internal/data_model.(LOD).Table", "internal/data_model.(*LOD).Table":
				return "table name from the constant LODTables map"
			}
		}
		return ""
	}
	isEscaped := func(v ssa.Value) bool {
		call, ok := v.(*ssa.Call)
		if !ok || core.CalleeName(&call.Call) != "strings.(*Replacer).Replace" {
			return false
		}
		ld, ok := call.Call.Args[0].(*ssa.UnOp)
		if !ok {
			return false
		}
		g, ok := ld.X.(*ssa.Global)
		return ok && g.Name() == "escapeReplacer" && core.Rel(g.Pkg.Pkg.Path()) == "internal/api"
	}
	var all []*ssa.Function
	for _, fn := range c.Prog.Funcs() {
		all = append(all, fn)
	}
	ss.Solve(all)

	// listItemSeparator.value is written only with constants
	for i, w := range core.FieldWrites(api, "internal/api.listItemSeparator", "value") {
		_, isConst := w.Val.(*ssa.Const)
		c.Require(isConst, "C26-R1", fmt.Sprintf("%s/store:listItemSeparator.value#%d", core.FuncName(w.Fn), i+1), w.Instr.Pos(),
			"separator is a constant", "listItemSeparator.value (trusted as a constant separator) is assigned a non-constant")
	}

	// ---- R1 ---------------------------------------------------------------------------
	c.Rule("C26-R1", "K10 string-sink allow-list", 100, "every string written to the SQL builder by functions reachable from the assemblers is safe, or is escapeReplacer.Replace(x) directly between quote constants")
	isSink := func(in ssa.Instruction) (ssa.Value, bool) {
		ci, ok := in.(ssa.CallInstruction)
		if !ok {
			return nil, false
		}
		switch core.CalleeName(ci.Common()) {
		case "strings.(*Builder).WriteString":
			return ci.Common().Args[1], true
		case "strings.(*Builder).WriteByte", "strings.(*Builder).WriteRune":
			return ci.Common().Args[1], true
		}
		return nil, false
	}
	var scoped []*ssa.Function
	for fn := range scope {
		scoped = append(scoped, fn)
	}
	sortFuncs(scoped)
	nSinks := 0
	for _, fn := range scoped {
		c.Seen(core.FuncName(fn))
		n := 0
		for _, b := range fn.Blocks {
			for _, in := range b.Instrs {
				arg, ok := isSink(in)
				if !ok {
					// fmt.Fprintf into the builder
					if ci, isCall := in.(ssa.CallInstruction); isCall && strings.HasPrefix(core.CalleeName(ci.Common()), "fmt.Fprint") {
						n++
						c.Fail("C26-R1", fmt.Sprintf("%s/sink#%d", core.FuncName(fn), n), in.Pos(), "fmt.Fprint* into the query text is not an analysed sink idiom; use WriteString of checked parts")
					}
					continue
				}
				n++
				nSinks++
				c.CallSites++
				key := fmt.Sprintf("%s/sink#%d", core.FuncName(fn), n)
				switch {
				case ss.Safe(arg):
					c.Pass("C26-R1", key, in.Pos(), "safe: "+short(core.Expr(arg)))
				case isEscaped(arg):
					prev := neighbourSinks(in, false, isSink)
					var next []ssa.Value
					for _, hit := range core.ForwardFirst(in, func(x ssa.Instruction) bool { _, ok := isSink(x); return ok }) {
						v, _ := isSink(hit)
						next = append(next, v)
					}
					okQ := len(prev) > 0 && len(next) > 0
					why := ""
					for _, p := range prev {
						if s, isC := constString(p); !isC || !strings.HasSuffix(s, "'") {
							okQ, why = false, "preceded by "+core.Expr(p)
						}
					}
					for _, p := range next {
						if s, isC := constString(p); !isC || !strings.HasPrefix(s, "'") {
							okQ, why = false, "followed by "+core.Expr(p)
						}
					}
					c.Require(okQ, "C26-R1", key, in.Pos(), "escaped user string inside a quoted literal",
						"escapeReplacer.Replace(x) is not written directly between single-quote constants ("+why+"): the escaping is only meaningful inside a string literal")
				default:
					c.Fail("C26-R1", key, in.Pos(), "a string that may carry user input is written into the query text unescaped: "+short(core.Expr(arg))+" — "+ss.Why[arg])
				}
			}
		}
	}
	c.Note("functions in scope: %d, sinks: %d", len(scoped), nSinks)

	// ---- R2 ---------------------------------------------------------------------------
	c.Rule("C26-R2", "K5 constants", 1, "escapeReplacer = strings.NewReplacer(`'`, `\\'`, `\\`, `\\\\`)")
	{
		pk := c.Prog.Pkg("internal/api")
		found := false
		for _, f := range pk.Syntax {
			ast.Inspect(f, func(n ast.Node) bool {
				vs, ok := n.(*ast.ValueSpec)
				if !ok || len(vs.Names) != 1 || vs.Names[0].Name != "escapeReplacer" || len(vs.Values) != 1 {
					return true
				}
				found = true
				call, ok := vs.Values[0].(*ast.CallExpr)
				var args []string
				if ok {
					for _, a := range call.Args {
						if tv, ok := pk.TypesInfo.Types[a]; ok && tv.Value != nil && tv.Value.Kind() == constant.String {
							args = append(args, constant.StringVal(tv.Value))
						}
					}
				}
				pairs := map[string]string{}
				for i := 0; i+1 < len(args); i += 2 {
					pairs[args[i]] = args[i+1]
				}
				okR := ok && len(args) == len(call.Args) && len(pairs) == 2 && pairs["'"] == `\'` && pairs[`\`] == `\\`
				c.Require(okR, "C26-R2", "internal/api.escapeReplacer", vs.Pos(), "quote and backslash are escaped",
					fmt.Sprintf("escapeReplacer must replace exactly ' -> \\' and \\ -> \\\\ (found %v): an unescaped backslash before the closing quote ends the literal early", pairs))
				return false
			})
		}
		if !found {
			c.Anchor("C26-R2", "internal/api.escapeReplacer")
		}
	}

	// ---- R3 ---------------------------------------------------------------------------
	c.Rule("C26-R3", "K5 table", 3, "filterOperator values are constant tables {\" IN \",\" OR \"} and {\" NOT IN \",\" AND \"}; writeWhere emits the inclusion filter with the first and the exclusion filter with the second")
	{
		pk := c.Prog.Pkg("internal/api")
		tables := map[string][]string{}
		for _, f := range pk.Syntax {
			ast.Inspect(f, func(n ast.Node) bool {
				cl, ok := n.(*ast.CompositeLit)
				if !ok {
					return true
				}
				tv, ok := pk.TypesInfo.Types[cl]
				if !ok || !strings.HasSuffix(core.TypeName(tv.Type), "internal/api.filterOperator") {
					return true
				}
				var vals []string
				for _, e := range cl.Elts {
					if ev, ok := pk.TypesInfo.Types[e]; ok && ev.Value != nil && ev.Value.Kind() == constant.String {
						vals = append(vals, constant.StringVal(ev.Value))
					} else {
						vals = append(vals, "<non-constant>")
					}
				}
				key := strings.Join(vals, "|")
				tables[key] = vals
				okT := key == " IN | OR " || key == " NOT IN | AND "
				c.Require(okT, "C26-R3", "internal/api.filterOperator{"+key+"}", cl.Pos(), "operator table entry",
					"filterOperator literal {"+key+"} is not one of {\" IN \",\" OR \"} / {\" NOT IN \",\" AND \"} (inclusion is a disjunction, exclusion a conjunction)")
				return true
			})
		}
		if fn := need(c, "C26-R3", "internal/api.(*queryBuilder).writeWhere"); fn != nil {
			calls := core.CallsTo(fn, "internal/api.(*queryBuilder).writeTagFilter")
			seen := map[string]bool{}
			for _, s := range calls {
				f := core.Expr(s.Arg(3))
				op := core.Expr(s.Arg(4))
				switch {
				case strings.HasSuffix(f, ".filterIn") && op == "*internal/api.filterOperatorIn":
					seen["in"] = true
				case strings.HasSuffix(f, ".filterNotIn") && op == "*internal/api.filterOperatorNotIn":
					seen["notin"] = true
				default:
					seen["bad:"+f+"/"+op] = true
				}
			}
			c.Require(len(calls) == 2 && seen["in"] && seen["notin"], "C26-R3", "internal/api.(*queryBuilder).writeWhere/polarities", fn.Pos(),
				"inclusion filter with IN/OR, exclusion filter with NOT IN/AND", fmt.Sprintf("writeWhere must emit filterIn with filterOperatorIn and filterNotIn with filterOperatorNotIn (found %v)", core.SortedKeys(seen)))
		}
	}

	// ---- R4 ---------------------------------------------------------------------------
	c.Rule("C26-R4", "K8 sibling loops", 2, "every loop over filter.Values in writeTagFilter skips values for which Empty() is true before looking at them")
	if fn := need(c, "C26-R4", "internal/api.(*queryBuilder).writeTagFilter"); fn != nil {
		// every use of HasValue()/IsMapped()/.Value/.Mapped of a TagValue must be dominated by !Empty() on the same value cell
		n := 0
		for _, s := range core.CallsTo(fn, "internal/data_model.(TagValue).HasValue", "internal/data_model.(TagValue).IsMapped", "internal/data_model.(*TagValue).HasValue", "internal/data_model.(*TagValue).IsMapped") {
			n++
			ok := core.Holds(s.Block(), core.F("internal/data_model.(*TagValue).Empty(*)")) || core.Holds(s.Block(), core.F("internal/data_model.(TagValue).Empty(*)"))
			c.Require(ok, "C26-R4", core.Ordinals([]core.Site{s})[0], s.Pos(), "empty value skipped first",
				"a filter value is classified (HasValue/IsMapped) without `Empty()` having been excluded: the empty value would be emitted as '' into the string list and match every mapped row")
		}
		if n == 0 {
			c.Undecided("C26-R4", "internal/api.(*queryBuilder).writeTagFilter/values", fn.Pos(), "no HasValue/IsMapped classification found")
		}
	}
}

func short(s string) string {
	if len(s) > 160 {
		return s[:160] + "…"
	}
	return s
}

func constString(v ssa.Value) (string, bool) {
	k, ok := v.(*ssa.Const)
	if !ok || k.Value == nil {
		return "", false
	}
	if k.Value.Kind() == constant.String {
		return constant.StringVal(k.Value), true
	}
	if k.Value.Kind() == constant.Int { // WriteByte('x')
		if i, ok := constant.Int64Val(k.Value); ok {
			return string(rune(i)), true
		}
	}
	return "", false
}

func sortFuncs(fs []*ssa.Function) {
	for i := 1; i < len(fs); i++ {
		for j := i; j > 0 && core.FuncName(fs[j]) < core.FuncName(fs[j-1]); j-- {
			fs[j], fs[j-1] = fs[j-1], fs[j]
		}
	}
}

// neighbourSinks returns the arguments of the sink writes that can execute
// immediately before (or after) instruction `at`, without another sink in between.
func neighbourSinks(at ssa.Instruction, forward bool, isSink func(ssa.Instruction) (ssa.Value, bool)) []ssa.Value {
	var out []ssa.Value
	type pos struct {
		b *ssa.BasicBlock
		i int
	}
	seen := map[*ssa.BasicBlock]bool{}
	var walk func(b *ssa.BasicBlock, i int)
	walk = func(b *ssa.BasicBlock, i int) {
		if forward {
			for ; i < len(b.Instrs); i++ {
				if v, ok := isSink(b.Instrs[i]); ok {
					out = append(out, v)
					return
				}
			}
			for _, s := range b.Succs {
				if !seen[s] {
					seen[s] = true
					walk(s, 0)
				}
			}
		} else {
			for ; i >= 0; i-- {
				if v, ok := isSink(b.Instrs[i]); ok {
					out = append(out, v)
					return
				}
			}
			for _, p := range b.Preds {
				if !seen[p] {
					seen[p] = true
					walk(p, len(p.Instrs)-1)
				}
			}
		}
	}
	idx := core.InstrIndex(at)
	if forward {
		walk(at.Block(), idx+1)
	} else {
		walk(at.Block(), idx-1)
	}
	return out
}
