package props

import (
	"fmt"
	"go/constant"
	"go/token"
	"sort"
	"strings"

	"golang.org/x/tools/go/ssa"

	"shverif/core"
)

func init() {
	Register(&Property{
		ID:   "C10",
		Pkgs: []string{"./internal/agent", "./internal/sharding", "./internal/format", "./internal/data_model", "./internal/aggregator"},
		Run:  runC10,
		Mutants: []Mutant{
			{Name: "shard-overflow-check-dropped", File: "internal/agent/agent.go", Rule: "C10-R1",
				Old: "	if !shard1ok || shardNum >= uint32(len(s.Shards)) {", New: "	if !shard1ok {"},
			{Name: "secondary-may-equal-primary", File: "internal/agent/agent.go", Rule: "C10-R1",
				Old: "		if shardNum2 < uint32(len(s.Shards)) && shardNum2 != shardNum {", New: "		if shardNum2 < uint32(len(s.Shards)) {"},
			{Name: "secondary-bound-off-by-one", File: "internal/agent/agent.go", Rule: "C10-R1",
				Old: "		if shardNum2 < uint32(len(s.Shards)) && shardNum2 != shardNum {", New: "		if shardNum2 <= uint32(len(s.Shards)) && shardNum2 != shardNum {"},
			{Name: "agent-fixed-key-not-decremented", File: "internal/sharding/sharding.go", Rule: "C10-R2",
				Old: "		return meta.ShardFixedKey - 1, true", New: "		return meta.ShardFixedKey, true"},
			{Name: "api-metric-id-signed-modulo", File: "internal/format/format.go", Rule: "C10-R2",
				Old: "		return int(uint32(m.MetricID) % uint32(numShards))", New: "		return int(m.MetricID) % numShards"},
			{Name: "api-reports-tags-hash-sharded", File: "internal/format/format.go", Rule: "C10-R2",
				Old: "	case ShardFixed, ShardByMetricID:\n		return true", New: "	case ShardFixed, ShardByMetricID, ShardByTagsHash:\n		return true"},
			{Name: "hash-includes-timestamp", File: "internal/data_model/bucket.go", Rule: "C10-R3",
				Old: "	return scratch, xxh3.Hash(scratch[4:]) // skip timestamp in first 4 bytes", New: "	return scratch, xxh3.Hash(scratch)"},
			{Name: "timestamp-moved-in-key-layout", File: "internal/data_model/bucket.go", Rule: "C10-R3",
				Old: "	binary.LittleEndian.PutUint32(newKey[0:], k.Timestamp)\n	binary.LittleEndian.PutUint32(newKey[4:], uint32(k.Metric))",
				New: "	binary.LittleEndian.PutUint32(newKey[4:], k.Timestamp)\n	binary.LittleEndian.PutUint32(newKey[0:], uint32(k.Metric))"},
			{Name: "shard-by-metric-uses-timestamp", File: "internal/sharding/sharding.go", Rule: "C10-R3",
				Old: "		shard := uint32(key.Metric) % shardByMetricCount\n", New: "		shard := (uint32(key.Metric) + key.Timestamp) % shardByMetricCount\n"},
			{Name: "spare-equals-primary", File: "internal/agent/agent.go", Rule: "C10-R4",
				Old: "	replicaShift = int((timestamp + 1 + timestamp%2) % 3)", New: "	replicaShift = int((timestamp + 3) % 3)"},
			{Name: "spare-always-next-replica", File: "internal/agent/agent.go", Rule: "C10-R4",
				Old: "	replicaShift = int((timestamp + 1 + timestamp%2) % 3)", New: "	replicaShift = int((timestamp + 1) % 3)"},
			{Name: "primary-index-wrong-stride", File: "internal/agent/agent.go", Rule: "C10-R4",
				Old: "	replicaShift := int(timestamp % 3)\n	shardReplica = s.ShardReplicas[shardNum*3+replicaShift]", New: "	replicaShift := int(timestamp % 3)\n	shardReplica = s.ShardReplicas[shardNum*2+replicaShift]"},
			{Name: "ticker-owner-test-off-by-one", File: "internal/aggregator/aggregator.go", Rule: "C10-R5",
				Old: "			if aggBucket.time%3 != uint32(a.replicaKey-1) { // must be empty", New: "			if aggBucket.time%3 != uint32(a.replicaKey) { // must be empty"},
			{Name: "handler-files-into-unrounded-second", File: "internal/aggregator/aggregator_handlers.go", Rule: "C10-R5",
				Old: "		aggBucket = a.recentBuckets[roundedToOurTime-oldestTime]\n		if a.config.SimulateRandomErrors > 0", New: "		aggBucket = a.recentBuckets[args.Time-oldestTime]\n		if a.config.SimulateRandomErrors > 0"},
			{Name: "recent-late-check-dropped", File: "internal/aggregator/aggregator_handlers.go", Rule: "C10-R5",
				Old: "		if roundedToOurTime < oldestTime {\n			a.mu.Unlock()\n			a.sh2.AddValueCounterHostAERA(nowUnix, format.BuiltinMetricMetaTimingErrors,\n				[]int32{0, format.TagValueIDTimingLateRecent},\n				float64(newestTime)-float64(args.Time), 1, hostTag, aera)\n			// agent should resend via historic conveyor\n			return \"bucket time is too far in the past for recent conveyor\", nil, false\n		}\n",
				New: ""},
			{Name: "historic-keyed-by-rounded-time", File: "internal/aggregator/aggregator_handlers.go", Rule: "C10-R5",
				Old: "				a.historicBuckets[args.Time] = aggBucket", New: "				a.historicBuckets[roundedToOurTime] = aggBucket"},
		},
	})
}

const (
	tyAgent   = "internal/agent.Agent"
	tyAgg     = "internal/aggregator.Aggregator"
	tyAggBkt  = "internal/aggregator.aggregatorBucket"
	fnShardFn = "internal/sharding.Shard"
	fnReplica = "internal/agent.(*Agent).getShardReplicaForSecond"
)

func runC10(c *core.Check) {
	c.Decides = "(R1) every computed index into Agent.Shards is established below len(Shards) on the path that computes it, and Agent.shard returns a secondary shard only under index2 != primary index; " +
		"(R2) the decision tables of sharding.Shard (agent side) and format.MetricMetaValue.Shard (API side) return the same expression, with key.Metric ≡ meta.MetricID, for exactly the cases Sharded() reports " +
		"(fixed key → key-1, fixed_shard → ShardNum, by metric id → uint32(id) % n); (R3) Key.Timestamp is read on the way from Agent.shard to the shard number only by Key.MarshalAppend, which writes it at bytes [0,4) of the key, " +
		"and Key.XXHash hashes that marshalling from byte 4 on; (R4) in getShardReplicaForSecond both replica indices are shard*3 + e(timestamp) with e evaluated over timestamp mod 6 (residue domain, no code executed): " +
		"primary and spare always differ, lie in {0,1,2}, and for each primary the spare takes both other replicas; the spare is consulted only when the primary is not alive; " +
		"(R5) the aggregator's ownership test x % 3 == uint32(replicaKey-1) is the same expression (same modulus as the agent's primary choice) in handleSendSourceBucket, handleSendKeepAliveAny and goTicker; handler indices into recentBuckets are " +
		"(value rounded up by that test, starting at args.Time / oldest time, +1 per step) - oldest time, in handleSendSourceBucket under the not-too-new and not-too-old guards; goTicker hands a bucket to the inserter only under the test; historic buckets are keyed by args.Time."
	c.NotDecided = "the hash-by-tags strategy's uniformity; that key.Metric really equals meta.MetricID at every caller (alias assumed by R2); that Shards is non-empty (constant index 0); timestamps within 2 seconds of 2^32 (R4's arithmetic is exact only without uint32 wrap-around); " +
		"that recentBuckets is long enough for the keep-alive index (at most oldest+2); the window arithmetic of 'inserted at most two seconds later' beyond the +1-until-owned loop shape."

	c10ShardIndex(c)
	c10Tables(c)
	c10Timestamp(c)
	mod := c10Replica(c)
	c10Aggregator(c, mod)
	debugObs(c)
}

// ---- R1 ---------------------------------------------------------------------------------

// lenOfField matches (a conversion of) len(load typ.field).
func lenOfField(v ssa.Value, typ, field string) bool {
	call, ok := stripConv(v).(*ssa.Call)
	if !ok || core.CalleeName(&call.Call) != "builtin len" {
		return false
	}
	_, is := fieldLoad(call.Call.Args[0], typ, field)
	return is
}

func c10ShardIndex(c *core.Check) {
	const rule = "C10-R1"
	c.Rule(rule, "K1 guard-dominance", 3, "every non-constant index into Agent.Shards is below len(Shards): the guard idx < len(s.Shards) holds at the index, or for a merged value on each incoming edge that carries a computed value; the secondary shard is returned only under idx2 != primary idx")
	below := func(idx ssa.Value) func(core.Lit) bool {
		return func(l core.Lit) bool {
			return l.Pol && l.Op == token.LSS && l.X == idx && lenOfField(l.Y, tyAgent, "Shards")
		}
	}
	var bounded func(idx ssa.Value, at *ssa.BasicBlock) (bool, string)
	bounded = func(idx ssa.Value, at *ssa.BasicBlock) (bool, string) {
		if _, isC := constInt64(idx); isC {
			return true, "constant"
		}
		if _, ok := litOn(at, below(idx)); ok {
			return true, "idx < len(Shards) holds here"
		}
		if phi, ok := idx.(*ssa.Phi); ok {
			for i, e := range phi.Edges {
				if _, isC := constInt64(e); isC {
					continue
				}
				pred := phi.Block().Preds[i]
				_, okP := litOn(pred, below(e))
				if el, has := edgeLiteral(pred, phi.Block()); has && below(e)(el) {
					okP = true
				}
				if !okP {
					return false, "the value " + core.Expr(e) + " merged into the index is not established below len(Shards) on its incoming edge"
				}
			}
			return true, "every computed value merged into the index is below len(Shards)"
		}
		return false, "no guard idx < len(Shards) dominates the index " + core.Expr(idx)
	}
	cnt := map[string]int{}
	for _, fn := range c.Prog.Funcs() {
		allInstrs(fn, func(in ssa.Instruction) {
			ia, ok := in.(*ssa.IndexAddr)
			if !ok {
				return
			}
			if _, is := fieldLoad(ia.X, tyAgent, "Shards"); !is {
				return
			}
			if _, isC := constInt64(ia.Index); isC {
				return // constant index: not a routing decision
			}
			if rangeIdiom(ia.Index) {
				return // for i := range s.Shards
			}
			name := core.FuncName(fn)
			cnt[name]++
			okB, how := bounded(ia.Index, ia.Block())
			c.Require(okB, rule, fmt.Sprintf("%s/Shards-index#%d", name, cnt[name]), ia.Pos(), how,
				"Agent.Shards is indexed with a computed shard number that is not checked against the configured shard count: "+how)
		})
	}
	if fn := need(c, rule, fnAgentShard); fn != nil {
		for i, r := range realReturns(fn) {
			vals := core.ReturnedValues(r)
			key := fmt.Sprintf("%s/return#%d/secondary-differs", fnAgentShard, i+1)
			var primIdx ssa.Value
			if u, ok := vals[0].(*ssa.UnOp); ok && u.Op == token.MUL {
				if ia, isIA := u.X.(*ssa.IndexAddr); isIA {
					primIdx = ia.Index
				}
			}
			if primIdx == nil {
				c.Undecided(rule, key, r.Pos(), "the primary shard returned is not an element of Agent.Shards")
				continue
			}
			edges := []ssa.Value{vals[2]}
			var preds []*ssa.BasicBlock
			if phi, ok := vals[2].(*ssa.Phi); ok {
				edges, preds = phi.Edges, phi.Block().Preds
			}
			okAll, why := true, ""
			for j, e := range edges {
				if isNilConst(e) {
					continue
				}
				u, ok := e.(*ssa.UnOp)
				if !ok {
					okAll, why = false, "secondary shard "+core.Expr(e)+" is not an element of Agent.Shards"
					continue
				}
				ia, isIA := u.X.(*ssa.IndexAddr)
				if !isIA {
					okAll, why = false, "secondary shard "+core.Expr(e)+" is not an element of Agent.Shards"
					continue
				}
				differs := func(l core.Lit) bool {
					return !l.Pol && l.Op == token.EQL && ((l.X == ia.Index && l.Y == primIdx) || (l.Y == ia.Index && l.X == primIdx))
				}
				b := u.Block()
				if preds != nil {
					b = preds[j]
				}
				if _, ok := litOn(b, differs); !ok {
					okAll, why = false, "the secondary shard "+core.Expr(e)+" is returned without the guard index2 != primary index ("+core.Expr(primIdx)+"): the event would be counted twice in the same shard"
				}
			}
			c.Require(okAll, rule, key, r.Pos(), "secondary shard only when its index differs from the primary's", why)
		}
	}
}

// rangeIdiom recognises the go/ssa lowering of `for i := range x`: phi(-1 | i)+1.
func rangeIdiom(idx ssa.Value) bool {
	add, ok := idx.(*ssa.BinOp)
	if !ok || add.Op != token.ADD {
		return false
	}
	phi, isPhi := add.X.(*ssa.Phi)
	k, isC := constInt64(add.Y)
	if !isPhi || !isC || k != 1 || len(phi.Edges) != 2 {
		return false
	}
	for i, e := range phi.Edges {
		if k0, isK := constInt64(e); isK && k0 == -1 && phi.Edges[1-i] == ssa.Value(add) {
			return true
		}
	}
	return false
}

// ---- R2 ---------------------------------------------------------------------------------

// c10Shape renders a returned shard expression canonically: fields of the metric
// description as meta.F, key.Metric as meta.MetricID (alias), the shard-count
// parameter as n, conversions to unsigned 32 bit kept, other conversions dropped.
func c10Shape(v ssa.Value, depth int) string {
	if depth > 8 {
		return "…"
	}
	switch x := v.(type) {
	case *ssa.Const:
		if x.Value == nil {
			return "nil"
		}
		return x.Value.String()
	case *ssa.Parameter:
		if _, _, ok := core.IntKind(x.Type()); ok {
			return "n"
		}
	case *ssa.Convert:
		inner := c10Shape(x.X, depth+1)
		if inner == "n" {
			return "n"
		}
		tb, ts, ok1 := core.IntKind(x.Type())
		_, fs, ok2 := core.IntKind(x.X.Type())
		if ok1 && ok2 && !ts && fs && tb == 32 {
			return "u32(" + inner + ")"
		}
		return inner
	case *ssa.ChangeType:
		return c10Shape(x.X, depth+1)
	case *ssa.BinOp:
		return "(" + c10Shape(x.X, depth+1) + " " + x.Op.String() + " " + c10Shape(x.Y, depth+1) + ")"
	case *ssa.UnOp:
		if x.Op == token.MUL {
			if fa, ok := x.X.(*ssa.FieldAddr); ok {
				if core.IsFieldU(fa, tyKey, "Metric") {
					return "meta.MetricID"
				}
				if n, isN := namedOf(fa.X.Type()); isN && core.TypeName(n) == tyMeta {
					return "meta." + fieldNameOf(fa)
				}
			}
		}
	case *ssa.Call:
		return "call " + core.CalleeName(&x.Call)
	}
	return core.Expr(v)
}

// c10Case renders the decision-list case a block belongs to, from the literals
// about meta.ShardFixedKey and meta.ShardStrategy on its dominator chain.
func c10Case(b *ssa.BasicBlock) []string {
	isMetaField := func(v ssa.Value, f string) bool {
		fa, ok := fieldLoad(v, tyMeta, f)
		return ok && fa != nil
	}
	one := func(l core.Lit) (string, bool) {
		if l.Op == token.LSS {
			if k, isC := constInt64(l.X); isC && k == 0 && isMetaField(l.Y, "ShardFixedKey") {
				if l.Pol {
					return "fixedkey>0", true
				}
				return "!fixedkey>0", true
			}
		}
		if l.Op == token.EQL && isMetaField(l.X, "ShardStrategy") {
			if k, isC := l.Y.(*ssa.Const); isC && k.Value != nil && k.Value.Kind() == constant.String {
				s := "strategy=" + constant.StringVal(k.Value)
				if l.Pol {
					return s, true
				}
				return "!" + s, true
			}
		}
		return "", false
	}
	// one key per alternative of the innermost disjunction; literals of single-alternative guards are shared
	var shared []string
	var alts []string
	for _, g := range core.FactsL(b) {
		if len(g.Alts) == 1 {
			if s, ok := one(g.Alts[0]); ok {
				shared = append(shared, s)
			}
			continue
		}
		if alts == nil {
			for _, l := range g.Alts {
				if s, ok := one(l); ok {
					alts = append(alts, s)
				}
			}
		}
	}
	norm := func(lits []string) string {
		pos, fixed := "", ""
		var neg []string
		for _, s := range lits {
			switch {
			case s == "fixedkey>0" || s == "!fixedkey>0":
				fixed = s
			case strings.HasPrefix(s, "strategy="):
				pos = s
			case strings.HasPrefix(s, "!strategy="):
				neg = append(neg, s)
			}
		}
		if fixed == "fixedkey>0" {
			return fixed
		}
		if pos != "" {
			return strings.TrimSpace(fixed + " " + pos)
		}
		sort.Strings(neg)
		return strings.TrimSpace(fixed + " default(" + strings.Join(neg, ",") + ")")
	}
	if len(alts) == 0 {
		return []string{norm(shared)}
	}
	var out []string
	for _, a := range alts {
		out = append(out, norm(append([]string{a}, shared...)))
	}
	return out
}

func c10Tables(c *core.Check) {
	const rule = "C10-R2"
	c.Rule(rule, "K8/K5 sibling decision tables", 3, "for every case in which MetricMetaValue.Sharded() returns true, MetricMetaValue.Shard (API) and sharding.Shard (agent) have that case and return the same canonical expression; the API returns -1 exactly in the cases Sharded() reports false")
	agent := need(c, rule, fnShardFn)
	api := need(c, rule, "internal/format.(*MetricMetaValue).Shard")
	sharded := need(c, rule, "internal/format.(*MetricMetaValue).Sharded")
	if agent == nil || api == nil || sharded == nil {
		return
	}
	table := func(fn *ssa.Function, res int) map[string]string {
		t := map[string]string{}
		for _, r := range realReturns(fn) {
			shape := c10Shape(core.ReturnedValues(r)[res], 0)
			for _, k := range c10Case(r.Block()) {
				if old, dup := t[k]; dup && old != shape {
					shape = old + " | " + shape
				}
				t[k] = shape
			}
		}
		return t
	}
	agentT, apiT := table(agent, 0), table(api, 0)
	shardedT := map[string]string{}
	for _, r := range realReturns(sharded) {
		if _, nilRecv := litOn(r.Block(), func(l core.Lit) bool {
			return l.Pol && l.Op == token.EQL && l.X == ssa.Value(sharded.Params[0]) && isNilConst(l.Y)
		}); nilRecv {
			continue
		}
		for _, k := range c10Case(r.Block()) {
			shardedT[k] = c10Shape(core.ReturnedValues(r)[0], 0)
		}
	}
	c.Note("C10-R2 tables: agent=%v api=%v sharded=%v", agentT, apiT, shardedT)
	n := 0
	for _, k := range core.SortedKeys(shardedT) {
		isDefault := strings.Contains(k, "default(")
		switch shardedT[k] {
		case "true":
			n++
			a, okA := agentT[k]
			p, okP := apiT[k]
			c.Require(okA && okP && a == p && p != "-1", rule, "case["+k+"]", api.Pos(), "agent and API both compute "+p,
				fmt.Sprintf("Sharded() reports the case %q as sharded, but the agent computes %q and the API %q (missing = no such case): the API would read the metric from a shard the agents do not write it to", k, a, p))
		case "false":
			if isDefault {
				// default of Sharded(): the API's default must be -1
				for ak, p := range apiT {
					if strings.Contains(ak, "default(") {
						c.Require(p == "-1", rule, "case[default]", api.Pos(), "API reports no fixed shard outside the sharded cases", "MetricMetaValue.Shard returns "+p+" in its default case although Sharded() is false there")
					}
				}
				continue
			}
			if p, okP := apiT[k]; okP && p != "-1" {
				c.Fail(rule, "case["+k+"]", api.Pos(), "Sharded() is false for "+k+" but MetricMetaValue.Shard returns "+p)
			}
		default:
			c.Undecided(rule, "case["+k+"]", sharded.Pos(), "Sharded() returns a non-constant "+shardedT[k])
		}
	}
	// every non-default API case must be one Sharded() knows
	for _, k := range core.SortedKeys(apiT) {
		if strings.Contains(k, "default(") || apiT[k] == "-1" {
			continue
		}
		if shardedT[k] != "true" {
			c.Fail(rule, "api-case["+k+"]", api.Pos(), "MetricMetaValue.Shard computes a shard for "+k+" but Sharded() does not report that case as sharded")
		}
	}
	if n == 0 {
		c.Undecided(rule, "sharded-cases", sharded.Pos(), "Sharded() reports no sharded case: the decision table was not recognised")
	}
	// agent side reports success (second result true) in those cases
	for _, r := range realReturns(agent) {
		for _, k := range c10Case(r.Block()) {
			if shardedT[k] == "true" && !core.ConstBool(core.ReturnedValues(r)[1], true) {
				c.Fail(rule, "agent-ok["+k+"]", r.Pos(), "sharding.Shard does not report success for the sharded case "+k)
			}
		}
	}
}

// ---- R3 ---------------------------------------------------------------------------------

func c10Timestamp(c *core.Check) {
	const rule = "C10-R3"
	c.Rule(rule, "K3+K7", 3, "functions statically reachable from Agent.shard read Key.Timestamp only in Key.MarshalAppend, only as the value of PutUint32(newKey[0:], ·) where newKey starts at the appended region; Key.XXHash marshals into scratch[:0] and hashes result[4:]")
	root := need(c, rule, fnAgentShard)
	if root == nil {
		return
	}
	// static call closure (module functions with bodies)
	reach := map[*ssa.Function]bool{root: true}
	work := []*ssa.Function{root}
	for len(work) > 0 {
		f := work[0]
		work = work[1:]
		for _, s := range core.Calls(f) {
			if callee, ok := s.Common().Value.(*ssa.Function); ok && !s.Common().IsInvoke() && len(callee.Blocks) > 0 && !reach[callee] {
				reach[callee] = true
				work = append(work, callee)
			}
		}
	}
	var fns []*ssa.Function
	for f := range reach {
		fns = append(fns, f)
	}
	sort.Slice(fns, func(i, j int) bool { return core.FuncName(fns[i]) < core.FuncName(fns[j]) })
	marshalName := "internal/data_model.(*Key).MarshalAppend"
	inMarshal := 0
	for _, f := range fns {
		c.Seen(core.FuncName(f))
		for i, rd := range core.FieldReads([]*ssa.Function{f}, tyKey, "Timestamp") {
			if core.FuncName(f) == marshalName {
				inMarshal++
				continue
			}
			c.Fail(rule, fmt.Sprintf("%s/reads-timestamp#%d", core.FuncName(f), i+1), rd.Pos(), "Key.Timestamp is read on the way to the shard number: the shard would depend on the event time")
		}
	}
	c.Require(reach[c.Prog.Func(marshalName)] || c.Prog.Func(marshalName) == nil, rule, "closure-contains-MarshalAppend", root.Pos(), fmt.Sprintf("%d functions reachable from Agent.shard inspected", len(fns)), "Key.MarshalAppend is not reachable from Agent.shard any more: update the rule")
	if fn := need(c, rule, marshalName); fn != nil {
		ok, why := inMarshal >= 0, ""
		reads := core.FieldReads([]*ssa.Function{fn}, tyKey, "Timestamp")
		if len(reads) != 1 {
			ok, why = false, fmt.Sprintf("expected exactly one read of Key.Timestamp, found %d", len(reads))
		} else {
			ld := reads[0].(ssa.Value)
			refs := core.Referrers(ld)
			if len(refs) != 1 {
				ok, why = false, "the timestamp read is used more than once"
			} else if call, isCall := refs[0].(*ssa.Call); !isCall || core.CalleeName(&call.Call) != "encoding/binary.(littleEndian).PutUint32" || call.Call.Args[2] != ld {
				ok, why = false, "the timestamp is not written with binary.LittleEndian.PutUint32"
			} else {
				// destination: newKey[0:], newKey = updatedBuffer[len(buffer):], updatedBuffer = append(buffer, …)
				dst, isSl := call.Call.Args[1].(*ssa.Slice)
				lo0 := isSl && (dst.Low == nil || func() bool { k, c := constInt64(dst.Low); return c && k == 0 }())
				if !lo0 {
					ok, why = false, "the timestamp is not written at offset 0 of the new key"
				} else if nk, isNK := dst.X.(*ssa.Slice); !isNK || nk.Low == nil {
					ok, why = false, "the new key is not the region appended to the buffer"
				} else {
					app, isApp := nk.X.(*ssa.Call)
					ln, isLen := nk.Low.(*ssa.Call)
					if !isApp || !isLen || core.CalleeName(&app.Call) != "builtin append" || core.CalleeName(&ln.Call) != "builtin len" || ln.Call.Args[0] != app.Call.Args[0] || app.Call.Args[0] != ssa.Value(fn.Params[1]) {
						ok, why = false, "the new key does not start at len(buffer) of append(buffer, …)"
					}
				}
			}
		}
		c.Require(ok, rule, marshalName+"/timestamp-at-0..4", fn.Pos(), "Timestamp occupies exactly bytes [0,4) of the marshalled key", "Key.MarshalAppend: "+why+" — XXHash's skip of the first 4 bytes no longer removes exactly the timestamp")
	}
	if fn := need(c, rule, "internal/data_model.(*Key).XXHash"); fn != nil {
		ok, why := false, "expected MarshalAppend(scratch[:0]) followed by xxh3.Hash(result[4:])"
		m := core.CallsTo(fn, marshalName)
		h := core.CallsTo(fn, "github.com/zeebo/xxh3.Hash")
		if len(m) == 1 && len(h) == 1 && m[0].Arg(0) == ssa.Value(fn.Params[0]) {
			buf, isSl := m[0].Arg(1).(*ssa.Slice)
			hi0 := isSl && buf.Low == nil && func() bool { k, c := constInt64(buf.High); return buf.High != nil && c && k == 0 }()
			arg, isArg := h[0].Arg(0).(*ssa.Slice)
			if !hi0 {
				why = "the key is not marshalled into an empty prefix (scratch[:0]): its first byte is not at offset 0"
			} else if !isArg || arg.High != nil || arg.Low == nil {
				why = "the hash input is not result[k:]"
			} else if k, isC := constInt64(arg.Low); !isC || k != 4 {
				why = "the hash does not skip exactly the 4 timestamp bytes"
			} else if ex, isEx := arg.X.(*ssa.Extract); !isEx || ex.Tuple != m[0].Value() || ex.Index != 0 {
				why = "the hash input is not the marshalled key"
			} else if rets := realReturns(fn); len(rets) != 1 || core.ReturnedValues(rets[0])[1] != h[0].Value() {
				why = "the value returned is not that hash"
			} else {
				ok = true
			}
		}
		c.Require(ok, rule, "Key.XXHash/skips-timestamp", fn.Pos(), "hash of the marshalled key from byte 4 on", "Key.XXHash: "+why)
	}
}

// ---- R4 ---------------------------------------------------------------------------------

// c10Replica returns the replica modulus (3) read off the primary index expression.
func c10Replica(c *core.Check) int64 {
	const rule = "C10-R4"
	c.Rule(rule, "K13a residue domain", 4, "getShardReplicaForSecond: both ShardReplicas indices are shardNum*R + int(e(timestamp)) with e ∈ [0,R); over timestamp mod lcm of the moduli (6): primary ≠ spare, and for every primary value the spare values are exactly the other replicas; the spare is returned only when the primary is not alive")
	fn := need(c, rule, fnReplica)
	if fn == nil || len(fn.Params) < 3 {
		return 0
	}
	shardNum, ts := ssa.Value(fn.Params[1]), ssa.Value(fn.Params[2])
	type choice struct {
		ia    *ssa.IndexAddr
		shift ssa.Value
		spare bool
		ret   *ssa.Return
	}
	var picks []choice
	var stride int64
	for _, r := range realReturns(fn) {
		vals := core.ReturnedValues(r)
		if isNilConst(vals[0]) {
			continue
		}
		u, ok := vals[0].(*ssa.UnOp)
		if !ok {
			c.Undecided(rule, fnReplica+"/return", r.Pos(), "returned replica is not an element of ShardReplicas")
			return 0
		}
		ia, isIA := u.X.(*ssa.IndexAddr)
		if !isIA {
			c.Undecided(rule, fnReplica+"/return", r.Pos(), "returned replica is not an element of ShardReplicas")
			return 0
		}
		if _, is := fieldLoad(ia.X, tyAgent, "ShardReplicas"); !is {
			c.Undecided(rule, fnReplica+"/return", r.Pos(), "returned replica is not an element of Agent.ShardReplicas")
			return 0
		}
		add, isAdd := ia.Index.(*ssa.BinOp)
		var shift ssa.Value
		if isAdd && add.Op == token.ADD {
			for _, pair := range [][2]ssa.Value{{add.X, add.Y}, {add.Y, add.X}} {
				if mul, isMul := pair[0].(*ssa.BinOp); isMul && mul.Op == token.MUL {
					var k int64
					var isC bool
					if mul.X == shardNum {
						k, isC = constInt64(mul.Y)
					} else if mul.Y == shardNum {
						k, isC = constInt64(mul.X)
					}
					if isC && k > 0 {
						if stride != 0 && stride != k {
							c.Fail(rule, fnReplica+"/stride", ia.Pos(), fmt.Sprintf("primary and spare use different replica counts per shard (%d and %d)", stride, k))
							return 0
						}
						stride, shift = k, pair[1]
					}
				}
			}
		}
		if shift == nil {
			c.Fail(rule, fnReplica+"/index-shape", ia.Pos(), "replica index "+core.Expr(ia.Index)+" is not shardNum*R + shift(timestamp): replicas of different shards would be mixed")
			return 0
		}
		isSpare := core.ConstBool(vals[1], true)
		if !isSpare && !core.ConstBool(vals[1], false) {
			c.Undecided(rule, fnReplica+"/spare-flag", r.Pos(), "spare flag is not constant")
			return 0
		}
		picks = append(picks, choice{ia, shift, isSpare, r})
	}
	var prim, spare *choice
	for i := range picks {
		if picks[i].spare {
			spare = &picks[i]
		} else {
			prim = &picks[i]
		}
	}
	if len(picks) != 2 || prim == nil || spare == nil {
		c.Undecided(rule, fnReplica+"/shape", fn.Pos(), fmt.Sprintf("expected one primary and one spare return, found %d replica returns", len(picks)))
		return 0
	}
	// period
	p := int64(1)
	for _, ch := range []*choice{prim, spare} {
		pp, err := core.ResiduePeriod(ch.shift, ts)
		if err != nil {
			c.Undecided(rule, fnReplica+"/fragment", ch.ia.Pos(), "replica shift is outside the residue fragment: "+err.Error())
			return 0
		}
		p = p / gcdI(p, pp) * pp
	}
	pt, err1 := core.ResidueEval(prim.shift, ts, p)
	st, err2 := core.ResidueEval(spare.shift, ts, p)
	if err1 != nil || err2 != nil {
		c.Undecided(rule, fnReplica+"/fragment", fn.Pos(), fmt.Sprintf("cannot evaluate the replica shifts over Z/%d: %v %v", p, err1, err2))
		return 0
	}
	var rows []string
	okRange, okDiff := true, true
	sparesOf := map[int64]map[int64]bool{}
	for r := int64(0); r < p; r++ {
		a, b := pt.Vals[r], st.Vals[r]
		rows = append(rows, fmt.Sprintf("t≡%d: primary %d spare %d", r, a.V, b.V))
		if !a.Exact || !b.Exact || a.V < 0 || a.V >= stride || b.V < 0 || b.V >= stride {
			okRange = false
		}
		if a.V == b.V {
			okDiff = false
		}
		if sparesOf[a.V] == nil {
			sparesOf[a.V] = map[int64]bool{}
		}
		sparesOf[a.V][b.V] = true
	}
	slack := pt.Slack
	if st.Slack > slack {
		slack = st.Slack
	}
	tbl := strings.Join(rows, "; ") + fmt.Sprintf(" (valid for timestamps t with t+%d < 2^32)", slack)
	c.Require(okRange, rule, fnReplica+"/shift-in-range", fn.Pos(), fmt.Sprintf("both shifts lie in [0,%d): %s", stride, tbl),
		fmt.Sprintf("a replica shift can leave [0,%d): the index would address a replica of another shard: %s", stride, tbl))
	c.Require(okDiff, rule, fnReplica+"/spare-differs", spare.ia.Pos(), "spare replica never equals the primary",
		"for some timestamps the spare replica is the primary itself (a second that failed on its primary is sent to the same dead replica): "+tbl)
	shares := len(sparesOf) == int(stride)
	for v, set := range sparesOf {
		want := int(stride) - 1
		if len(set) != want || set[v] {
			shares = false
		}
	}
	c.Require(shares, rule, fnReplica+"/spares-share", spare.ia.Pos(), "for each primary the spare takes every other replica",
		"the spare traffic of a primary is not spread over both remaining replicas: "+tbl)
	// spare only when the primary is not alive
	_, guarded := litOn(spare.ret.Block(), func(l core.Lit) bool {
		call, ok := l.Cond.(*ssa.Call)
		if !ok || l.Pol || !strings.HasSuffix(core.CalleeName(&call.Call), ".Load") {
			return false
		}
		fa, isFA := call.Call.Args[0].(*ssa.FieldAddr)
		if !isFA {
			return false
		}
		u, isLd := fa.X.(*ssa.UnOp)
		return isLd && u.X == ssa.Value(prim.ia)
	})
	c.Require(guarded, rule, fnReplica+"/spare-only-if-primary-dead", spare.ret.Pos(), "spare chosen only under !primary.alive", "the spare replica can be returned while the primary is alive: a second would have two inserting replicas")
	// the primary's modulus, for the cross-check with the aggregator
	if rem, ok := stripConv(prim.shift).(*ssa.BinOp); ok && rem.Op == token.REM && rem.X == ts {
		if m, isC := constInt64(rem.Y); isC {
			return m
		}
	}
	c.Undecided(rule, fnReplica+"/primary-form", prim.ia.Pos(), "primary shift is not timestamp % R")
	return 0
}

func gcdI(a, b int64) int64 {
	for b != 0 {
		a, b = b, a%b
	}
	return a
}

// ---- R5 ---------------------------------------------------------------------------------

// ownerTest recognises (x % M) == uint32(a.replicaKey - 1) and returns x and M.
func ownerTest(l core.Lit) (x ssa.Value, m int64, ok bool) {
	if l.Op != token.EQL {
		return nil, 0, false
	}
	match := func(lhs, rhs ssa.Value) (ssa.Value, int64, bool) {
		rem, isRem := lhs.(*ssa.BinOp)
		if !isRem || rem.Op != token.REM {
			return nil, 0, false
		}
		mod, isC := constInt64(rem.Y)
		conv, isConv := rhs.(*ssa.Convert)
		if !isC || !isConv {
			return nil, 0, false
		}
		sub, isSub := conv.X.(*ssa.BinOp)
		if !isSub || sub.Op != token.SUB {
			return nil, 0, false
		}
		one, isOne := constInt64(sub.Y)
		if _, isKey := fieldLoad(sub.X, tyAgg, "replicaKey"); !isKey || !isOne || one != 1 {
			return nil, 0, false
		}
		return rem.X, mod, true
	}
	if x, m, ok := match(l.X, l.Y); ok {
		return x, m, true
	}
	return match(l.Y, l.X)
}

func c10Aggregator(c *core.Check, agentMod int64) {
	const rule = "C10-R5"
	c.Rule(rule, "K7+K8+K1", 6, "the ownership test x%M == uint32(a.replicaKey-1), M equal to the agent's replica count, guards (a) every computed index into a.recentBuckets in handleSendSourceBucket/handleSendKeepAliveAny, whose index is (x - oldest time) with x the counter of the +1-until-owned loop started at args.Time resp. oldest time, (b) the hand-over of a bucket to bucketsToSend in goTicker (x = bucket.time); in handleSendSourceBucket the index is also under !(newest < x) and !(x < oldest); historic buckets are stored and looked up under args.Time")
	if agentMod == 0 {
		c.Undecided(rule, "agent-modulus", 0, "the agent's primary-replica modulus was not established (see C10-R4)")
	}
	isOldest := func(v ssa.Value) bool { // a.recentBuckets[0].time
		fa, ok := fieldLoad(v, tyAggBkt, "time")
		if !ok {
			return false
		}
		u, isLd := fa.X.(*ssa.UnOp)
		if !isLd {
			return false
		}
		ia, isIA := u.X.(*ssa.IndexAddr)
		if !isIA {
			return false
		}
		k, isC := constInt64(ia.Index)
		_, isRB := fieldLoad(ia.X, tyAgg, "recentBuckets")
		return isC && k == 0 && isRB
	}
	isNewest := func(v ssa.Value) bool { // a.recentBuckets[len-1].time
		fa, ok := fieldLoad(v, tyAggBkt, "time")
		if !ok {
			return false
		}
		u, isLd := fa.X.(*ssa.UnOp)
		if !isLd {
			return false
		}
		ia, isIA := u.X.(*ssa.IndexAddr)
		if !isIA {
			return false
		}
		sub, isSub := ia.Index.(*ssa.BinOp)
		_, isRB := fieldLoad(ia.X, tyAgg, "recentBuckets")
		if !isSub || sub.Op != token.SUB || !isRB {
			return false
		}
		k, isC := constInt64(sub.Y)
		return isC && k == 1 && lenOfField(sub.X, tyAgg, "recentBuckets")
	}
	isArgsTime := func(v ssa.Value) bool {
		u, ok := v.(*ssa.UnOp)
		if !ok || u.Op != token.MUL {
			return false
		}
		fa, isFA := u.X.(*ssa.FieldAddr)
		return isFA && fieldNameOf(fa) == "Time" && strings.Contains(core.TypeName(fa.X.Type()), "SendSourceBucket3")
	}
	handlers := []struct {
		name      string
		startArgs bool
		window    bool
	}{
		{"internal/aggregator.(*Aggregator).handleSendSourceBucket", true, true},
		{"internal/aggregator.(*Aggregator).handleSendKeepAliveAny", false, false},
	}
	for _, hd := range handlers {
		fn := need(c, rule, hd.name)
		if fn == nil {
			continue
		}
		n := 0
		for _, f := range core.WithAnon(fn) {
			allInstrs(f, func(in ssa.Instruction) {
				ia, ok := in.(*ssa.IndexAddr)
				if !ok {
					return
				}
				if _, isRB := fieldLoad(ia.X, tyAgg, "recentBuckets"); !isRB {
					return
				}
				if _, isC := constInt64(ia.Index); isC {
					return
				}
				if sub, isSub := ia.Index.(*ssa.BinOp); isSub && sub.Op == token.SUB && lenOfField(sub.X, tyAgg, "recentBuckets") {
					return // newest bucket: len-1
				}
				n++
				key := fmt.Sprintf("%s/recentBuckets-index#%d", hd.name, n)
				sub, isSub := ia.Index.(*ssa.BinOp)
				if !isSub || sub.Op != token.SUB || !isOldest(sub.Y) {
					c.Fail(rule, key, ia.Pos(), "index "+core.Expr(ia.Index)+" is not (second - oldest bucket time)")
					return
				}
				x := sub.X
				var why []string
				lit, owned := litOn(ia.Block(), func(l core.Lit) bool {
					lx, _, ok := ownerTest(l)
					return ok && l.Pol && lx == x
				})
				if !owned {
					why = append(why, "the second filed is not established to belong to this replica (x%3 == replicaKey-1)")
				} else if _, m, _ := ownerTest(lit); agentMod != 0 && m != agentMod {
					why = append(why, fmt.Sprintf("ownership modulus %d differs from the agent's replica count %d", m, agentMod))
				}
				// x is the loop counter: phi(start | x+1)
				phi, isPhi := x.(*ssa.Phi)
				okLoop := false
				if isPhi && len(phi.Edges) == 2 {
					for i, e := range phi.Edges {
						add, isAdd := phi.Edges[1-i].(*ssa.BinOp)
						if !isAdd || add.Op != token.ADD || add.X != x {
							continue
						}
						if k, isC := constInt64(add.Y); !isC || k != 1 {
							continue
						}
						if (hd.startArgs && isArgsTime(e)) || (!hd.startArgs && isOldest(e)) {
							okLoop = true
						}
					}
				}
				if !okLoop {
					start := "the oldest recent bucket time"
					if hd.startArgs {
						start = "args.Time"
					}
					why = append(why, "the second is not the counter of the round-up loop starting at "+start+" with step 1 (it may be more than 2 seconds away or earlier than the bucket's second)")
				}
				if hd.window {
					if _, ok := litOn(ia.Block(), func(l core.Lit) bool { return !l.Pol && l.Op == token.LSS && isNewest(l.X) && l.Y == x }); !ok {
						why = append(why, "not guarded by !(second > newest bucket time)")
					}
					if _, ok := litOn(ia.Block(), func(l core.Lit) bool { return !l.Pol && l.Op == token.LSS && l.X == x && isOldest(l.Y) }); !ok {
						why = append(why, "not guarded by !(second < oldest bucket time)")
					}
				}
				c.Require(len(why) == 0, rule, key, ia.Pos(), "own second, rounded up from the request time, inside the recent window",
					"recent bucket chosen wrongly: "+strings.Join(why, "; "))
			})
		}
		if n == 0 {
			c.Fail(rule, hd.name+"/recentBuckets-index", fn.Pos(), "no computed index into recentBuckets found (the handler does not file into the recent window any more?)")
		}
	}
	// historic buckets keyed by args.Time
	if fn := need(c, rule, handlers[0].name); fn != nil {
		n := 0
		for _, f := range core.WithAnon(fn) {
			allInstrs(f, func(in ssa.Instruction) {
				var keyV ssa.Value
				var pos token.Pos
				switch x := in.(type) {
				case *ssa.MapUpdate:
					if _, is := fieldLoad(x.Map, tyAgg, "historicBuckets"); is {
						keyV, pos = x.Key, x.Pos()
						// the bucket stored must be created for the same second
						if call, ok := x.Value.(*ssa.Call); ok && core.CalleeName(&call.Call) == "internal/aggregator.newAggregatorBucket" {
							if !isArgsTime(call.Call.Args[0]) {
								n++
								c.Fail(rule, fmt.Sprintf("%s/historic-bucket-time#%d", handlers[0].name, n), x.Pos(), "the historic bucket is created for "+core.Expr(call.Call.Args[0])+", not for args.Time")
							}
						}
					}
				case *ssa.Lookup:
					if _, is := fieldLoad(x.X, tyAgg, "historicBuckets"); is {
						keyV, pos = x.Index, x.Pos()
					}
				}
				if keyV == nil {
					return
				}
				n++
				c.Require(isArgsTime(keyV), rule, fmt.Sprintf("%s/historic-key#%d", handlers[0].name, n), pos, "historic bucket keyed by the request's own second",
					"historicBuckets is accessed with key "+core.Expr(keyV)+" instead of args.Time: seconds of different replicas would be merged into one historic bucket / inserted with the wrong time")
			})
		}
		if n == 0 {
			c.Fail(rule, handlers[0].name+"/historic-key", fn.Pos(), "no access to historicBuckets found in the handler")
		}
	}
	// goTicker: hand-over only of own seconds; nobody else sends on bucketsToSend
	tick := need(c, rule, "internal/aggregator.(*Aggregator).goTicker")
	nSends := 0
	for _, f := range c.Prog.FuncsIn("internal/aggregator") {
		allInstrs(f, func(in ssa.Instruction) {
			var val ssa.Value
			switch x := in.(type) {
			case *ssa.Send:
				if _, is := fieldLoad(x.Chan, tyAgg, "bucketsToSend"); is {
					val = x.X
				}
			case *ssa.Select:
				for _, st := range x.States {
					if st.Send != nil {
						if _, is := fieldLoad(st.Chan, tyAgg, "bucketsToSend"); is {
							val = st.Send
						}
					}
				}
			}
			if val == nil {
				return
			}
			nSends++
			key := fmt.Sprintf("%s/bucketsToSend#%d", core.FuncName(f), nSends)
			if f != tick {
				c.Fail(rule, key, in.Pos(), "a bucket is handed to the inserter outside goTicker: the ownership test is bypassed")
				return
			}
			lit, owned := litOn(in.Block(), func(l core.Lit) bool {
				lx, _, ok := ownerTest(l)
				if !ok || !l.Pol {
					return false
				}
				fa, isT := fieldLoad(lx, tyAggBkt, "time")
				return isT && fa.X == val
			})
			okMod := true
			if owned {
				if _, m, _ := ownerTest(lit); agentMod != 0 && m != agentMod {
					okMod = false
				}
			}
			c.Require(owned && okMod, rule, key, in.Pos(), "only seconds with time%3 == replicaKey-1 are inserted by this replica",
				"goTicker hands a bucket to the inserter without the ownership test bucket.time%M == uint32(replicaKey-1) (M = agent's replica count) on that bucket: a second would be inserted by the wrong replica or by none")
		})
	}
	if nSends == 0 {
		c.Fail(rule, "bucketsToSend/no-send", 0, "no send on Aggregator.bucketsToSend found")
	}
}
