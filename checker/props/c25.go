package props

import (
	"fmt"
	"go/token"

	"golang.org/x/tools/go/ssa"

	"shverif/core"
)

func init() {
	Register(&Property{
		ID:   "C25",
		Pkgs: []string{"./internal/api"},
		Run:  runC25,
		Mutants: []Mutant{
			{Name: "row-appended-although-key-present", File: "internal/api/table.go", Rule: "C25-R1",
				Old: "				if ix, ok = rowsIdx[key]; !ok {", New: "				if ix, ok = rowsIdx[key]; !ok || qIndex > 0 {"},
			{Name: "row-index-not-recorded", File: "internal/api/table.go", Rule: "C25-R1",
				Old: "					rowsIdx[key] = ix\n", New: ""},
			{Name: "key-tags-of-another-row", File: "internal/api/table.go", Rule: "C25-R1",
				Old: "					tsTags: rows[i].tsTags,\n				}\n				var ix int", New: "					tsTags: rows[0].tsTags,\n				}\n				var ix int"},
			{Name: "new-row-padded-once-too-often", File: "internal/api/table.go", Rule: "C25-R2",
				Old: "					for j := 0; j < qIndex; j++ {", New: "					for j := 0; j <= qIndex; j++ {"},
			{Name: "function-padding-inside-lod-loop", File: "internal/api/table.go", Rule: "C25-R2",
				Old: "			if hasMoreValues {\n				hasMore = true\n				break\n			}\n",
				New: "			if hasMoreValues {\n				hasMore = true\n				break\n			}\n			for _, ix := range rowsIdx {\n				if _, ok := used[ix]; ok {\n					delete(used, ix)\n				} else {\n					queryRows[ix].Data = append(queryRows[ix].Data, NaN())\n				}\n			}\n"},
			{Name: "value-not-marked-used", File: "internal/api/table.go", Rule: "C25-R2",
				Old: "				used[ix] = struct{}{}\n", New: ""},
			{Name: "descending-request-sorted-ascending", File: "internal/api/table.go", Rule: "C25-R3",
				Old: "		sort.Sort(sort.Reverse(queryRows))", New: "		sort.Sort(queryRows)"},
			{Name: "revert-fix-row-marker-shared-between-rows", File: "internal/api/table.go", Rule: "C25-R4",
				Old: "\t\t\trows, hasMoreValues := limitQueries(m, req.fromRow, req.toRow, req.fromEnd, req.numResults-rowsCount)\n\t\t\tfor i := 0; i < len(rows); i++ {\n\t\t\t\tif toTime < rows[i].time || rows[i].time < fromTime {\n\t\t\t\t\tcontinue\n\t\t\t\t}\n\t\t\t\trowsCount++\n\t\t\t\trowRepr := RowMarker{Time: rows[i].time} // must not share tags and skey with other rows, is kept in result\n",
				New: "\t\t\tvar rowRepr RowMarker\n\t\t\trows, hasMoreValues := limitQueries(m, req.fromRow, req.toRow, req.fromEnd, req.numResults-rowsCount)\n\t\t\tfor i := 0; i < len(rows); i++ {\n\t\t\t\tif toTime < rows[i].time || rows[i].time < fromTime {\n\t\t\t\t\tcontinue\n\t\t\t\t}\n\t\t\t\trowsCount++\n\t\t\t\trowRepr.Time = rows[i].time\n\t\t\t\trowRepr.Tags = rowRepr.Tags[:0]\n"},
			{Name: "unsorted-return-when-more-rows-exist", File: "internal/api/table.go", Rule: "C25-R3",
				Old: "			if hasMoreValues {\n				hasMore = true\n				break\n			}\n", New: "			if hasMoreValues {\n				return queryRows, true, nil\n			}\n"},
		},
	})
}

func runC25(c *core.Check) {
	c.Decides = "the bookkeeping of getTableFromLODs only: (R1) a row is appended to the result slice only under a failed lookup of its key in the index map, the key cell is filled from the time and tags " +
		"of the very row that is appended, and the index map is updated in the same block with that key and the row's position; the index map has no other writer; (R2) a new row is pre-padded by a " +
		"loop j = 0..qIndex-1 appending NaN() to that row's Data before anything else happens to it, every appendRowValues result is stored into a row whose index is marked in the `used` set in the same " +
		"block, and the per-function padding (range over the index map: delete from `used` or append NaN()) sits in the loop over requested functions but outside the loop over LODs, and no other NaN " +
		"padding of result rows exists; (R3) every non-error return is reached only through sort.Sort on the returned slice, wrapped in sort.Reverse exactly under req.fromEnd."
	c.NotDecided = "that each row ends up with exactly one column per function for all LOD splits and storage outputs (the pairing rules are necessary, not sufficient), the row window (fromRow/toRow), " +
		"the limit and the has-more flag (limitQueries/inRange), the comparison function used by sort."

	name := "internal/api.(*requestHandler).getTableFromLODs"
	fn := need(c, "C25-R1", name)
	c.Rule("C25-R1", "K1+K6+K7", 2, "result rows are appended only under !ok of rowsIdx[key]; key = (time, tags) of the appended row; rowsIdx[key] = len(rows) in the same block; rowsIdx has no other writer")
	c.Rule("C25-R2", "K6", 3, "new row pre-padded with qIndex NaNs; appendRowValues target marked in used; function padding once per function outside the LOD loop; no other NaN padding")
	c.Rule("C25-R3", "K6", 3, "sort.Sort (Reverse iff fromEnd) on the returned slice lies on every path to every non-error return")
	c.Rule("C25-R4", "K7 ownership", 1, "the row marker (time, tags, skey) stored with a result row is a variable created in the same iteration of the row loop: no cycle of the control flow graph contains the store without containing the variable's creation")
	if fn == nil {
		return
	}
	c25RowMarkerFresh(c, fn, name)

	// ---- the result slice ---------------------------------------------------------------
	var okRets []*ssa.Return
	for _, r := range core.Returns(fn) {
		if len(r.Block().Preds) == 0 && r.Block().Index != 0 {
			continue
		}
		if len(r.Results) == 3 && core.IsNil(r.Results[2]) {
			okRets = append(okRets, r)
		}
	}
	if len(okRets) == 0 {
		c.Undecided("C25-R1", name+"/returns", fn.Pos(), "no return with a nil error found")
		return
	}
	web := map[ssa.Value]bool{}
	var rowAppends []*ssa.Call
	var grow func(v ssa.Value)
	grow = func(v ssa.Value) {
		if v == nil || web[v] {
			return
		}
		web[v] = true
		switch x := v.(type) {
		case *ssa.Phi:
			for _, e := range x.Edges {
				grow(e)
			}
		case *ssa.ChangeType:
			grow(x.X)
		case *ssa.Convert:
			grow(x.X)
		case *ssa.Call:
			if core.CalleeName(&x.Call) == "builtin append" {
				rowAppends = append(rowAppends, x)
				grow(x.Call.Args[0])
			}
		}
	}
	for _, r := range okRets {
		grow(r.Results[0])
	}
	rowsElem := func(v ssa.Value) (idx ssa.Value, ok bool) { // v = &rows[idx] with rows in the web
		ia, isIA := v.(*ssa.IndexAddr)
		if !isIA || !web[ia.X] {
			return nil, false
		}
		return ia.Index, true
	}
	isNaNAppend := func(v ssa.Value) bool {
		call, ok := v.(*ssa.Call)
		if !ok || core.CalleeName(&call.Call) != "builtin append" {
			return false
		}
		els, ok := core.SliceLitElems(call.Call.Args[1])
		if !ok || len(els) != 1 {
			return false
		}
		nc, ok := els[0].(*ssa.Call)
		return ok && core.CalleeName(&nc.Call) == "internal/api.NaN"
	}
	sameElem := func(a, b ssa.Value) bool { // two addresses &s[i] of the same element
		x, ok1 := a.(*ssa.IndexAddr)
		y, ok2 := b.(*ssa.IndexAddr)
		return ok1 && ok2 && x.X == y.X && x.Index == y.Index
	}

	// ---- R1 -----------------------------------------------------------------------------
	var idxMap *ssa.MakeMap
	matchedUpdates := map[*ssa.MapUpdate]bool{}
	type newRow struct {
		app *ssa.Call
		pos ssa.Value // len(rows) before the append = index of the new row
	}
	var newRows []newRow
	for i, a := range rowAppends {
		key := fmt.Sprintf("%s/row-append#%d", name, i+1)
		b := a.Block()
		// (a) guard
		var lk *ssa.Lookup
		for _, l := range core.GuardLits(b) {
			ex, ok := l.Cond.(*ssa.Extract)
			if !ok || l.Pol || l.Op != 0 || ex.Index != 1 {
				continue
			}
			if x, ok := ex.Tuple.(*ssa.Lookup); ok && x.CommaOk {
				if _, isMap := x.X.(*ssa.MakeMap); isMap {
					lk = x
				}
			}
		}
		if lk == nil {
			c.Fail("C25-R1", key, a.Pos(), "a row is appended to the result without a failed lookup of its key in the index map dominating the append: duplicate (time, tags) rows; facts: "+core.FactsString(b))
			continue
		}
		m := lk.X.(*ssa.MakeMap)
		if idxMap != nil && idxMap != m {
			c.Undecided("C25-R1", key, a.Pos(), "two different index maps")
			continue
		}
		idxMap = m
		keyCell, _ := core.LoadAddr(lk.Index).(*ssa.Alloc)
		// (b) co-update in the same block, before the append
		var upd *ssa.MapUpdate
		for _, in := range b.Instrs {
			if in == ssa.Instruction(a) {
				break
			}
			if mu, ok := in.(*ssa.MapUpdate); ok && mu.Map == ssa.Value(m) {
				upd = mu
			}
		}
		why := ""
		switch {
		case keyCell == nil:
			why = "the looked-up key is not a local variable"
		case upd == nil:
			why = "the index map is not updated before the append in the same block: the next occurrence of the key appends the row again"
		case core.LoadAddr(upd.Key) != ssa.Value(keyCell):
			why = "the index map is updated with another key than the one looked up"
		default:
			ln, ok := upd.Value.(*ssa.Call)
			if !ok || core.CalleeName(&ln.Call) != "builtin len" || ln.Call.Args[0] != a.Call.Args[0] {
				why = "the index recorded for the key is " + core.Expr(upd.Value) + ", not the position len(rows) the row is appended at"
			}
		}
		// (c) key = (time, tags) of the appended row
		if why == "" {
			src := map[string]ssa.Value{} // key field → &rows[i] it was read from
			for _, ref := range core.Referrers(keyCell) {
				fa, ok := ref.(*ssa.FieldAddr)
				if !ok {
					continue
				}
				for _, rr := range core.Referrers(fa) {
					st, ok := rr.(*ssa.Store)
					if !ok || st.Addr != ssa.Value(fa) {
						continue
					}
					if _, dup := src[tFieldName(fa)]; dup {
						src[tFieldName(fa)] = nil
						continue
					}
					if from, ok := core.LoadAddr(st.Val).(*ssa.FieldAddr); ok && tFieldName(from) == tFieldName(fa) {
						src[tFieldName(fa)] = from.X
					} else {
						src[tFieldName(fa)] = nil
					}
				}
			}
			els, ok := core.SliceLitElems(a.Call.Args[1])
			var rowCell *ssa.Alloc
			if ok && len(els) == 1 {
				rowCell, _ = core.LoadAddr(els[0]).(*ssa.Alloc)
			}
			var rowSrc ssa.Value
			if rowCell != nil {
				for _, ref := range core.Referrers(rowCell) {
					fa, ok := ref.(*ssa.FieldAddr)
					if !ok || tFieldName(fa) != "row" {
						continue
					}
					for _, rr := range core.Referrers(fa) {
						if st, ok := rr.(*ssa.Store); ok && st.Addr == ssa.Value(fa) {
							rowSrc = core.LoadAddr(st.Val)
						}
					}
				}
			}
			switch {
			case rowSrc == nil:
				why = "cannot find the storage row the new result row is built from"
			case src["time"] == nil || !sameElem(src["time"], rowSrc):
				why = "the key's time is not the time of the row being appended"
			case src["tsTags"] == nil || !sameElem(src["tsTags"], rowSrc):
				why = "the key's tags are not the tags of the row being appended"
			}
		}
		if c.Require(why == "", "C25-R1", key, a.Pos(), "row appended under !ok of its own (time, tags) key, index recorded", "result row append: "+why) {
			matchedUpdates[upd] = true
			newRows = append(newRows, newRow{a, upd.Value})
		}
	}
	if len(rowAppends) == 0 {
		c.Fail("C25-R1", name+"/row-append", fn.Pos(), "no append to the returned slice found")
	}
	if idxMap != nil {
		n := 0
		for _, ref := range core.Referrers(idxMap) {
			switch u := ref.(type) {
			case *ssa.MapUpdate:
				if !matchedUpdates[u] {
					n++
					c.Fail("C25-R1", fmt.Sprintf("%s/index-map-write#%d", name, n), u.Pos(), "the index map is written outside the append-under-!ok block: an index may point to another row")
				}
			case *ssa.Lookup, *ssa.Range, *ssa.DebugRef:
			case *ssa.Call:
				if nm := core.CalleeName(&u.Call); nm != "builtin len" {
					c.Undecided("C25-R1", name+"/index-map-use:"+nm, u.Pos(), "the index map is passed to "+nm)
				}
			default:
				c.Undecided("C25-R1", name+"/index-map-use", ref.Pos(), fmt.Sprintf("index map used by %T", ref))
			}
		}
		c.Pass("C25-R1", name+"/index-map-writers", idxMap.Pos(), "index map written only next to the row append")
	}

	// ---- loops --------------------------------------------------------------------------
	var lodLoop, whatLoop *core.Loop
	if len(rowAppends) > 0 {
		for d := rowAppends[0].Block(); d != nil; d = d.Idom() {
			l := core.LoopOf(d)
			if l == nil || !l.Body[rowAppends[0].Block()] {
				continue
			}
			if ifi, ok := d.Instrs[len(d.Instrs)-1].(*ssa.If); ok {
				if cmp, ok := ifi.Cond.(*ssa.BinOp); ok && cmp.Op == token.LSS {
					if ln, ok := cmp.Y.(*ssa.Call); ok && core.CalleeName(&ln.Call) == "builtin len" && core.ParamOf(ln.Call.Args[0]) == 2 {
						lodLoop = l
					}
				}
			}
			whatLoop = l // outermost so far
		}
	}
	if lodLoop == nil || whatLoop == nil || whatLoop == lodLoop {
		c.Undecided("C25-R2", name+"/loops", fn.Pos(), "cannot identify the loop over LODs (bounded by len of the lods parameter) nested in the loop over requested functions")
		return
	}
	var qIndex ssa.Value
	if ifi, ok := whatLoop.Header.Instrs[len(whatLoop.Header.Instrs)-1].(*ssa.If); ok {
		if cmp, ok := ifi.Cond.(*ssa.BinOp); ok && cmp.Op == token.LSS {
			qIndex = cmp.X
		}
	}

	// ---- R2 -----------------------------------------------------------------------------
	accounted := map[ssa.Instruction]bool{} // NaN-padding stores that are explained
	for i, nr := range newRows {
		key := fmt.Sprintf("%s/new-row#%d/pre-pad", name, i+1)
		b := nr.app.Block()
		why := ""
		var lp *core.Loop
		if len(b.Succs) == 1 {
			lp = core.LoopOf(b.Succs[0])
		}
		if lp == nil {
			why = "the append is not directly followed by the padding loop"
		} else {
			hif, _ := lp.Header.Instrs[len(lp.Header.Instrs)-1].(*ssa.If)
			var cmp *ssa.BinOp
			if hif != nil {
				cmp, _ = hif.Cond.(*ssa.BinOp)
			}
			var j *ssa.Phi
			if cmp != nil {
				j, _ = cmp.X.(*ssa.Phi)
			}
			switch {
			case cmp == nil || cmp.Op != token.LSS || j == nil || j.Block() != lp.Header:
				why = "padding loop bound is not `j < qIndex`"
			case qIndex == nil || cmp.Y != qIndex:
				why = "padding loop runs to " + core.Expr(cmp.Y) + ", not to the index of the requested function: the new row gets the wrong number of leading NaNs"
			default:
				zero, inc := false, false
				for k, e := range j.Edges {
					if n, ok := core.ConstInt(e); ok && n == 0 && lp.Header.Preds[k] == b {
						zero = true
					}
					if bo, ok := e.(*ssa.BinOp); ok && bo.Op == token.ADD && bo.X == ssa.Value(j) {
						if n, ok := core.ConstInt(bo.Y); ok && n == 1 {
							inc = true
						}
					}
				}
				if !zero || !inc {
					why = "padding loop does not count 0,1,2,…"
				}
			}
			if why == "" {
				n := 0
				for blk := range lp.Body {
					for _, in := range blk.Instrs {
						st, ok := in.(*ssa.Store)
						if !ok || !isNaNAppend(st.Val) {
							continue
						}
						fa, ok := st.Addr.(*ssa.FieldAddr)
						if !ok || tFieldName(fa) != "Data" {
							continue
						}
						ia, ok := fa.X.(*ssa.IndexAddr)
						if ok && ia.X == ssa.Value(nr.app) && ia.Index == nr.pos {
							n++
							accounted[st] = true
						}
					}
				}
				if n != 1 {
					why = fmt.Sprintf("the padding loop appends NaN() to the new row's Data %d times per iteration (expected once)", n)
				}
			}
		}
		c.Require(why == "", "C25-R2", key, nr.app.Pos(), "new row pre-padded with qIndex NaNs", "new result row: "+why)
	}
	// values → used
	var usedMap ssa.Value
	vals := core.CallsTo(fn, "internal/api.(*handlerWhat).appendRowValues")
	vkeys := core.Ordinals(vals)
	for i, s := range vals {
		c.CallSites++
		why := "the result is not stored into the Data of a result row"
		for _, ref := range core.Referrers(s.Value()) {
			st, ok := ref.(*ssa.Store)
			if !ok || st.Val != s.Value() {
				continue
			}
			fa, ok := st.Addr.(*ssa.FieldAddr)
			if !ok || tFieldName(fa) != "Data" {
				continue
			}
			ix, ok := rowsElem(fa.X)
			if !ok {
				continue
			}
			why = "the row index is not added to the `used` set in the same block: the per-function padding appends a NaN to a row that already got its value"
			for _, in := range s.Block().Instrs {
				if mu, ok := in.(*ssa.MapUpdate); ok && mu.Key == ix {
					if _, isMap := mu.Map.(*ssa.MakeMap); isMap {
						usedMap = mu.Map
						why = ""
					}
				}
			}
		}
		c.Require(why == "", "C25-R2", vkeys[i], s.Pos(), "value stored into a row marked as used", "appendRowValues: "+why)
	}
	if len(vals) == 0 {
		c.Fail("C25-R2", name+"/appendRowValues", fn.Pos(), "no appendRowValues call")
	}
	// the per-function padding
	npad := 0
	if idxMap != nil {
		for _, ref := range core.Referrers(idxMap) {
			rg, ok := ref.(*ssa.Range)
			if !ok {
				continue
			}
			var next *ssa.Next
			for _, rr := range core.Referrers(rg) {
				if nx, ok := rr.(*ssa.Next); ok {
					next = nx
				}
			}
			if next == nil {
				continue
			}
			lr := core.LoopOf(next.Block())
			if lr == nil {
				continue
			}
			// does the loop pad?
			var pads []*ssa.Store
			for blk := range lr.Body {
				for _, in := range blk.Instrs {
					if st, ok := in.(*ssa.Store); ok && isNaNAppend(st.Val) {
						if fa, ok := st.Addr.(*ssa.FieldAddr); ok && tFieldName(fa) == "Data" {
							if _, ok := rowsElem(fa.X); ok {
								pads = append(pads, st)
							}
						}
					}
				}
			}
			if len(pads) == 0 {
				continue
			}
			npad++
			key := fmt.Sprintf("%s/function-padding#%d", name, npad)
			why := ""
			switch {
			case !whatLoop.Body[next.Block()]:
				why = "the padding is outside the loop over requested functions: rows miss a column for all but one function"
			case lodLoop.Body[next.Block()]:
				why = "the padding runs inside the loop over LODs: every row gets an extra NaN for every other LOD of the pass (rows are no longer column-aligned)"
			case len(pads) != 1:
				why = "more than one NaN append per row in the padding loop"
			default:
				st := pads[0]
				ix, _ := rowsElem(st.Addr.(*ssa.FieldAddr).X)
				ex, isEx := ix.(*ssa.Extract)
				if !isEx || ex.Tuple != ssa.Value(next) || ex.Index != 2 {
					why = "the padded row is not the row whose index is ranged over"
					break
				}
				// under !used[ix]; the other branch deletes from used
				okGuard, okDelete := false, false
				for _, l := range core.GuardLits(st.Block()) {
					e, ok := l.Cond.(*ssa.Extract)
					if !ok || l.Pol || e.Index != 1 {
						continue
					}
					if lk, ok := e.Tuple.(*ssa.Lookup); ok && lk.Index == ix && (usedMap == nil || lk.X == usedMap) {
						okGuard = true
						for blk := range lr.Body {
							if !core.GuardedBool(blk, e, true) {
								continue
							}
							for _, in := range blk.Instrs {
								if call, ok := in.(*ssa.Call); ok && core.CalleeName(&call.Call) == "builtin delete" && call.Call.Args[0] == lk.X && call.Call.Args[1] == ix {
									okDelete = true
								}
							}
						}
					}
				}
				if !okGuard {
					why = "the NaN is appended without testing that the row got no value for this function (`used` set)"
				} else if !okDelete {
					why = "a row that got its value is not removed from the `used` set: the next function's padding skips it"
				} else {
					accounted[st] = true
				}
			}
			c.Require(why == "", "C25-R2", key, next.Pos(), "padding once per requested function, outside the LOD loop, for rows without a value", "per-function NaN padding: "+why)
		}
	}
	if npad == 0 {
		c.Fail("C25-R2", name+"/function-padding", fn.Pos(), "no per-function NaN padding loop over the index map found: rows that lack a value for a function stay shorter than the others")
	}
	// no other NaN padding of result rows
	nx := 0
	for _, b := range fn.Blocks {
		for _, in := range b.Instrs {
			st, ok := in.(*ssa.Store)
			if !ok || !isNaNAppend(st.Val) || accounted[st] {
				continue
			}
			if fa, ok := st.Addr.(*ssa.FieldAddr); ok && tFieldName(fa) == "Data" {
				if _, ok := rowsElem(fa.X); ok {
					nx++
					c.Fail("C25-R2", fmt.Sprintf("%s/extra-padding#%d", name, nx), st.Pos(), "a NaN is appended to a result row outside the two accounted paddings (new-row pre-pad, per-function pad): columns get misaligned")
				}
			}
		}
	}

	// ---- R3 -----------------------------------------------------------------------------
	isFromEnd := func(v ssa.Value) bool {
		fa, ok := core.LoadAddr(v).(*ssa.FieldAddr)
		if !ok || tFieldName(fa) != "fromEnd" {
			return false
		}
		req, ok := fa.X.(*ssa.FieldAddr)
		return ok && tFieldName(req) == "req" && core.ParamOf(req.X) == 3
	}
	fromEndAt := func(b *ssa.BasicBlock, pol bool) bool {
		for _, l := range core.GuardLits(b) {
			if l.Op == 0 && l.Pol == pol && isFromEnd(l.Cond) {
				return true
			}
		}
		return false
	}
	isSort := core.IsCallTo("sort.Sort")
	for i, r := range okRets {
		p := core.ReachFromEntryWithout(fn, func(in ssa.Instruction) bool { return in == ssa.Instruction(r) }, isSort)
		c.Require(p == nil, "C25-R3", fmt.Sprintf("%s/return-ok#%d", name, i+1), r.Pos(), "reached only through sort.Sort",
			"a non-error return is reachable without sort.Sort: rows are returned in storage/LOD order ("+pathStr(p)+")")
	}
	sorts := core.CallsTo(fn, "sort.Sort")
	skeys := core.Ordinals(sorts)
	for i, s := range sorts {
		c.CallSites++
		arg := core.Unwrap(s.Arg(0))
		rev := false
		if call, ok := arg.(*ssa.Call); ok && core.CalleeName(&call.Call) == "sort.Reverse" {
			rev = true
			arg = core.Unwrap(call.Call.Args[0])
		}
		why := ""
		switch {
		case !web[arg]:
			why = "sorts " + core.Expr(arg) + ", not the slice that is returned"
		case rev && !fromEndAt(s.Block(), true):
			why = "reverse order is used without req.fromEnd being true"
		case !rev && !fromEndAt(s.Block(), false):
			why = "ascending order is used although req.fromEnd may be true (rows requested from the end must come out in descending order)"
		}
		c.Require(why == "", "C25-R3", skeys[i], s.Pos(), "sorts the returned slice, reversed iff fromEnd", "sort.Sort: "+why)
	}
	if len(sorts) == 0 {
		c.Fail("C25-R3", name+"/sort", fn.Pos(), "getTableFromLODs does not sort")
	}
}

// c25RowMarkerFresh: the RowMarker stored into a result row must not be shared between rows.
// RowMarker holds a slice (Tags); a marker variable that lives across iterations and is
// re-sliced to [:0] shares its backing array with every row stored before, and its SKey
// survives from a previous row. Structural condition: on every control-flow cycle through
// the store of the marker into the row, the marker's cell is re-created (its Alloc lies on
// the cycle), and it is never re-sliced from itself.
func c25RowMarkerFresh(c *core.Check, fn *ssa.Function, name string) {
	n := 0
	for _, b := range fn.Blocks {
		for _, in := range b.Instrs {
			st, ok := in.(*ssa.Store)
			if !ok || !core.IsField(st.Addr, "internal/api.queryTableRow", "rowRepr") {
				continue
			}
			n++
			site := fmt.Sprintf("%s/store:queryTableRow.rowRepr#%d", name, n)
			ld, ok := st.Val.(*ssa.UnOp)
			var cell *ssa.Alloc
			if ok {
				cell, _ = ld.X.(*ssa.Alloc)
			}
			if cell == nil {
				c.Undecided("C25-R4", site, st.Pos(), "the stored row marker is not a local variable: "+core.Expr(st.Val))
				continue
			}
			// is there a cycle through the store's block that avoids the cell's creation?
			seen := map[*ssa.BasicBlock]bool{}
			var work []*ssa.BasicBlock
			for _, s := range b.Succs {
				work = append(work, s)
			}
			shared := false
			for len(work) > 0 {
				x := work[0]
				work = work[1:]
				if x == cell.Block() || seen[x] {
					continue
				}
				seen[x] = true
				if x == b {
					shared = true
					break
				}
				work = append(work, x.Succs...)
			}
			if b == cell.Block() && core.InstrIndex(cell) < core.InstrIndex(st) {
				shared = false
			}
			c.Require(!shared, "C25-R4", site, st.Pos(), "row marker is created per row",
				"the row marker stored with a result row outlives the iteration that stores it (its variable is created outside the row loop): its Tags slice is re-used, so all rows of the pass end up showing the tags of the last row, equal-time rows compare equal in the final sort and the paging cursors carry wrong tags")
		}
	}
	if n == 0 {
		c.Undecided("C25-R4", name+"/store:queryTableRow.rowRepr", fn.Pos(), "no store of a row marker into a result row found")
	}
}
