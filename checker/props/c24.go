package props

import (
	"fmt"
	"go/token"
	"go/types"

	"golang.org/x/tools/go/ssa"

	"shverif/core"
)

func init() {
	const f = "internal/api/pcache.go"
	Register(&Property{
		ID:   "C24",
		Pkgs: []string{"./internal/api"},
		Run:  runC24,
		Mutants: []Mutant{
			{Name: "load-time-taken-after-load", File: f, Rule: "C24-R1",
				Old: "	loadedAtNano := c.now().UnixNano()\n	rows, err := c.loader(ctx, h, pq, lod)\n",
				New: "	rows, err := c.loader(ctx, h, pq, lod)\n	loadedAtNano := c.now().UnixNano()\n"},
			{Name: "load-time-taken-at-insert", File: f, Rule: "C24-R1",
				Old: "	e.rows[tr] = cachedRows{rows: rows, loadedAtNano: loadedAtNano}", New: "	e.rows[tr] = cachedRows{rows: rows, loadedAtNano: c.now().UnixNano() + loadedAtNano*0}"},
			{Name: "validity-checked-against-entry-wide-time", File: f, Rule: "C24-R1",
				Old: "	cachedIsValid := c.invalidatedAtNano.checkInvalidationLocked(cr.loadedAtNano, from, to)",
				New: "	cachedIsValid := c.invalidatedAtNano.checkInvalidationLocked(entry.lru.Load(), from, to)"},
			{Name: "validity-checked-for-other-range", File: f, Rule: "C24-R1",
				Old: "	cachedIsValid := c.invalidatedAtNano.checkInvalidationLocked(cr.loadedAtNano, from, to)",
				New: "	cachedIsValid := c.invalidatedAtNano.checkInvalidationLocked(cr.loadedAtNano, to, to)"},
			{Name: "seconds-level-comparison-strict", File: f, Rule: "C24-R2",
				Old: "		for i := from; i <= to; i += step {\n			if invalidatedAtNano, ok := c.seconds[ix][i]; ok && loadAt <= invalidatedAtNano+int64(invalidateLinger) {",
				New: "		for i := from; i <= to; i += step {\n			if invalidatedAtNano, ok := c.seconds[ix][i]; ok && loadAt < invalidatedAtNano+int64(invalidateLinger) {"},
			{Name: "coarse-level-comparison-without-linger", File: f, Rule: "C24-R2",
				Old: "	for i := fromR + step; i < toR; i += step {\n		if invalidatedAtNano, ok := c.seconds[ix][i]; ok && loadAt <= invalidatedAtNano+int64(invalidateLinger) {",
				New: "	for i := fromR + step; i < toR; i += step {\n		if invalidatedAtNano, ok := c.seconds[ix][i]; ok && loadAt <= invalidatedAtNano {"},
			{Name: "insert-without-eviction", File: f, Rule: "C24-R3",
				Old: "	for c.size+len(c.cache) >= c.approxMaxSize {\n		c.size -= c.evictLocked()\n	}\n", New: ""},
			{Name: "eviction-does-not-shrink-accounting", File: f, Rule: "C24-R3",
				Old: "		c.size -= c.evictLocked()\n", New: "		c.evictLocked()\n"},
			{Name: "invalidate-under-read-lock", File: f, Rule: "C24-R3",
				Old: "func (c *pointsCache) invalidate(times []int64) {\n	c.cacheMu.Lock()\n	defer c.cacheMu.Unlock()\n",
				New: "func (c *pointsCache) invalidate(times []int64) {\n	c.cacheMu.RLock()\n	defer c.cacheMu.RUnlock()\n"},
			{Name: "cached-lookup-without-lock", File: f, Rule: "C24-R3",
				Old: "func (c *pointsCache) loadCached(key string, from, to int64) ([]pSelectRow, bool) {\n	c.cacheMu.RLock()\n	defer c.cacheMu.RUnlock()\n",
				New: "func (c *pointsCache) loadCached(key string, from, to int64) ([]pSelectRow, bool) {\n"},
		},
	})
}

const (
	tPCache   = "internal/api.pointsCache"
	pPCache   = "internal/api.(*pointsCache)."
	tSecCache = "internal/api.invalidatedSecondsCache"
	pSecCache = "internal/api.(*invalidatedSecondsCache)."
	tCRows    = "internal/api.cachedRows"
)

func runC24(c *core.Check) {
	c.Decides = "(R1, K7+order) in pointsCache.get the value stored in cachedRows.loadedAtNano is c.now().UnixNano() of a c.now() call executed before c.loader is called, it is stored together with the rows " +
		"that loader call returned under the range that was loaded; pointsCache.loadCached hands to checkInvalidationLocked the loadedAtNano of the very cachedRows whose rows it returns, with the range " +
		"it looked up; the load time is passed unchanged down the recursion of checkInvalidationMapLocked; " +
		"(R2, K8) every lookup of an invalidation time in checkInvalidationMapLocked is followed by the same test `loadAt <= invalidatedAt + invalidateLinger` (non-strict, with the linger constant) leading to `return false`, " +
		"and there are the two sibling sites (finest level loop, coarse level loop); " +
		"(R3, K1/K4/K6) every insertion into pointsCache.cache / cacheEntry.rows and every growth of pointsCache.size in get happens after the eviction loop has established size+len(cache) < approxMaxSize, the loop body evicts " +
		"and subtracts what evictLocked returns; pointsCache.size/cache and invalidatedSecondsCache.seconds are read under cacheMu (read or write mode) and written under the write lock, the *Locked functions are " +
		"only called with cacheMu held in the mode they need, cacheMu is balanced on every path."
	c.NotDecided = "the hierarchical hour/minute/second range decomposition arithmetic (fromNext/toPrev, roundTime), the mutable-window cut-off (invalidateFrom), clock behaviour, " +
		"that the size bound is met when approxMaxSize <= 0 (the eviction loop then spins, see DESIGN §6 observations)."

	fns := c.Prog.FuncsIn("internal/api")
	var pfns []*ssa.Function // functions of the points cache only (the package is large)
	for _, fn := range fns {
		n := core.FuncName(fn)
		if core.Glob(pPCache+"*", n) || core.Glob(pSecCache+"*", n) || n == "internal/api.newPointsCache" || n == "internal/api.newSecondsCache" {
			pfns = append(pfns, fn)
		}
	}

	// ---- R1 -------------------------------------------------------------------------
	c.Rule("C24-R1", "K7 provenance + order", 9, "get: loadedAtNano stored = now() taken before loader(), stored with that loader call's rows under the loaded range; loadCached: checkInvalidationLocked gets the loadedAtNano of the cachedRows it returns and the looked-up range; recursion passes loadAt unchanged")
	if fn := need(c, "C24-R1", pPCache+"get"); fn != nil {
		loaders := dynCallsOnField(fn, tPCache, "loader")
		var stores []*ssa.Store
		for _, b := range fn.Blocks {
			for _, in := range b.Instrs {
				if st, ok := in.(*ssa.Store); ok && core.IsField(st.Addr, tCRows, "loadedAtNano") {
					stores = append(stores, st)
				}
			}
		}
		if len(loaders) != 1 || len(stores) == 0 {
			c.Undecided("C24-R1", pPCache+"get/shape", fn.Pos(), fmt.Sprintf("expected one call of c.loader and at least one store of cachedRows.loadedAtNano, found %d/%d", len(loaders), len(stores)))
		} else {
			load := loaders[0]
			for i, st := range stores {
				key := fmt.Sprintf("%sget/loadedAtNano#%d", pPCache, i+1)
				var nowCall *ssa.Call
				if un, ok := st.Val.(*ssa.Call); ok && core.CalleeName(&un.Call) == "time.(Time).UnixNano" {
					if nc, ok := un.Call.Args[0].(*ssa.Call); ok && isDynCallOnField(nc, tPCache, "now") {
						nowCall = nc
					}
				}
				if !c.Require(nowCall != nil, "C24-R1", key+"/clock", st.Pos(), "loadedAtNano is c.now().UnixNano()",
					"the load time stored with the rows is not c.now().UnixNano(): "+core.Expr(st.Val)) {
					continue
				}
				c.Require(core.Dominates(nowCall, load), "C24-R1", key+"/before-load", st.Pos(), "the load time is taken before the loader runs",
					"the load time stored with the rows is taken after c.loader was called: an invalidation that arrives while the load is running is older than the recorded load time and the stale rows are served")
				// same cachedRows value holds the rows of that loader call and is inserted under the loaded range
				cell, _ := st.Addr.(*ssa.FieldAddr).X.(*ssa.Alloc)
				rowsOK, insertOK := false, false
				if cell != nil {
					for _, r := range core.Referrers(cell) {
						if fa, ok := r.(*ssa.FieldAddr); ok && core.IsField(fa, tCRows, "rows") {
							for _, rr := range core.Referrers(fa) {
								if s2, ok := rr.(*ssa.Store); ok && s2.Addr == fa {
									if ex, ok := s2.Val.(*ssa.Extract); ok && ex.Tuple == ssa.Value(load) && ex.Index == 0 {
										rowsOK = true
									}
								}
							}
						}
						if ld, ok := r.(*ssa.UnOp); ok && ld.Op == token.MUL {
							for _, rr := range core.Referrers(ld) {
								if mu, ok := rr.(*ssa.MapUpdate); ok && mu.Value == ld && rangeKeyFrom(mu.Key, load.Call.Args[3]) {
									insertOK = true
								}
							}
						}
					}
				}
				c.Require(rowsOK && insertOK, "C24-R1", key+"/same-range", st.Pos(), "the load time is stored with the rows of that load under the range that was loaded",
					fmt.Sprintf("the cachedRows carrying this load time does not hold the rows returned by the loader call (%v) or is not inserted under {lod.FromSec, lod.ToSec} of the loaded lod (%v)", rowsOK, insertOK))
			}
		}
	}
	if fn := need(c, "C24-R1", pPCache+"loadCached"); fn != nil {
		chks := core.CallsTo(fn, pSecCache+"checkInvalidationLocked")
		if len(chks) != 1 {
			c.Undecided("C24-R1", pPCache+"loadCached/shape", fn.Pos(), fmt.Sprintf("expected one checkInvalidationLocked call, found %d", len(chks)))
		} else {
			chk := chks[0]
			key := pPCache + "loadCached/checkInvalidationLocked"
			// argument 1 = cr.loadedAtNano where cr = entry.rows[timeRange{from,to}]
			var cell *ssa.Alloc
			if ld, ok := chk.Arg(1).(*ssa.UnOp); ok && ld.Op == token.MUL && core.IsField(ld.X, tCRows, "loadedAtNano") {
				cell, _ = ld.X.(*ssa.FieldAddr).X.(*ssa.Alloc)
			}
			var lookup *ssa.Lookup
			if cell != nil {
				if sts := core.StoresTo(cell); len(sts) == 1 {
					if ex, ok := sts[0].Val.(*ssa.Extract); ok && ex.Index == 0 {
						lookup, _ = ex.Tuple.(*ssa.Lookup)
					}
				}
			}
			okRange := lookup != nil && rangeKeyFromParams(lookup.Index, fn.Params[2], fn.Params[3])
			c.Require(okRange, "C24-R1", key+"/per-range-time", chk.Pos(), "validity is decided with the load time recorded for the looked-up range",
				"checkInvalidationLocked does not receive the loadedAtNano of the cachedRows found under timeRange{from, to}: "+core.Expr(chk.Arg(1))+" (a load time shared between ranges lets a later load of one range revalidate stale rows of another)")
			c.Require(chk.Arg(2) == ssa.Value(fn.Params[2]) && chk.Arg(3) == ssa.Value(fn.Params[3]), "C24-R1", key+"/range", chk.Pos(), "the invalidation test covers the requested range",
				"checkInvalidationLocked is not called with the requested (from, to): "+core.Expr(chk.Arg(2))+", "+core.Expr(chk.Arg(3)))
			// rows returned come from the same cachedRows
			for i, r := range core.Returns(fn) {
				if len(r.Block().Preds) == 0 && r.Block().Index != 0 {
					continue // recover block
				}
				vals := core.ReturnedValues(r)
				if isNilConst(vals[0]) {
					continue
				}
				same := false
				if ld, ok := vals[0].(*ssa.UnOp); ok && ld.Op == token.MUL && core.IsField(ld.X, tCRows, "rows") && ld.X.(*ssa.FieldAddr).X == ssa.Value(cell) {
					same = true
				}
				c.Require(same && vals[1] == chk.Value(), "C24-R1", fmt.Sprintf("%sloadCached/return#%d", pPCache, i+1), r.Pos(), "returns the rows of the checked cachedRows with the check's verdict",
					"loadCached returns rows/validity that do not come from the cachedRows whose load time was checked: "+core.Expr(vals[0])+", "+core.Expr(vals[1]))
			}
		}
	}
	for _, name := range []string{"checkInvalidationLocked", "checkInvalidationMapLocked"} {
		if fn := need(c, "C24-R1", pSecCache+name); fn != nil {
			// loadAt is parameter 1 of checkInvalidationLocked and parameter 2 of checkInvalidationMapLocked
			idx := 1
			if name == "checkInvalidationMapLocked" {
				idx = 2
			}
			sites := core.CallsTo(fn, pSecCache+"checkInvalidationMapLocked")
			for i, s := range sites {
				c.Require(s.Arg(2) == ssa.Value(fn.Params[idx]), "C24-R1", fmt.Sprintf("%s%s/recursion#%d/loadAt", pSecCache, name, i+1), s.Pos(), "load time passed down unchanged",
					"the load time handed to the next level is not the caller's loadAt: "+core.Expr(s.Arg(2)))
			}
		}
	}

	// ---- R2 -------------------------------------------------------------------------
	c.Rule("C24-R2", "K8 siblings", 2, "each invalidation-time lookup in checkInvalidationMapLocked is tested as loadAt <= invalidatedAt + invalidateLinger and leads to return false; two sibling sites")
	if fn := need(c, "C24-R2", pSecCache+"checkInvalidationMapLocked"); fn != nil {
		linger, okK := intConst(c, "internal/api", "invalidateLinger")
		if !okK {
			c.Anchor("C24-R2", "internal/api.invalidateLinger")
		}
		loadAt := ssa.Value(fn.Params[2])
		n := 0
		for _, b := range fn.Blocks {
			for _, in := range b.Instrs {
				lk, ok := in.(*ssa.Lookup)
				if !ok || !lk.CommaOk || !fromField(lk.X, tSecCache, "seconds") {
					continue
				}
				n++
				key := fmt.Sprintf("%scheckInvalidationMapLocked/lookup#%d", pSecCache, n)
				// find the branch that uses the looked-up time
				var found, good bool
				var why string
				for _, bb := range fn.Blocks {
					ifi, ok := bb.Instrs[len(bb.Instrs)-1].(*ssa.If)
					if !ok || !usesExtract(ifi.Cond, lk, 0) {
						continue
					}
					found = true
					// loadAt <= t+K  ≡  !(t+K < loadAt), on whichever edge it holds
					matched := false
					for _, succ := range bb.Succs {
						l, okEdge := core.EdgeLit(bb, succ)
						if !okEdge {
							continue
						}
						add, isAdd := l.X.(*ssa.BinOp)
						shape := l.Op == token.LSS && !l.Pol && l.Y == loadAt && isAdd && add.Op == token.ADD &&
							((isExtractOf(add.X, lk, 0) && constIs(add.Y, linger)) || (isExtractOf(add.Y, lk, 0) && constIs(add.X, linger)))
						if !shape {
							continue
						}
						matched = true
						if r, isRet := succ.Instrs[len(succ.Instrs)-1].(*ssa.Return); isRet && len(succ.Instrs) <= 3 && core.ConstBool(core.ReturnedValues(r)[0], false) {
							good = true
						} else {
							why = "the invalidated branch does not return false"
						}
					}
					if !matched {
						why = "the test is " + core.NormLit(ifi.Cond, true).String() + " when true"
					}
				}
				switch {
				case !found:
					c.Fail("C24-R2", key, lk.Pos(), "an invalidation time is looked up but never compared with the load time")
				default:
					c.Require(good, "C24-R2", key, lk.Pos(), "loadAt <= invalidatedAt + invalidateLinger → not valid",
						"the comparison of the load time with this invalidation time is not `loadAt <= invalidatedAt + invalidateLinger` leading to `return false` ("+why+"): rows loaded at or within the replication linger after an invalidation would be served")
				}
			}
		}
		if n != 2 {
			c.Undecided("C24-R2", pSecCache+"checkInvalidationMapLocked/siblings", fn.Pos(), fmt.Sprintf("expected the two sibling lookups (finest level, coarse level), found %d", n))
		}
	}

	// ---- R3 -------------------------------------------------------------------------
	c.Rule("C24-R3", "K1 + K4 + K6", 28, "get: insertions and growth of size only after the eviction loop established size+len(cache) < approxMaxSize; the loop evicts and subtracts; size/cache/seconds accessed under cacheMu in the needed mode; *Locked callers hold cacheMu; balanced")
	if fn := need(c, "C24-R3", pPCache+"get"); fn != nil {
		base := ssa.Value(fn.Params[0])
		room := func(pol bool) func(core.Lit) bool {
			return func(l core.Lit) bool {
				if l.Op != token.LSS || l.Pol != pol || !isFieldLoadOf(l.Y, tPCache, "approxMaxSize", base) {
					return false
				}
				add, ok := l.X.(*ssa.BinOp)
				if !ok || add.Op != token.ADD {
					return false
				}
				for _, pair := range [][2]ssa.Value{{add.X, add.Y}, {add.Y, add.X}} {
					call, isCall := pair[1].(*ssa.Call)
					if isFieldLoadOf(pair[0], tPCache, "size", base) && isCall && core.CalleeName(&call.Call) == "builtin len" && isFieldLoadOf(call.Call.Args[0], tPCache, "cache", base) {
						return true
					}
				}
				return false
			}
		}
		n := 0
		for _, b := range fn.Blocks {
			for _, in := range b.Instrs {
				what := ""
				switch x := in.(type) {
				case *ssa.MapUpdate:
					if isFieldLoadOf(x.Map, tPCache, "cache", base) {
						what = "insertion into cache"
					} else if fromField(x.Map, "internal/api.cacheEntry", "rows") {
						what = "insertion into cacheEntry.rows"
					}
				case *ssa.Store:
					if isFieldOfBase(x.Addr, tPCache, "size", base) {
						if bin, ok := x.Val.(*ssa.BinOp); ok && bin.Op == token.ADD {
							what = "growth of size"
						}
					}
				}
				if what == "" {
					continue
				}
				n++
				c.Require(holdsLit(b, room(true)), "C24-R3", fmt.Sprintf("%sget/insert#%d", pPCache, n), in.Pos(), what+" after the eviction loop made room",
					what+" is not dominated by `size + len(cache) < approxMaxSize` (the exit condition of the eviction loop): the cache grows without bound; facts: "+core.FactsString(b))
			}
		}
		// the loop body: evict and subtract
		bodies := edgesWhere(fn, room(false))
		if len(bodies) == 0 && n > 0 {
			c.Fail("C24-R3", pPCache+"get/eviction-loop", fn.Pos(), "no eviction loop on `size + len(cache) >= approxMaxSize` found in get")
		}
		for i, body := range bodies {
			ok := false
			for _, in := range body.Instrs {
				st, isSt := in.(*ssa.Store)
				if !isSt || !isFieldOfBase(st.Addr, tPCache, "size", base) {
					continue
				}
				if bin, isBin := st.Val.(*ssa.BinOp); isBin && bin.Op == token.SUB && isFieldLoadOf(bin.X, tPCache, "size", base) {
					if call, isCall := bin.Y.(*ssa.Call); isCall && core.CalleeName(&call.Call) == pPCache+"evictLocked" {
						ok = true
					}
				}
			}
			c.Require(ok && core.OnCycle(body.Instrs[0]), "C24-R3", fmt.Sprintf("%sget/eviction-loop#%d", pPCache, i+1), body.Instrs[0].Pos(), "while full: size -= evictLocked()",
				"the branch taken when the cache is full does not loop on `size -= evictLocked()`: the accounting never shrinks and either the loop spins or the bound is not enforced")
		}
	}
	core.RunLockDiscipline(c, &core.LockSpec{
		RuleCalls: "C24-R3", RuleAccess: "C24-R3", RuleBalance: "C24-R3",
		Funcs: pfns, CallerFuncs: fns,
		Types: []core.GuardedType{
			{Type: tPCache, Mutex: "cacheMu", CheckReads: true, Suffixes: []string{"Locked"}, Fields: []string{"size", "cache"}},
			{Type: tSecCache, Mutex: "cacheMu", OwnerType: tPCache, OwnerField: "invalidatedAtNano", CheckReads: true, Suffixes: []string{"Locked"}, Fields: []string{"seconds"}},
		},
	})
	debugObs(c)
}

// dynCallsOnField lists the calls of the function value held in typ.field.
func dynCallsOnField(fn *ssa.Function, typ, field string) []*ssa.Call {
	var out []*ssa.Call
	for _, b := range fn.Blocks {
		for _, in := range b.Instrs {
			if call, ok := in.(*ssa.Call); ok && isDynCallOnField(call, typ, field) {
				out = append(out, call)
			}
		}
	}
	return out
}

func isDynCallOnField(call *ssa.Call, typ, field string) bool {
	return !call.Call.IsInvoke() && core.LoadsField(call.Call.Value, typ, field)
}

// fromField: v is read (through loads, indexing and lookups) from typ.field.
func fromField(v ssa.Value, typ, field string) bool {
	for _, x := range baseChain(v) {
		if core.IsField(x, typ, field) {
			return true
		}
	}
	return false
}

func isExtractOf(v ssa.Value, tuple ssa.Value, idx int) bool {
	ex, ok := v.(*ssa.Extract)
	return ok && ex.Tuple == tuple && ex.Index == idx
}

func usesExtract(v ssa.Value, tuple ssa.Value, idx int) bool {
	for _, x := range valueTree(v) {
		if isExtractOf(x, tuple, idx) {
			return true
		}
	}
	return false
}

// rangeKeyFrom: key is a timeRange{from: lod.FromSec, to: lod.ToSec} built from the lod value.
func rangeKeyFrom(key ssa.Value, lod ssa.Value) bool {
	return rangeKeyWith(key, func(from, to ssa.Value) bool {
		return fieldOfValue(from, "FromSec", lod) && fieldOfValue(to, "ToSec", lod)
	})
}

// rangeKeyFromParams: key is timeRange{from: p, to: q}.
func rangeKeyFromParams(key ssa.Value, p, q ssa.Value) bool {
	return rangeKeyWith(key, func(from, to ssa.Value) bool { return from == p && to == q })
}

func rangeKeyWith(key ssa.Value, ok func(from, to ssa.Value) bool) bool {
	ld, isLd := key.(*ssa.UnOp)
	if !isLd || ld.Op != token.MUL {
		return false
	}
	cell, isCell := ld.X.(*ssa.Alloc)
	if !isCell {
		return false
	}
	var from, to ssa.Value
	for _, r := range core.Referrers(cell) {
		fa, isFA := r.(*ssa.FieldAddr)
		if !isFA {
			continue
		}
		for _, rr := range core.Referrers(fa) {
			if st, isSt := rr.(*ssa.Store); isSt && st.Addr == fa {
				switch {
				case core.IsField(fa, "internal/api.timeRange", "from"):
					if from != nil {
						return false
					}
					from = st.Val
				case core.IsField(fa, "internal/api.timeRange", "to"):
					if to != nil {
						return false
					}
					to = st.Val
				}
			}
		}
	}
	return from != nil && to != nil && ok(from, to)
}

// fieldOfValue: v reads field `name` of the struct value lod (directly or through the
// cell the value was spilled to).
func fieldOfValue(v ssa.Value, name string, lod ssa.Value) bool {
	switch x := v.(type) {
	case *ssa.Field:
		return x.X == lod && fieldNameOfLk(x.X, x.Field) == name
	case *ssa.UnOp:
		if x.Op != token.MUL {
			return false
		}
		fa, ok := x.X.(*ssa.FieldAddr)
		if !ok || fieldNameOfLk(fa.X, fa.Field) != name {
			return false
		}
		// lod itself is a load of the cell, or the cell's address
		if ld, isLd := lod.(*ssa.UnOp); isLd && ld.Op == token.MUL && ld.X == fa.X {
			return true
		}
		return fa.X == lod
	}
	return false
}

func fieldNameOfLk(x ssa.Value, idx int) string {
	t := x.Type().Underlying()
	if p, ok := t.(*types.Pointer); ok {
		t = p.Elem().Underlying()
	}
	if st, ok := t.(*types.Struct); ok && idx < st.NumFields() {
		return st.Field(idx).Name()
	}
	return ""
}
