package props

import (
	"fmt"
	"go/token"
	"go/types"

	"golang.org/x/tools/go/ssa"

	"shverif/core"
)

func init() {
	Register(&Property{
		ID:   "C11",
		Pkgs: []string{"./internal/format"},
		Run:  runC11,
		Mutants: []Mutant{
			{Name: "slow-path-length-test-loosened", File: "internal/format/format.go", Rule: "C11-R1",
				Old: "		if w+nw > maxLen {\n			break\n		}", New: "		if w+nw > maxLen+utf8.UTFMax {\n			break\n		}"},
			{Name: "slow-path-advance-before-length-test", File: "internal/format/format.go", Rule: "C11-R1",
				Old: "		if w+nw > maxLen {\n			break\n		}\n		previousSpace = isSpace\n		r += nr\n		w += nw", New: "		previousSpace = isSpace\n		r += nr\n		w += nw\n		if w > maxLen {\n			break\n		}"},
			{Name: "fast-path-accepts-longer-input", File: "internal/format/format.go", Rule: "C11-R1",
				Old: "	if len(src) <= maxLen { // calculating dst size", New: "	if len(src) <= maxLen*2 { // calculating dst size"},
			{Name: "scratch-buffer-too-small", File: "internal/format/format.go", Rule: "C11-R1",
				Old: "	var buf [MaxStringLen + utf8.UTFMax]byte\n	w := 0", New: "	var buf [MaxStringLen]byte\n	w := 0"},
			{Name: "strict-fails-on-unprintable", File: "internal/format/format.go", Rule: "C11-R2",
				Old: "		case !unicode.IsPrint(c):\n			c = utf8.RuneError", New: "		case !unicode.IsPrint(c):\n			if !force {\n				return dst, errBadEncoding\n			}\n			c = utf8.RuneError"},
			{Name: "force-entry-point-not-forcing", File: "internal/format/format.go", Rule: "C11-R2",
				Old: "	dst, _ := appendValidStringValue(b[:0], b, MaxStringLen, true)", New: "	dst, _ := appendValidStringValue(b[:0], b, MaxStringLen, false)"},
			{Name: "strict-entry-point-forcing", File: "internal/format/format.go", Rule: "C11-R2",
				Old: "	return appendValidStringValue(dst, src, MaxStringLen, false)", New: "	return appendValidStringValue(dst, src, MaxStringLen, true)"},
			{Name: "raw-upper-bound-signed-only", File: "internal/format/format.go", Rule: "C11-R3",
				Old: "err == nil && i >= math.MinInt32 && i <= math.MaxUint32", New: "err == nil && i >= math.MinInt32 && i <= math.MaxInt32"},
			{Name: "raw-accepts-other-bases", File: "internal/format/format.go", Rule: "C11-R3",
				Old: "	i, err := mem.ParseInt(mem.B(s), 10, 64) // TODO - remove allocation in case of error\n	return int32(i)", New: "	i, err := mem.ParseInt(mem.B(s), 0, 64) // TODO - remove allocation in case of error\n	return int32(i)"},
			{Name: "raw64-high-word-shift", File: "internal/format/format.go", Rule: "C11-R3",
				Old: "		hi = int32(i >> 32)\n		return lo, hi, err == nil", New: "		hi = int32(i >> 31)\n		return lo, hi, err == nil"},
			{Name: "raw64-negative-parsed-unsigned", File: "internal/format/format.go", Rule: "C11-R3",
				Old: "	if s.At(0) == '-' { // save allocation", New: "	if s.At(0) == '+' { // save allocation"},
		},
	})
}

const c11pkg = "internal/format"

func runC11(c *core.Check) {
	c.Decides = "guards and constants only: (R1) in appendValidStringValue every advance of the write position by an encoded rune is dominated by !(maxLen < w+nw) on the same values, the fast path returns the " +
		"input only under !(maxLen < len(src)), the scratch buffer holds maxLen+UTFMax bytes, every caller passes MaxStringLen = 128; (R2) its only non-nil error return is dominated by " +
		"rune == RuneError && size <= 1 (of one DecodeRune call) && !force; callers that drop the error pass force = true, the exported strict entry point passes false; (R3) ContainsRawTagValueBytes says ok " +
		"only under err == nil && -2^31 <= i && i <= 2^32-1 of one base-10 64-bit ParseInt and returns int32(i); containsRawTagValue64 uses ParseInt for a leading '-' and ParseUint otherwise (base 10, " +
		"64 bit), ok = (err == nil), and returns the low/high 32-bit halves of the parsed value by truncating conversions and a shift by 32."
	c.NotDecided = "the function semantics over all byte strings: that the forced result is valid UTF-8, trimmed, single-spaced and printable, equals a valid input, idempotence, agreement of strict and forced " +
		"normalisation, ValidStringValue's definition, and what go4.org/mem.ParseInt/ParseUint accept (signs, leading zeros) — the rules are necessary conditions of the length bound, of the error " +
		"condition and of the raw ranges only."
	c11R1R2(c)
	c11R3(c)
}

func c11R1R2(c *core.Check) {
	const r1, r2 = "C11-R1", "C11-R2"
	c.Rule(r1, "K1+K5", 7, "write position advances only under !(maxLen < w+nw); fast path only under !(maxLen < len(src)); buffer = MaxStringLen+UTFMax; callers pass MaxStringLen; MaxStringLen = 128")
	c.Rule(r2, "K1+K2", 4, "error return only under RuneError && size<=1 && !force; error-dropping callers pass force=true; AppendValidStringValue passes false")
	name := c11pkg + ".appendValidStringValue"
	fn := need(c, r1, name)
	if fn == nil {
		return
	}
	msl, okM := c.Prog.ConstInt64(c11pkg, "MaxStringLen")
	if !okM {
		c.Anchor(r1, c11pkg+".MaxStringLen")
		return
	}
	c.Require(msl == 128, r1, c11pkg+".MaxStringLen", token.NoPos, "MaxStringLen = 128", fmt.Sprintf("MaxStringLen is %d, the property states 128 bytes", msl))

	isCall := func(v ssa.Value, callee string) *ssa.Call {
		call, ok := v.(*ssa.Call)
		if ok && core.CalleeName(&call.Call) == callee {
			return call
		}
		return nil
	}
	extractOfCall := func(v ssa.Value, callee string, idx int) *ssa.Call {
		ex, ok := v.(*ssa.Extract)
		if !ok || ex.Index != idx {
			return nil
		}
		return isCall(ex.Tuple, callee)
	}

	// ---- R1/R2 per return ---------------------------------------------------------------
	nret, nerr, nslow, nfast := 0, 0, 0, 0
	for _, r := range core.Returns(fn) {
		if len(r.Block().Preds) == 0 && r.Block().Index != 0 {
			continue
		}
		nret++
		key := fmt.Sprintf("%s/return#%d", name, nret)
		if !core.IsNil(r.Results[1]) {
			nerr++
			// R2: RuneError && nr <= 1 && !force, on one DecodeRune call
			var dec0, dec1 *ssa.Call
			force := false
			for _, l := range core.GuardLits(r.Block()) {
				switch {
				case l.Op == token.EQL && l.Pol:
					if k, ok := core.ConstInt(l.Y); ok && k == 0xFFFD {
						if d := extractOfCall(l.X, "unicode/utf8.DecodeRune", 0); d != nil {
							dec0 = d
						}
					}
				case l.Op == token.LSS && !l.Pol: // !(1 < nr)
					if k, ok := core.ConstInt(l.X); ok && k == 1 {
						if d := extractOfCall(l.Y, "unicode/utf8.DecodeRune", 1); d != nil {
							dec1 = d
						}
					}
				case l.Op == 0 && !l.Pol && core.ParamOf(l.Cond) == 3:
					force = true
				}
			}
			c.Require(dec0 != nil && dec0 == dec1 && force, r2, key, r.Pos(), "error only for an invalid encoding in strict mode",
				"appendValidStringValue returns an error on a path not dominated by {rune == utf8.RuneError, size <= 1 (same DecodeRune), !force}: strict normalisation fails on something else than invalid UTF-8, or forcing can fail; facts: "+core.FactsString(r.Block()))
			continue
		}
		// success returns: what is appended?
		app := isCall(r.Results[0], "builtin append")
		if app == nil {
			if core.ParamOf(r.Results[0]) == 0 {
				c.Pass(r1, key, r.Pos(), "returns dst unchanged")
			} else {
				c.Undecided(r1, key, r.Pos(), "unclassified result "+core.Term(r.Results[0]))
			}
			continue
		}
		if core.ParamOf(app.Call.Args[1]) == 1 { // fast path: append(dst, src...)
			nfast++
			c.Require(core.Holds(r.Block(), core.F("({2:int} < builtin len({1:[]byte}))")), r1, key, r.Pos(), "fast path under len(src) <= maxLen",
				"the input is returned as it is on a path where len(src) <= maxLen is not established: the result can exceed the length limit")
			continue
		}
		sl, ok := app.Call.Args[1].(*ssa.Slice)
		var buf *ssa.Alloc
		if ok {
			buf, _ = sl.X.(*ssa.Alloc)
		}
		if buf == nil || sl.Low != nil || sl.High == nil {
			c.Undecided(r1, key, r.Pos(), "unclassified append operand "+core.Term(app.Call.Args[1]))
			continue
		}
		nslow++
		// buffer size
		arr, _ := buf.Type().Underlying().(*types.Pointer).Elem().Underlying().(*types.Array)
		c.Require(arr != nil && arr.Len() >= msl+4, r1, key+"/buffer", buf.Pos(), "scratch buffer holds maxLen + UTFMax bytes",
			"the scratch buffer is smaller than MaxStringLen + utf8.UTFMax: EncodeRune at the last accepted position writes past it (panic) ")
		// the write position web
		web := map[ssa.Value]bool{}
		var advances []*ssa.BinOp
		var grow func(v ssa.Value)
		grow = func(v ssa.Value) {
			if v == nil || web[v] {
				return
			}
			web[v] = true
			switch x := v.(type) {
			case *ssa.Phi:
				for _, e := range x.Edges {
					grow(e)
				}
			case *ssa.BinOp:
				switch x.Op {
				case token.SUB:
					if _, isK := x.Y.(*ssa.Const); isK {
						grow(x.X) // w--
					}
				case token.ADD:
					if isCall(x.Y, "unicode/utf8.EncodeRune") != nil {
						advances = append(advances, x)
						grow(x.X)
					} else if _, isK := x.Y.(*ssa.Const); !isK {
						advances = append(advances, x) // advance by something else: must be classified
						grow(x.X)
					}
				}
			}
		}
		grow(sl.High)
		for i, adv := range advances {
			akey := fmt.Sprintf("%s/advance#%d", key, i+1)
			enc := isCall(adv.Y, "unicode/utf8.EncodeRune")
			ok := false
			if enc != nil {
				for _, l := range core.GuardLits(adv.Block()) {
					if l.Op != token.LSS || l.Pol || core.ParamOf(l.X) != 2 {
						continue
					}
					if sum, isSum := l.Y.(*ssa.BinOp); isSum && sum.Op == token.ADD && sum.X == adv.X && sum.Y == adv.Y {
						ok = true
					}
				}
				// the rune is written at the current position of the same buffer
				if dst, isSl := enc.Call.Args[0].(*ssa.Slice); !isSl || dst.X != ssa.Value(buf) || dst.Low != adv.X {
					ok = false
				}
			}
			c.Require(ok, r1, akey, adv.Pos(), "advance under !(maxLen < w+nw)",
				"the write position is advanced by an encoded rune without `w+nw > maxLen → stop` having been tested on these values: the output can exceed maxLen bytes")
		}
		if len(advances) == 0 {
			c.Fail(r1, key+"/advance", r.Pos(), "no advance of the write position found")
		}
	}
	if nerr == 0 {
		c.Fail(r2, name+"/error-return", fn.Pos(), "appendValidStringValue never returns an error (strict mode cannot reject invalid UTF-8)")
	}
	if nfast == 0 || nslow == 0 {
		c.Undecided(r1, name+"/paths", fn.Pos(), fmt.Sprintf("expected a fast-path and a slow-path success return, found %d/%d", nfast, nslow))
	}

	// ---- callers ------------------------------------------------------------------------
	strict := map[string]bool{c11pkg + ".AppendValidStringValue": true}
	sites := core.Callers(c.Prog.Funcs(), name)
	keys := core.Ordinals(sites)
	for i, s := range sites {
		c.CallSites++
		c.Seen(core.FuncName(s.Fn))
		k, isK := core.ConstInt(s.Arg(2))
		c.Require(isK && k == msl, r1, keys[i]+"/maxLen", s.Pos(), "caller passes MaxStringLen", "appendValidStringValue is called with maxLen "+core.Term(s.Arg(2))+", not MaxStringLen: the scratch buffer and the 128-byte bound assume it")
		// does the caller look at the error?
		errUsed := false
		if v := s.Value(); v != nil {
			for _, ref := range core.Referrers(v) {
				switch u := ref.(type) {
				case *ssa.Extract:
					if u.Index == 1 && len(core.Referrers(u)) > 0 {
						errUsed = true
					}
				case *ssa.Return:
					errUsed = true
				}
			}
		}
		forceTrue, forceFalse := core.ConstBool(s.Arg(3), true), core.ConstBool(s.Arg(3), false)
		switch {
		case !errUsed:
			c.Require(forceTrue, r2, keys[i]+"/force", s.Pos(), "error dropped, force = true",
				core.FuncName(s.Fn)+" drops the error of appendValidStringValue but does not pass force = true: invalid UTF-8 silently yields the unnormalised destination")
		case strict[core.FuncName(s.Fn)]:
			c.Require(forceFalse, r2, keys[i]+"/force", s.Pos(), "strict entry point passes force = false",
				core.FuncName(s.Fn)+" is the strict entry point but passes force = "+core.Term(s.Arg(3))+": it can no longer reject invalid UTF-8")
		default:
			c.Require(forceTrue || forceFalse, r2, keys[i]+"/force", s.Pos(), "constant force flag", "force flag is not a constant")
		}
	}
	for n := range strict {
		if c.Prog.Func(n) == nil {
			c.Anchor(r2, n)
		}
	}
	if len(sites) == 0 {
		c.Fail(r1, name+"/callers", fn.Pos(), "no caller")
	}
}

func c11R3(c *core.Check) {
	const rule = "C11-R3"
	c.Rule(rule, "K1+K5 (path cases)", 5, "raw 32-bit: ok only under err==nil && !(i < -2^31) && !(2^32-1 < i) of ParseInt(_,10,64), value int32(i); raw 64-bit: '-' → ParseInt, else ParseUint, base 10/64, ok = err==nil, halves by truncation and >>32")
	const pi = "go4.org/mem.ParseInt"
	const pu = "go4.org/mem.ParseUint"
	// 32 bit
	n32 := c11pkg + ".ContainsRawTagValueBytes"
	if fn := need(c, rule, n32); fn != nil {
		cases, err := core.ReturnCases(fn, 256)
		if err != nil {
			c.Undecided(rule, n32+"/cases", fn.Pos(), err.Error())
		} else {
			nt := 0
			for _, rc := range cases {
				if len(rc.Vals) != 2 || core.ConstBool(rc.Vals[1], false) {
					continue
				}
				nt++
				key := fmt.Sprintf("%s/ok-case#%d", n32, nt)
				if !core.ConstBool(rc.Vals[1], true) {
					rc.Lits = append(append([]core.TermLit{}, rc.Lits...), core.NormTermLit(rc.Vals[1], true, rc.Env))
				}
				// the parse call
				conv, _ := rc.Vals[0].(*ssa.Convert)
				var call *ssa.Call
				if conv != nil {
					if ex, ok := conv.X.(*ssa.Extract); ok && ex.Index == 0 {
						call, _ = ex.Tuple.(*ssa.Call)
					}
				}
				why := ""
				switch {
				case call == nil || core.CalleeName(&call.Call) != pi || core.TypeName(conv.Type()) != "int32":
					why = "the value returned is " + core.Term(rc.Vals[0]) + ", not int32(i) of mem.ParseInt"
				case !c11BaseBits(call, 10, 64):
					why = "the number is not parsed as base 10, 64 bit: " + core.Term(call)
				default:
					iT := core.Term(call) + "#0"
					eT := core.Term(call) + "#1"
					if !rc.Has("("+eT+" == nil)", true) {
						why = "ok without err == nil"
					} else if !rc.Has("("+iT+" < -2147483648)", false) {
						why = "ok without the lower bound i >= -2^31"
					} else if !rc.Has("(4294967295 < "+iT+")", false) {
						why = "ok without the upper bound i <= 2^32-1"
					}
				}
				c.Require(why == "", rule, key, rc.Ret.Pos(), "ok only inside [-2^31, 2^32-1] of a base-10 parse", "ContainsRawTagValueBytes: "+why+"; case: "+rc.LitsString())
			}
			if nt == 0 {
				c.Fail(rule, n32+"/ok-case", fn.Pos(), "ContainsRawTagValueBytes can never return ok")
			}
		}
	}
	// 64 bit
	n64 := c11pkg + ".containsRawTagValue64"
	if fn := need(c, rule, n64); fn != nil {
		nt := 0
		sawSigned, sawUnsigned := false, false
		for _, r := range core.Returns(fn) {
			if len(r.Results) != 3 || core.ConstBool(r.Results[2], false) {
				continue
			}
			nt++
			key := fmt.Sprintf("%s/ok-return#%d", n64, nt)
			// ok = (P#1 == nil)
			l := core.NormLit(r.Results[2], true)
			var call *ssa.Call
			if l.Op == token.EQL && l.Pol && core.IsNil(l.Y) {
				if ex, ok := l.X.(*ssa.Extract); ok && ex.Index == 1 {
					call, _ = ex.Tuple.(*ssa.Call)
				}
			}
			if call == nil {
				c.Fail(rule, key, r.Pos(), "ok is "+core.Term(r.Results[2])+", not `err == nil` of the parse")
				continue
			}
			minus := false
			plus := false
			for _, g := range core.GuardLits(r.Block()) {
				if g.Op == token.EQL {
					if k, ok := core.ConstInt(g.Y); ok && k == '-' {
						if at, ok := g.X.(*ssa.Call); ok && core.CalleeName(&at.Call) == "go4.org/mem.(RO).At" && core.ParamOf(at.Call.Args[0]) == 0 {
							if z, ok := core.ConstInt(at.Call.Args[1]); ok && z == 0 {
								minus, plus = g.Pol, !g.Pol
							}
						}
					}
				}
			}
			i := core.Term(call) + "#0"
			callee := core.CalleeName(&call.Call)
			why := ""
			switch {
			case !minus && !plus:
				why = "the return is not classified by the test of a leading '-'"
			case core.ParamOf(call.Call.Args[0]) != 0 || !c11BaseBits(call, 10, 64):
				why = "the parse is not base 10, 64 bit, of the argument: " + core.Term(call)
			case minus && callee != pi:
				why = "a leading '-' is not parsed with ParseInt"
			case plus && callee != pu:
				why = "a value without leading '-' is not parsed with ParseUint (values above 2^63-1 are rejected)"
			case minus:
				sawSigned = true
				if core.Term(r.Results[0]) != "int32("+i+")" || core.Term(r.Results[1]) != "int32(("+i+" >> 32))" {
					why = "halves are " + core.Term(r.Results[0]) + ", " + core.Term(r.Results[1]) + ", expected int32(i), int32(i >> 32)"
				}
			default:
				sawUnsigned = true
				if core.Term(r.Results[0]) != "int32(uint32("+i+"))" || core.Term(r.Results[1]) != "int32(uint32(("+i+" >> 32)))" {
					why = "halves are " + core.Term(r.Results[0]) + ", " + core.Term(r.Results[1]) + ", expected int32(uint32(i)), int32(uint32(i >> 32))"
				}
			}
			c.Require(why == "", rule, key, r.Pos(), "64-bit raw value parsed and split exactly", "containsRawTagValue64: "+why)
		}
		c.Require(sawSigned && sawUnsigned, rule, n64+"/both-signs", fn.Pos(), "signed and unsigned branch present",
			"containsRawTagValue64 does not have both a ParseInt branch for '-' and a ParseUint branch: the accepted range is not [-2^63, 2^64-1]")
	}
	// exported wrapper
	w64 := c11pkg + ".ContainsRawTagValue64Bytes"
	if fn := need(c, rule, w64); fn != nil {
		ok := false
		for _, s := range core.CallsTo(fn, n64) {
			if b, isCall := s.Arg(0).(*ssa.Call); isCall && core.CalleeName(&b.Call) == "go4.org/mem.B" && core.ParamOf(b.Call.Args[0]) == 0 {
				ok = true
				for _, r := range core.Returns(fn) {
					for i, res := range r.Results {
						if ex, isEx := res.(*ssa.Extract); !isEx || ex.Tuple != s.Value() || ex.Index != i {
							ok = false
						}
					}
				}
			}
		}
		c.Require(ok, rule, w64+"/delegates", fn.Pos(), "returns containsRawTagValue64(mem.B(s)) unchanged", "ContainsRawTagValue64Bytes does not return the results of containsRawTagValue64(mem.B(s)) unchanged")
	}
}

func c11BaseBits(call *ssa.Call, base, bits int64) bool {
	if len(call.Call.Args) != 3 {
		return false
	}
	b, ok1 := core.ConstInt(call.Call.Args[1])
	s, ok2 := core.ConstInt(call.Call.Args[2])
	return ok1 && ok2 && b == base && s == bits
}
