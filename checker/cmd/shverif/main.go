// shverif decides structural necessary conditions of the StatsHouse properties
// from /repo's current source (static analysis; nothing is executed).
package main

import (
	"encoding/json"
	"flag"
	"fmt"
	"os"
	"os/exec"
	"path/filepath"
	"runtime/debug"
	"sort"
	"strconv"
	"strings"
	"sync"
	"time"

	"shverif/core"
	"shverif/props"
)

func usage() {
	fmt.Fprintln(os.Stderr, `usage:
  shverif check <Cxx> [--tier quick|thorough]   run one property check on /repo's working tree
  shverif all [--tier ...]                      run every registered property (one process per property)
  shverif selftest <Cxx>|all                    positive controls: each mutant must be caught, the clean tree must be silent
  shverif list`)
	os.Exit(2)
}

func main() {
	if len(os.Args) < 2 {
		usage()
	}
	switch os.Args[1] {
	case "list":
		for _, id := range props.IDs() {
			fmt.Println(id)
		}
	case "dump":
		if len(os.Args) < 4 {
			usage()
		}
		dump(os.Args[2], os.Args[3:])
	case "check":
		fs := flag.NewFlagSet("check", flag.ExitOnError)
		tier := fs.String("tier", envOr("VERIF_TIER", "quick"), "quick|thorough")
		if len(os.Args) < 3 {
			usage()
		}
		id := os.Args[2]
		_ = fs.Parse(os.Args[3:])
		os.Exit(runCheck(id, *tier))
	case "all":
		fs := flag.NewFlagSet("all", flag.ExitOnError)
		tier := fs.String("tier", envOr("VERIF_TIER", "quick"), "quick|thorough")
		_ = fs.Parse(os.Args[2:])
		rc := 0
		for _, id := range props.IDs() {
			if r := runCheck(id, *tier); r != 0 {
				rc = 1
			}
		}
		os.Exit(rc)
	case "selftest":
		if len(os.Args) < 3 {
			usage()
		}
		ids := []string{os.Args[2]}
		if os.Args[2] == "all" {
			ids = props.IDs()
		}
		rc := 0
		for _, id := range ids {
			if !selftest(id, true) {
				rc = 1
			}
		}
		os.Exit(rc)
	default:
		usage()
	}
}

func envOr(k, d string) string {
	if v := os.Getenv(k); v != "" {
		return v
	}
	return d
}

func seed() int64 {
	s, _ := strconv.ParseInt(os.Getenv("VERIF_SEED"), 10, 64)
	return s
}

// analyse loads the tree (with an optional overlay) and runs the property's rules.
func analyse(p *props.Property, tier string, overlay map[string][]byte) (c *core.Check, res core.Result, err error) {
	defer func() {
		if r := recover(); r != nil {
			err = fmt.Errorf("checker panic: %v\n%s", r, debug.Stack())
		}
	}()
	if ov := os.Getenv("SHVERIF_OVERLAY"); ov != "" && overlay == nil {
		// development aid (benign-edit controls): "repo/rel/file.go=/path/to/replacement;..."
		overlay = map[string][]byte{}
		for _, kv := range strings.Split(ov, ";") {
			if i := strings.Index(kv, "="); i > 0 {
				b, rerr := os.ReadFile(kv[i+1:])
				if rerr != nil {
					return nil, res, rerr
				}
				overlay[filepath.Join(core.RepoDir(), kv[:i])] = b
			}
		}
	}
	pats := p.Pkgs
	if tier == "thorough" {
		pats = []string{"./..."}
	}
	prog, err := core.Load(overlay, pats...)
	if err != nil {
		return nil, res, err
	}
	c = core.NewCheck(p.ID, tier, prog)
	p.Run(c)
	findings, err := core.LoadFindings()
	if err != nil {
		return nil, res, err
	}
	res = c.Finish(findings)
	return c, res, nil
}

func runCheck(id, tier string) int {
	start := time.Now()
	p := props.Get(id)
	if p == nil {
		fmt.Printf("shverif: no such property %s\n", id)
		return 2
	}
	if tier != "quick" && tier != "thorough" {
		fmt.Printf("shverif: bad tier %q\n", tier)
		return 2
	}
	c, res, err := analyse(p, tier, nil)
	if err != nil {
		// a tree that does not type-check, a checker panic: fail loudly, never silently pass
		fmt.Printf("%s: ERROR %v\n", id, err)
		c = core.NewCheck(id, tier, nil)
		c.Decides, c.NotDecided = "nothing (the analysis could not run)", "everything"
		c.Undecided("analysis", "load", 0, err.Error())
		res = c.Finish(nil)
	}
	extra := map[string]any{}
	if tier == "thorough" && err == nil {
		ok, total, stale := 0, 0, 0
		var lines []string
		for _, r := range runMutants(p) {
			total++
			lines = append(lines, r.line)
			switch r.status {
			case "caught":
				ok++
			case "stale":
				stale++
			}
		}
		for _, r := range runSeeded(p) {
			total++
			lines = append(lines, r.line)
			switch r.status {
			case "caught":
				ok++
			case "stale":
				stale++
			}
		}
		extra["positive_controls"] = map[string]any{"total": total, "caught": ok, "stale": stale, "results": lines}
		if ok != total {
			c.Undecided("positive-controls", "selftest", 0, fmt.Sprintf("%d of %d positive controls were not caught (see coverage.positive_controls)", total-ok, total))
			findings, _ := core.LoadFindings()
			res = c.Finish(findings)
		}
	}
	replays, werr := c.WriteEvidence(res, seed(), time.Since(start), extra)
	if werr != nil {
		fmt.Printf("%s: cannot write evidence: %v\n", id, werr)
		return 2
	}
	for _, k := range res.Knowns {
		fmt.Printf("KNOWN-FINDING: property=%s %s @ %s (%s): %s\n", id, k.Rule, k.Site, k.Pos, k.Msg)
	}
	for i, v := range res.Violations {
		fmt.Printf("%s %s: %s @ %s (%s): %s\n", id, strings.ToUpper(string(v.Verdict)), v.Rule, v.Site, v.Pos, v.Msg)
		fmt.Printf("VIOLATION property=%s replay=%s\n", id, replays[i])
	}
	fmt.Printf("%s [%s]: %d obligations, %d discharged, %d known finding(s), %d violation(s), %.1fs, evidence %s\n",
		id, tier, len(res.Obs), res.Discharged, len(res.Knowns), len(res.Violations), time.Since(start).Seconds(),
		filepath.Join(core.VerifDir(), "evidence", id+".json"))
	if len(res.Violations) > 0 {
		return 1
	}
	return 0
}

type mutantResult struct{ status, line string }

// runSeeded replays the seeded changes kept under /verif/seeded (written by independent
// authors, confirmed to break the property while passing the test suite) that this
// property's check is recorded to catch: each patch is applied to copies of the files it
// touches and loaded through the overlay; the check must report a violation.
func runSeeded(p *props.Property) []mutantResult {
	dirs, _ := filepath.Glob(filepath.Join(core.VerifDir(), "seeded", "*", "meta.json"))
	sort.Strings(dirs)
	var out []mutantResult
	for _, mf := range dirs {
		b, err := os.ReadFile(mf)
		if err != nil {
			continue
		}
		var meta struct {
			Seed      string `json:"seed"`
			Detection struct {
				CaughtBy []string `json:"caught_by"`
			} `json:"detection"`
		}
		if json.Unmarshal(b, &meta) != nil {
			continue
		}
		mine := false
		for _, c := range meta.Detection.CaughtBy {
			if c == p.ID {
				mine = true
			}
		}
		if !mine {
			continue
		}
		name := "seeded/" + meta.Seed
		if only := os.Getenv("SHVERIF_ONLY"); only != "" && !strings.Contains(name, only) {
			continue
		}
		overlay, err := patchOverlay(filepath.Join(filepath.Dir(mf), "patch.diff"))
		if err != nil {
			out = append(out, mutantResult{"stale", fmt.Sprintf("%s: STALE control (%v)", name, err)})
			continue
		}
		_, res, err := analyse(p, "quick", overlay)
		switch {
		case err != nil:
			out = append(out, mutantResult{"error", fmt.Sprintf("%s: ERROR does not load: %s", name, firstLine(err.Error()))})
		case len(res.Violations) > 0:
			out = append(out, mutantResult{"caught", fmt.Sprintf("%s: caught by %s @ %s", name, res.Violations[0].Rule, res.Violations[0].Site)})
		default:
			out = append(out, mutantResult{"missed", fmt.Sprintf("%s: MISSED (no rule fired)", name)})
		}
	}
	return out
}

// patchOverlay applies a unified diff to copies of the repository files it touches.
func patchOverlay(patch string) (map[string][]byte, error) {
	data, err := os.ReadFile(patch)
	if err != nil {
		return nil, err
	}
	var files []string
	for _, l := range strings.Split(string(data), "\n") {
		if strings.HasPrefix(l, "+++ b/") {
			files = append(files, strings.TrimSpace(strings.TrimPrefix(l, "+++ b/")))
		}
	}
	if len(files) == 0 {
		return nil, fmt.Errorf("no files in patch")
	}
	tmp, err := os.MkdirTemp("", "shverif-seed")
	if err != nil {
		return nil, err
	}
	defer os.RemoveAll(tmp)
	for _, f := range files {
		src, err := os.ReadFile(filepath.Join(core.RepoDir(), f))
		if err != nil {
			return nil, fmt.Errorf("file %s of the patch no longer exists", f)
		}
		if err := os.MkdirAll(filepath.Dir(filepath.Join(tmp, f)), 0o755); err != nil {
			return nil, err
		}
		if err := os.WriteFile(filepath.Join(tmp, f), src, 0o644); err != nil {
			return nil, err
		}
	}
	cmd := exec.Command("git", "apply", "--whitespace=nowarn", patch)
	cmd.Dir = tmp
	if outb, err := cmd.CombinedOutput(); err != nil {
		return nil, fmt.Errorf("patch no longer applies: %s", firstLine(string(outb)))
	}
	overlay := map[string][]byte{}
	for _, f := range files {
		b, err := os.ReadFile(filepath.Join(tmp, f))
		if err != nil {
			return nil, err
		}
		overlay[filepath.Join(core.RepoDir(), f)] = b
	}
	return overlay, nil
}

// runMutants runs the positive controls of a property, a few at a time (each holds a
// whole loaded program in memory).
func runMutants(p *props.Property) []mutantResult {
	out := make([]mutantResult, len(p.Mutants))
	workers := 4
	if v, err := strconv.Atoi(os.Getenv("SHVERIF_WORKERS")); err == nil && v > 0 {
		workers = v
	}
	sem := make(chan struct{}, workers)
	var wg sync.WaitGroup
	only := os.Getenv("SHVERIF_ONLY") // development aid: run only the controls whose name contains this text
	for i, m := range p.Mutants {
		if only != "" && !strings.Contains(m.Name, only) {
			out[i] = mutantResult{"caught", m.Name + ": skipped (SHVERIF_ONLY)"}
			continue
		}
		wg.Add(1)
		go func(i int, m props.Mutant) {
			defer wg.Done()
			sem <- struct{}{}
			defer func() { <-sem }()
			st, line := runMutant(p, m)
			out[i] = mutantResult{st, line}
		}(i, m)
	}
	wg.Wait()
	return out
}

// runMutant applies one positive control through the loader overlay.
func runMutant(p *props.Property, m props.Mutant) (status, line string) {
	file := filepath.Join(core.RepoDir(), m.File)
	src, err := os.ReadFile(file)
	if err != nil {
		return "stale", fmt.Sprintf("%s: STALE cannot read %s", m.Name, m.File)
	}
	cnt := strings.Count(string(src), m.Old)
	if (m.Occurrence == 0 && cnt != 1) || cnt < m.Occurrence || cnt == 0 {
		return "stale", fmt.Sprintf("%s: STALE control (text to replace occurs %d times in %s, occurrence wanted %d)", m.Name, cnt, m.File, m.Occurrence)
	}
	mut := string(src)
	at := 0
	for k := 1; ; k++ {
		i := strings.Index(mut[at:], m.Old)
		if k == m.Occurrence || m.Occurrence == 0 {
			mut = mut[:at+i] + m.New + mut[at+i+len(m.Old):]
			break
		}
		at += i + len(m.Old)
	}
	_, res, err := analyse(p, "quick", map[string][]byte{file: []byte(mut)})
	if err != nil {
		return "error", fmt.Sprintf("%s: ERROR mutant does not load: %v", m.Name, firstLine(err.Error()))
	}
	for _, v := range res.Violations {
		if v.Rule == m.Rule || strings.HasPrefix(v.Rule, m.Rule) {
			return "caught", fmt.Sprintf("%s: caught by %s @ %s", m.Name, v.Rule, v.Site)
		}
	}
	if len(res.Violations) > 0 {
		return "other", fmt.Sprintf("%s: NOT caught by %s (other rules fired: %s @ %s)", m.Name, m.Rule, res.Violations[0].Rule, res.Violations[0].Site)
	}
	return "missed", fmt.Sprintf("%s: MISSED (no rule fired)", m.Name)
}

func firstLine(s string) string {
	if i := strings.Index(s, "\n"); i >= 0 {
		return s[:i]
	}
	return s
}

func selftest(id string, verbose bool) bool {
	p := props.Get(id)
	if p == nil {
		fmt.Printf("no such property %s\n", id)
		return false
	}
	ok := true
	_, res, err := analyse(p, "quick", nil)
	if err != nil {
		fmt.Printf("%s selftest: clean tree ERROR %v\n", id, err)
		return false
	}
	if len(res.Violations) != 0 {
		fmt.Printf("%s selftest: clean tree is NOT silent (%d violations)\n", id, len(res.Violations))
		ok = false
	}
	for _, r := range append(runMutants(p), runSeeded(p)...) {
		fmt.Printf("%s selftest: %s\n", id, r.line)
		if r.status != "caught" {
			ok = false
		}
	}
	fmt.Printf("%s selftest: %d mutants, ok=%v\n", id, len(p.Mutants), ok)
	return ok
}
