package main

import (
	"fmt"
	"os"
	"strings"

	"golang.org/x/tools/go/ssa"

	"shverif/core"
)

// dump prints, for a function, every call/store/return with the guards that
// dominate it — a development aid for writing rule tables.
func dump(pattern string, names []string) {
	prog, err := core.Load(nil, pattern)
	if err != nil {
		fmt.Println("ERROR", err)
		return
	}
	for _, name := range names {
		var fns []*ssa.Function
		for _, fn := range prog.Funcs() {
			if core.Glob(name, core.FuncName(fn)) {
				fns = append(fns, fn)
			}
		}
		if len(fns) == 0 {
			fmt.Println("no function matches", name)
		}
		for _, fn := range fns {
			fmt.Printf("=== %s\n", core.FuncName(fn))
			if only := os.Getenv("SHV_ONLY"); only != "" {
				dumpOnly(prog, fn, only)
				continue
			}
			for _, b := range fn.Blocks {
				fmt.Printf(" block %d (%s) preds=%v facts: %s\n", b.Index, b.Comment, predIdx(b), core.FactsString(b))
				for _, in := range b.Instrs {
					switch in := in.(type) {
					case ssa.CallInstruction:
						v := ""
						if val, ok := in.(ssa.Value); ok {
							v = val.Name() + " = "
						}
						fmt.Printf("   %s %s%T %s   args=%s\n", prog.Pos(in.Pos()), v, in, core.CalleeName(in.Common()), argList(in.Common()))
					case *ssa.Store:
						fmt.Printf("   %s store %s <- %s\n", prog.Pos(in.Pos()), core.Expr(in.Addr), core.Expr(in.Val))
					case *ssa.MapUpdate:
						fmt.Printf("   %s mapupdate %s[%s] <- %s\n", prog.Pos(in.Pos()), core.Expr(in.Map), core.Expr(in.Key), core.Expr(in.Value))
					case *ssa.Return:
						var rs []string
						for _, r := range in.Results {
							rs = append(rs, core.Expr(r))
						}
						fmt.Printf("   %s return %s\n", prog.Pos(in.Pos()), strings.Join(rs, ", "))
					case *ssa.If:
						fmt.Printf("   if %s -> %d else %d\n", core.Expr(in.Cond), b.Succs[0].Index, b.Succs[1].Index)
					case *ssa.Send:
						fmt.Printf("   %s send %s <- %s\n", prog.Pos(in.Pos()), core.Expr(in.Chan), core.Expr(in.X))
					case *ssa.Panic:
						fmt.Printf("   %s panic\n", prog.Pos(in.Pos()))
					}
				}
			}
		}
	}
}

func predIdx(b *ssa.BasicBlock) []int {
	var out []int
	for _, p := range b.Preds {
		out = append(out, p.Index)
	}
	return out
}

func argList(c *ssa.CallCommon) string {
	var a []string
	if c.IsInvoke() {
		a = append(a, core.Expr(c.Value))
	}
	for _, x := range c.Args {
		a = append(a, core.Expr(x))
	}
	return strings.Join(a, " ; ")
}

// dumpOnly prints returns ("return") or calls whose callee contains the filter, with facts.
func dumpOnly(prog *core.Prog, fn *ssa.Function, only string) {
	for _, b := range fn.Blocks {
		for _, in := range b.Instrs {
			switch in := in.(type) {
			case *ssa.Return:
				if only != "return" {
					continue
				}
				var rs []string
				for _, r := range core.ReturnedValues(in) {
					rs = append(rs, core.Expr(r))
				}
				fmt.Printf(" %s block %d return %s\n      facts: %s\n", prog.Pos(in.Pos()), b.Index, strings.Join(rs, ", "), core.FactsString(b))
			case ssa.CallInstruction:
				if only == "return" || !strings.Contains(core.CalleeName(in.Common()), only) {
					continue
				}
				fmt.Printf(" %s block %d call %s(%s)\n      facts: %s\n", prog.Pos(in.Pos()), b.Index, core.CalleeName(in.Common()), argList(in.Common()), core.FactsString(b))
			}
		}
	}
}
