package core

import (
	"go/ast"
	"go/constant"
	"go/token"
	"go/types"
	"sort"

	"golang.org/x/tools/go/packages"
	"golang.org/x/tools/go/ssa"
)

// K5 registry extraction: keys of map composite literals, case constants of switch
// statements and the constants of an enum type, all resolved through types.Info
// (constant values and objects), never through source text.

// Key is one registry entry.
type Key struct {
	Obj  types.Object   // the constant/variable/function the key expression names (nil for literals)
	Val  constant.Value // constant value, if the key is a constant expression
	Name string         // canonical text: object name (pkg-relative) or constant value
	Pos  token.Pos
	Expr ast.Expr // key expression
	Elt  ast.Expr // value expression of the entry (nil for switch cases / enum constants)
}

// ConstValue returns the value of the package-level constant pkgRel.name.
func (p *Prog) ConstValue(pkgRel, name string) (constant.Value, bool) {
	pk := p.AllPkgs[pkgRel]
	if pk == nil || pk.Types == nil {
		return nil, false
	}
	k, ok := pk.Types.Scope().Lookup(name).(*types.Const)
	if !ok {
		return nil, false
	}
	return k.Val(), true
}

// ConstInt64 returns the integer value of a package-level constant.
func (p *Prog) ConstInt64(pkgRel, name string) (int64, bool) {
	v, ok := p.ConstValue(pkgRel, name)
	if !ok {
		return 0, false
	}
	v = constant.ToInt(v)
	if v.Kind() != constant.Int {
		return 0, false
	}
	return constant.Int64Val(v)
}

// ConstStr returns the string value of a package-level constant.
func (p *Prog) ConstStr(pkgRel, name string) (string, bool) {
	v, ok := p.ConstValue(pkgRel, name)
	if !ok || v.Kind() != constant.String {
		return "", false
	}
	return constant.StringVal(v), true
}

// VarInit returns the initialiser expression of the package-level variable
// pkgRel.name (`var name = <expr>`), resolved through the variable's object.
func (p *Prog) VarInit(pkgRel, name string) (ast.Expr, *packages.Package) {
	pk := p.AllPkgs[pkgRel]
	if pk == nil || pk.Types == nil || pk.TypesInfo == nil {
		return nil, pk
	}
	obj, ok := pk.Types.Scope().Lookup(name).(*types.Var)
	if !ok {
		return nil, pk
	}
	for _, f := range pk.Syntax {
		for _, d := range f.Decls {
			gd, ok := d.(*ast.GenDecl)
			if !ok || gd.Tok != token.VAR {
				continue
			}
			for _, s := range gd.Specs {
				vs := s.(*ast.ValueSpec)
				for i, id := range vs.Names {
					if pk.TypesInfo.Defs[id] == obj && len(vs.Values) == len(vs.Names) {
						return vs.Values[i], pk
					}
				}
			}
		}
	}
	return nil, pk
}

// ResolveKey turns an expression into a Key using the package's type information.
func ResolveKey(pk *packages.Package, e ast.Expr) Key {
	k := Key{Pos: e.Pos(), Expr: e}
	inner := ast.Unparen(e)
	switch x := inner.(type) {
	case *ast.Ident:
		k.Obj = pk.TypesInfo.Uses[x]
	case *ast.SelectorExpr:
		k.Obj = pk.TypesInfo.Uses[x.Sel]
	}
	if tv, ok := pk.TypesInfo.Types[e]; ok && tv.Value != nil {
		k.Val = tv.Value
	}
	switch {
	case k.Obj != nil && k.Obj.Pkg() != nil:
		k.Name = Rel(k.Obj.Pkg().Path()) + "." + k.Obj.Name()
	case k.Obj != nil:
		k.Name = k.Obj.Name()
	case k.Val != nil:
		k.Name = k.Val.ExactString()
	default:
		k.Name = types.ExprString(e)
	}
	return k
}

// CompositeKeys returns the keys of a keyed composite literal (map literal, or
// array/slice literal with index keys) in source order; entries without a key are
// returned with Expr == nil and their ordinal as Name.
func CompositeKeys(pk *packages.Package, lit *ast.CompositeLit) []Key {
	var out []Key
	for _, el := range lit.Elts {
		kv, ok := el.(*ast.KeyValueExpr)
		if !ok {
			out = append(out, Key{Pos: el.Pos(), Elt: el})
			continue
		}
		k := ResolveKey(pk, kv.Key)
		k.Elt = kv.Value
		out = append(out, k)
	}
	return out
}

// CompositeElems returns the element expressions of an unkeyed (or keyed) composite literal.
func CompositeElems(lit *ast.CompositeLit) []ast.Expr {
	var out []ast.Expr
	for _, el := range lit.Elts {
		if kv, ok := el.(*ast.KeyValueExpr); ok {
			out = append(out, kv.Value)
		} else {
			out = append(out, el)
		}
	}
	return out
}

// StructLitField returns the value expression given to the named field in a struct
// composite literal (keyed form, or positional form resolved through the type).
func StructLitField(pk *packages.Package, lit *ast.CompositeLit, field string) ast.Expr {
	for _, el := range lit.Elts {
		if kv, ok := el.(*ast.KeyValueExpr); ok {
			if id, ok := kv.Key.(*ast.Ident); ok {
				if v, ok := pk.TypesInfo.Uses[id].(*types.Var); ok && v.IsField() && v.Name() == field {
					return kv.Value
				}
			}
		}
	}
	tv, ok := pk.TypesInfo.Types[lit]
	if !ok {
		return nil
	}
	st, ok := tv.Type.Underlying().(*types.Struct)
	if !ok {
		return nil
	}
	for i, el := range lit.Elts {
		if _, keyed := el.(*ast.KeyValueExpr); keyed {
			return nil
		}
		if i < st.NumFields() && st.Field(i).Name() == field {
			return el
		}
	}
	return nil
}

// SwitchCaseKeys returns the case expressions of a switch statement; hasDefault
// tells whether a default clause exists.
func SwitchCaseKeys(pk *packages.Package, sw *ast.SwitchStmt) (keys []Key, hasDefault bool) {
	for _, s := range sw.Body.List {
		cc, ok := s.(*ast.CaseClause)
		if !ok {
			continue
		}
		if cc.List == nil {
			hasDefault = true
		}
		for _, e := range cc.List {
			keys = append(keys, ResolveKey(pk, e))
		}
	}
	return keys, hasDefault
}

// EnumConsts lists the package-level constants of pkg whose type is the named type
// typeName, sorted by value then name.
func EnumConsts(pkg *types.Package, typeName string) []Key {
	var out []Key
	if pkg == nil {
		return nil
	}
	tn, _ := pkg.Scope().Lookup(typeName).(*types.TypeName)
	if tn == nil {
		return nil
	}
	for _, n := range pkg.Scope().Names() {
		k, ok := pkg.Scope().Lookup(n).(*types.Const)
		if !ok || !types.Identical(k.Type(), tn.Type()) {
			continue
		}
		out = append(out, Key{Obj: k, Val: k.Val(), Name: Rel(pkg.Path()) + "." + k.Name(), Pos: k.Pos()})
	}
	sort.SliceStable(out, func(i, j int) bool {
		if constant.Compare(out[i].Val, token.LSS, out[j].Val) {
			return true
		}
		if constant.Compare(out[j].Val, token.LSS, out[i].Val) {
			return false
		}
		return out[i].Name < out[j].Name
	})
	return out
}

// ConstExprInt evaluates a constant integer expression through types.Info.
func ConstExprInt(pk *packages.Package, e ast.Expr) (int64, bool) {
	tv, ok := pk.TypesInfo.Types[e]
	if !ok || tv.Value == nil {
		return 0, false
	}
	v := constant.ToInt(tv.Value)
	if v.Kind() != constant.Int {
		return 0, false
	}
	return constant.Int64Val(v)
}

// ConstExprString evaluates a constant string expression through types.Info.
func ConstExprString(pk *packages.Package, e ast.Expr) (string, bool) {
	tv, ok := pk.TypesInfo.Types[e]
	if !ok || tv.Value == nil || tv.Value.Kind() != constant.String {
		return "", false
	}
	return constant.StringVal(tv.Value), true
}

// KeyNames returns the set of key names.
func KeyNames(keys []Key) map[string]Key {
	m := map[string]Key{}
	for _, k := range keys {
		m[k.Name] = k
	}
	return m
}

// FuncDeclOf finds the declaration of the function or method object in its package's syntax.
func FuncDeclOf(pk *packages.Package, obj types.Object) *ast.FuncDecl {
	for _, f := range pk.Syntax {
		for _, d := range f.Decls {
			if fd, ok := d.(*ast.FuncDecl); ok && pk.TypesInfo.Defs[fd.Name] == obj {
				return fd
			}
		}
	}
	return nil
}

// VarLits returns the composite literals that give the package-level variable
// pkgRel.name its value: its declaration initialiser and every assignment
// `name = T{...}` in the package (registries are often filled in init()).
func (p *Prog) VarLits(pkgRel, name string) ([]*ast.CompositeLit, *packages.Package) {
	pk := p.AllPkgs[pkgRel]
	if pk == nil || pk.Types == nil || pk.TypesInfo == nil {
		return nil, pk
	}
	obj, ok := pk.Types.Scope().Lookup(name).(*types.Var)
	if !ok {
		return nil, pk
	}
	var out []*ast.CompositeLit
	if e, _ := p.VarInit(pkgRel, name); e != nil {
		if cl, ok := ast.Unparen(e).(*ast.CompositeLit); ok {
			out = append(out, cl)
		}
	}
	for _, f := range pk.Syntax {
		ast.Inspect(f, func(n ast.Node) bool {
			as, ok := n.(*ast.AssignStmt)
			if !ok || len(as.Lhs) != len(as.Rhs) {
				return true
			}
			for i, l := range as.Lhs {
				id, ok := ast.Unparen(l).(*ast.Ident)
				if !ok || pk.TypesInfo.Uses[id] != obj {
					continue
				}
				if cl, ok := ast.Unparen(as.Rhs[i]).(*ast.CompositeLit); ok {
					out = append(out, cl)
				} else {
					out = append(out, nil) // assigned something that is not a literal
				}
			}
			return true
		})
	}
	return out, pk
}

// GlobalWrite is an instruction that changes a package-level variable or the map /
// slice it holds.
type GlobalWrite struct {
	Fn    *ssa.Function
	Instr ssa.Instruction
	Kind  string // "store" (whole variable), "mapupdate", "delete", "indexstore"
}

// GlobalWrites lists the writes to the package-level variable pkgRel.name in fns.
func GlobalWrites(fns []*ssa.Function, pkgRel, name string) []GlobalWrite {
	isG := func(v ssa.Value) bool {
		g, ok := v.(*ssa.Global)
		return ok && g.Pkg != nil && Rel(g.Pkg.Pkg.Path()) == pkgRel && g.Name() == name
	}
	loadsG := func(v ssa.Value) bool {
		u, ok := v.(*ssa.UnOp)
		return ok && u.Op == token.MUL && isG(u.X)
	}
	var out []GlobalWrite
	for _, fn := range fns {
		for _, b := range fn.Blocks {
			for _, in := range b.Instrs {
				switch in := in.(type) {
				case *ssa.Store:
					if isG(in.Addr) {
						out = append(out, GlobalWrite{fn, in, "store"})
					} else if ia, ok := in.Addr.(*ssa.IndexAddr); ok && (loadsG(ia.X) || isG(ia.X)) {
						out = append(out, GlobalWrite{fn, in, "indexstore"})
					}
				case *ssa.MapUpdate:
					if loadsG(in.Map) {
						out = append(out, GlobalWrite{fn, in, "mapupdate"})
					}
				case *ssa.Call:
					if bi, ok := in.Call.Value.(*ssa.Builtin); ok && bi.Name() == "delete" && len(in.Call.Args) == 2 && loadsG(in.Call.Args[0]) {
						out = append(out, GlobalWrite{fn, in, "delete"})
					}
				}
			}
		}
	}
	return out
}
