package core

import (
	"strings"
	"testing"
)

func TestParseDML(t *testing.T) {
	s, err := ParseSQL("UPDATE metrics_v5 SET version = (SELECT IFNULL(MAX(version), 0) + 1 FROM metrics_v5), data = $data, name = $name WHERE version = $oldVersion AND id = $id;")
	if err != nil {
		t.Fatal(err)
	}
	if s.Verb != "UPDATE" || s.Table != "metrics_v5" || strings.Join(s.SetCols(), ",") != "data,name,version" || strings.Join(s.WhereCols(), ",") != "id =,version =" {
		t.Fatalf("bad shape %s", s.Shape())
	}
	v, _ := s.ValueOf("version")
	if !v.MaxPlusOneOf("version", "metrics_v5") || v.MaxPlusOneOf("version", "metrics_v4") || v.MaxPlusOneOf("id", "metrics_v5") {
		t.Fatalf("max+1 not recognised: %s", v.Norm())
	}
	if p := s.WherePred("version"); p == nil || p.Val.Param != "$oldVersion" {
		t.Fatalf("where version")
	}
	s, err = ParseSQL("INSERT INTO metrics_v5 (id, version, data) VALUES ($id, (SELECT IFNULL(MAX(version), 0) + 1 FROM metrics_v5), $data);")
	if err != nil {
		t.Fatal(err)
	}
	if v, _ := s.ValueOf("version"); !v.MaxPlusOneOf("version", "metrics_v5") {
		t.Fatal("insert max+1")
	}
	if v, _ := s.ValueOf("id"); v.Param != "$id" {
		t.Fatal("insert id")
	}
	s, err = ParseSQL("INSERT OR REPLACE INTO mappings(id, name) VALUES($id, $name);")
	if err != nil || s.Verb != "INSERT OR REPLACE" || s.Table != "mappings" {
		t.Fatalf("%v %v", s, err)
	}
	s, err = ParseSQL("SELECT id, name, version FROM metrics_v5 WHERE version > $version ORDER BY version asc;")
	if err != nil {
		t.Fatal(err)
	}
	if p := s.WherePred("version"); p == nil || p.Op != ">" || p.Val.Param != "$version" || len(s.OrderBy) != 1 || s.OrderBy[0].Col != "version" || s.OrderBy[0].Desc {
		t.Fatalf("journal shape %s", s.Shape())
	}
	s, err = ParseSQL("DELETE FROM mappings WHERE id in ($ids$)")
	if err != nil || s.Where[0].Op != "in" || s.Where[0].Val.Param != "$ids$" {
		t.Fatalf("%v %v", s, err)
	}
	s, err = ParseSQL("SELECT MAX(id) FROM mappings")
	if err != nil || s.Table != "mappings" || s.Cols[0] != "max(id)" {
		t.Fatalf("%v %v", s, err)
	}
	s, err = ParseSQL("UPDATE __binlog_offset set offset = $offset;")
	if err != nil || s.Table != "__binlog_offset" || s.Set[0].Col != "offset" {
		t.Fatalf("%v %v", s, err)
	}
	s, err = ParseSQL("SELECT a FROM t WHERE a = 1 OR b = 2")
	if err != nil || !s.WhereComplex {
		t.Fatalf("%v %v", s, err)
	}
	for _, txt := range []string{"COMMIT", "BEGIN IMMEDIATE", "VACUUM INTO $to"} {
		s, err = ParseSQL(txt)
		if err != nil || s.Verb != txt[:len(s.Verb)] || s.IsDML() {
			t.Fatalf("%q: %v %v", txt, s, err)
		}
	}
	if _, err = ParseSQL("SELECT a FROM t JOIN u"); err == nil {
		t.Fatal("join must be rejected")
	}
}

func TestParseSchema(t *testing.T) {
	sc := ParseSchema(`CREATE TABLE IF NOT EXISTS mappings
(
    id   INTEGER PRIMARY KEY AUTOINCREMENT,
    name TEXT UNIQUE
);
CREATE TABLE IF NOT EXISTS flood_limits
(
    metric_name TEXT PRIMARY KEY,
    last_time_update INTEGER, -- unix ts
    count_free integer -- доступный бюджет
) WITHOUT ROWID;
CREATE TABLE IF NOT EXISTS metrics_v5
(
    id      INTEGER PRIMARY KEY AUTOINCREMENT,
    name    TEXT NOT NULL,
    namespace_id INTEGER NOT NULL,
    version INTEGER UNIQUE NOT NULL,
    UNIQUE (namespace_id, type, name)
) STRICT;
CREATE INDEX IF NOT EXISTS metrics_version_v5 ON metrics_v5 (version);
`)
	if len(sc.Errs) != 0 {
		t.Fatal(sc.Errs)
	}
	m := sc.Tables["mappings"]
	if m == nil || !m.Col("id").AutoIncrement || !m.Col("id").PrimaryKey || m.Col("id").Type != "INTEGER" || !m.Col("name").Unique || !m.HasUnique("name") || !m.HasUnique("id") {
		t.Fatalf("%+v", m)
	}
	f := sc.Tables["flood_limits"]
	if f == nil || !f.HasUnique("metric_name") || f.Options[0] != "WITHOUT ROWID" || len(f.Cols) != 3 {
		t.Fatalf("%+v", f)
	}
	v := sc.Tables["metrics_v5"]
	if v == nil || !v.HasUnique("name", "type", "namespace_id") || v.HasUnique("name", "type") || !v.Col("version").Unique || !v.Col("version").NotNull {
		t.Fatalf("%+v", v)
	}
	p, _ := ParseSQL("UPDATE flood_limits SET last_time_update = $t, count_free = $c WHERE metric_name = $name")
	r, _ := ParseSQL("INSERT OR REPLACE INTO flood_limits (last_time_update, count_free, metric_name) VALUES ($t, $c, $name)")
	if ok, why := WriteShapeCompatible(p, r, sc); !ok {
		t.Fatal(why)
	}
	p, _ = ParseSQL("INSERT INTO mappings (name) VALUES ($name)")
	r, _ = ParseSQL("INSERT INTO mappings (name, id) VALUES ($name, $id)")
	if ok, why := WriteShapeCompatible(p, r, sc); !ok {
		t.Fatal(why)
	}
	if ok, _ := WriteShapeCompatible(p, p, sc); ok {
		t.Fatal("replay without explicit id must be rejected")
	}
	p, _ = ParseSQL("UPDATE metrics_v5 SET version = (SELECT IFNULL(MAX(version), 0) + 1 FROM metrics_v5), name = $name WHERE version = $oldVersion AND id = $id")
	r, _ = ParseSQL("UPDATE metrics_v5 SET version = $newVersion WHERE version = $oldVersion AND name = $name AND id = $id")
	if ok, _ := WriteShapeCompatible(p, r, sc); ok {
		t.Fatal("F6 shape must be rejected")
	}
	r, _ = ParseSQL("UPDATE metrics_v5 SET version = $newVersion, name = $n WHERE id = $id AND version = $v")
	if ok, why := WriteShapeCompatible(p, r, sc); !ok {
		t.Fatal(why)
	}
}
