package core

// K4 lock discipline.
//
// A per-function forward dataflow over go/ssa computes, for every mutex the function
// touches, the set of states the mutex can be in at each instruction (a small powerset
// lattice, so `if x { mu.Lock(); defer mu.Unlock() }` keeps the two paths apart):
//
//	level   R  released below the state at function entry (the function unlocked a
//	           mutex it did not lock)
//	        E  as at entry
//	        Hw locked by this function (Lock / successful TryLock)
//	        Hr read-locked by this function (RLock / successful TryRLock)
//	pending a deferred Unlock / RUnlock is registered and runs at RunDefers
//
// A mutex is identified by the canonical path of its address ("{0:*queue.Queue}.mx",
// "{0:*api.cache2Trim}.cache.mu"); paths never contain local variable names (LockPath).
// Object identity is approximated by these paths (no alias analysis): two different
// loads of the same field path are taken to denote the same object.
//
// "Must hold at instruction I" means: every state in the set is Hw/Hr, or E when the
// function is assumed to be entered with the mutex held (functions named *Locked /
// *Unlocked and functions for which the requirement was inferred).
//
// On top of the dataflow RunLockDiscipline evaluates three obligations:
//
//	(a) calls: a function that requires its receiver's mutex is only called where that
//	    mutex is held (or from another such function on the same receiver);
//	(b) access: protected fields are written (optionally: read) with the mutex held;
//	(c) balance: on every path to a return each in-scope mutex is back in its entry
//	    state, is never locked twice / unlocked twice, except for the functions listed
//	    with a documented effect (LockEffect: "returns locked", "unlocks the caller's lock").

import (
	"fmt"
	"go/token"
	"go/types"
	"sort"
	"strings"

	"golang.org/x/tools/go/ssa"
)

// ---- canonical paths ----------------------------------------------------------------

// LockPath renders the value of a pointer/address as a canonical path over parameters,
// free variables, fields and indices. It differs from Expr in three ways that matter for
// identity: free variables carry their index, address-taken locals carry an ordinal
// (two locals of one type are different objects) and a cell that only ever holds a
// parameter (a parameter captured by a closure) is rendered as that parameter.
func LockPath(v ssa.Value) string { return lockPath(v, 0, map[ssa.Value]bool{}) }

func lockPath(v ssa.Value, d int, seen map[ssa.Value]bool) string {
	if v == nil {
		return "<nil>"
	}
	if d > maxExprDepth {
		return "…"
	}
	r := func(x ssa.Value) string { return lockPath(x, d+1, seen) }
	switch v := v.(type) {
	case *ssa.FreeVar:
		idx := -1
		if v.Parent() != nil {
			for i, fv := range v.Parent().FreeVars {
				if fv == v {
					idx = i
				}
			}
		}
		// a captured variable is a pointer to the variable: render as an address so that a
		// load of it yields the variable itself
		t := v.Type()
		if p, ok := t.Underlying().(*types.Pointer); ok {
			t = p.Elem()
		}
		return fmt.Sprintf("&{free#%d:%s}", idx, ShortType(t))
	case *ssa.Alloc:
		if p := cellParam(v); p != nil {
			return "&" + Expr(p)
		}
		t := v.Type()
		if p, ok := t.Underlying().(*types.Pointer); ok {
			t = p.Elem()
		}
		return fmt.Sprintf("&{local#%d:%s}", allocOrdinal(v), ShortType(t))
	case *ssa.FieldAddr:
		return "&" + fieldBase(r(v.X)) + "." + fieldName(v.X.Type(), v.Field)
	case *ssa.Field:
		return r(v.X) + "." + fieldName(v.X.Type(), v.Field)
	case *ssa.IndexAddr:
		return "&" + fieldBase(r(v.X)) + "[" + r(v.Index) + "]"
	case *ssa.Index:
		return r(v.X) + "[" + r(v.Index) + "]"
	case *ssa.Lookup:
		return r(v.X) + "[" + r(v.Index) + "]"
	case *ssa.UnOp:
		if v.Op == token.MUL {
			s := r(v.X)
			if strings.HasPrefix(s, "&") {
				return s[1:]
			}
			return "*" + s
		}
	case *ssa.ChangeType:
		return r(v.X)
	case *ssa.Convert:
		return r(v.X)
	case *ssa.MakeInterface:
		return r(v.X)
	case *ssa.ChangeInterface:
		return r(v.X)
	case *ssa.Phi:
		if seen[v] {
			return "phi…"
		}
		seen[v] = true
		uniq := map[string]bool{}
		var parts []string
		for _, e := range v.Edges {
			s := r(e)
			if !uniq[s] {
				uniq[s] = true
				parts = append(parts, s)
			}
		}
		delete(seen, v)
		if len(parts) == 1 {
			return parts[0]
		}
		return "phi(" + strings.Join(parts, " | ") + ")"
	}
	return Expr(v)
}

// ObjKey is the path of the object a pointer value points to ("&" of addresses stripped).
func ObjKey(ptr ssa.Value) string { return strings.TrimPrefix(LockPath(ptr), "&") }

// cellParam returns the parameter held by a cell that is assigned exactly once, from a
// parameter of its function (go/ssa spills parameters captured by closures).
func cellParam(a *ssa.Alloc) *ssa.Parameter {
	sts := CellStores(a)
	if len(sts) != 1 {
		return nil
	}
	p, ok := sts[0].Val.(*ssa.Parameter)
	if !ok || sts[0].Parent() != a.Parent() {
		return nil
	}
	return p
}

func allocOrdinal(a *ssa.Alloc) int {
	fn := a.Parent()
	n := 0
	if fn != nil {
		for _, b := range fn.Blocks {
			for _, in := range b.Instrs {
				if x, ok := in.(*ssa.Alloc); ok {
					if x == a {
						return n
					}
					n++
				}
			}
		}
	}
	return -1
}

// ---- lock operations ----------------------------------------------------------------

// LockOpKind is the kind of a mutex operation.
type LockOpKind int

const (
	OpLock LockOpKind = iota
	OpRLock
	OpUnlock
	OpRUnlock
	OpTryLock
	OpTryRLock
)

func (k LockOpKind) String() string {
	return [...]string{"Lock", "RLock", "Unlock", "RUnlock", "TryLock", "TryRLock"}[k]
}

// MutexRef identifies a mutex at an operation.
type MutexRef struct {
	Key     string // canonical path of the mutex
	Owner   string // named struct type holding the mutex field ("internal/api.cache2"), "" if unknown
	Field   string // mutex field name
	BaseKey string // path of the owner object
}

// LockOp is one mutex operation in a function.
type LockOp struct {
	Instr    ssa.Instruction
	Kind     LockOpKind
	Mutex    MutexRef
	Deferred bool
}

var lockCallees = map[string]LockOpKind{
	"sync.(*Mutex).Lock":       OpLock,
	"sync.(*Mutex).Unlock":     OpUnlock,
	"sync.(*Mutex).TryLock":    OpTryLock,
	"sync.(*RWMutex).Lock":     OpLock,
	"sync.(*RWMutex).Unlock":   OpUnlock,
	"sync.(*RWMutex).RLock":    OpRLock,
	"sync.(*RWMutex).RUnlock":  OpRUnlock,
	"sync.(*RWMutex).TryLock":  OpTryLock,
	"sync.(*RWMutex).TryRLock": OpTryRLock,
}

// MutexOf describes the mutex whose address is addr.
func MutexOf(addr ssa.Value) MutexRef {
	ref := MutexRef{Key: ObjKey(addr)}
	fa, ok := addr.(*ssa.FieldAddr)
	if !ok {
		// pointer-typed mutex field: load of a field address
		if u, isLoad := addr.(*ssa.UnOp); isLoad && u.Op == token.MUL {
			fa, ok = u.X.(*ssa.FieldAddr)
		}
	}
	if ok {
		if n, isNamed := namedStruct(fa.X.Type()); isNamed {
			ref.Owner = TypeName(n.Origin())
		}
		ref.Field = fieldName(fa.X.Type(), fa.Field)
		ref.BaseKey = ObjKey(fa.X)
	}
	return ref
}

// ClassifyLockOp recognises Lock/Unlock/... calls (plain and deferred) on sync mutexes.
func ClassifyLockOp(in ssa.Instruction) (LockOp, bool) {
	ci, ok := in.(ssa.CallInstruction)
	if !ok {
		return LockOp{}, false
	}
	if _, isGo := in.(*ssa.Go); isGo {
		return LockOp{}, false
	}
	com := ci.Common()
	if com.IsInvoke() {
		return LockOp{}, false
	}
	kind, ok := lockCallees[CalleeName(com)]
	if !ok || len(com.Args) == 0 {
		return LockOp{}, false
	}
	_, deferred := in.(*ssa.Defer)
	return LockOp{Instr: in, Kind: kind, Mutex: MutexOf(com.Args[0]), Deferred: deferred}, true
}

// LockEffect documents a function whose call changes the lock state of the caller:
// "returns with <On>.<Field> locked" (Op = OpLock) or "unlocks <On>.<Field> that the
// caller locked" (Op = OpUnlock). On is "result", "recv" (argument 0) or "argN".
type LockEffect struct {
	Func   string
	Op     LockOpKind
	On     string
	Type   string // owner type of the mutex
	Field  string
	Reason string
}

// ---- dataflow -----------------------------------------------------------------------

const (
	lvR = iota
	lvE
	lvHw
	lvHr
)

const (
	pdNone = iota
	pdUnlock
	pdRUnlock
)

func stBit(lv, pd int) uint16 { return 1 << uint(lv*3+pd) }

var stEntry = stBit(lvE, pdNone)

type lockState map[string]uint16

func (s lockState) get(k string) uint16 {
	if v, ok := s[k]; ok {
		return v
	}
	return stEntry
}

func (s lockState) clone() lockState {
	o := make(lockState, len(s))
	for k, v := range s {
		o[k] = v
	}
	return o
}

func joinStates(a, b lockState) lockState {
	o := lockState{}
	for k, v := range a {
		o[k] = v | b.get(k)
	}
	for k, v := range b {
		if _, ok := a[k]; !ok {
			o[k] = v | stEntry
		}
	}
	return o
}

func sameStates(a, b lockState) bool {
	for k, v := range a {
		if b.get(k) != v {
			return false
		}
	}
	for k, v := range b {
		if a.get(k) != v {
			return false
		}
	}
	return true
}

// mapSet applies f to every (level, pending) member of a state set.
func mapSet(set uint16, f func(lv, pd int) (int, int)) uint16 {
	var out uint16
	for lv := 0; lv < 4; lv++ {
		for pd := 0; pd < 3; pd++ {
			if set&stBit(lv, pd) != 0 {
				nl, np := f(lv, pd)
				out |= stBit(nl, np)
			}
		}
	}
	return out
}

func applyOp(lv int, k LockOpKind) int {
	switch k {
	case OpLock, OpTryLock:
		if lv == lvR {
			return lvE
		}
		return lvHw
	case OpRLock, OpTryRLock:
		switch lv {
		case lvR:
			return lvE
		case lvE:
			return lvHr
		}
		return lv
	case OpUnlock, OpRUnlock:
		switch lv {
		case lvHw, lvHr:
			return lvE
		}
		return lvR
	}
	return lv
}

// LockMode is the way a mutex is held.
type LockMode int

const (
	NotHeld LockMode = iota
	HeldRead
	HeldWrite
)

// LockEvent is a defect or an unclassifiable situation found by the dataflow.
type LockEvent struct {
	Instr ssa.Instruction
	Mutex MutexRef
	Kind  string // "double-lock", "double-unlock", "lock-held-by-caller", "leak", "released-callers-lock", "mode-mismatch", "deferred-twice"
	Msg   string
}

// LockInfo is the result of the dataflow for one function.
type LockInfo struct {
	Fn        *ssa.Function
	EntryHeld map[string]LockMode
	Ops       []LockOp
	Refs      map[string]MutexRef // every mutex key seen
	in        map[*ssa.BasicBlock]lockState
	an        *LockAnalyzer
}

// LockAnalyzer runs and caches the per-function dataflow.
type LockAnalyzer struct {
	// Effects by callee name.
	Effects map[string][]LockEffect
	// EntryHeld gives the mutexes assumed held on entry of fn (nil = none).
	EntryHeld func(fn *ssa.Function) map[string]LockMode
	cache     map[*ssa.Function]*LockInfo
}

// Invalidate drops the cached result of fn (its entry assumption changed).
func (a *LockAnalyzer) Invalidate(fn *ssa.Function) { delete(a.cache, fn) }

// effectOps translates the documented effects of a call into lock operations.
func (a *LockAnalyzer) effectOps(in ssa.Instruction) []LockOp {
	ci, ok := in.(ssa.CallInstruction)
	if !ok || a.Effects == nil {
		return nil
	}
	if _, isGo := in.(*ssa.Go); isGo {
		return nil
	}
	effs := a.Effects[CalleeName(ci.Common())]
	var out []LockOp
	for _, e := range effs {
		var obj ssa.Value
		switch {
		case e.On == "result":
			if v, ok := in.(ssa.Value); ok {
				obj = v
			}
		case e.On == "recv":
			obj = Site{Instr: ci}.Arg(0)
		case strings.HasPrefix(e.On, "arg"):
			var n int
			fmt.Sscanf(e.On, "arg%d", &n)
			obj = Site{Instr: ci}.Arg(n)
		}
		if obj == nil {
			continue
		}
		base := ObjKey(obj)
		_, deferred := in.(*ssa.Defer)
		out = append(out, LockOp{Instr: in, Kind: e.Op, Deferred: deferred,
			Mutex: MutexRef{Key: base + "." + e.Field, Owner: e.Type, Field: e.Field, BaseKey: base}})
	}
	return out
}

func (a *LockAnalyzer) opsOf(in ssa.Instruction) []LockOp {
	if op, ok := ClassifyLockOp(in); ok {
		return []LockOp{op}
	}
	return a.effectOps(in)
}

// Info analyses fn (cached).
func (a *LockAnalyzer) Info(fn *ssa.Function) *LockInfo {
	if a.cache == nil {
		a.cache = map[*ssa.Function]*LockInfo{}
	}
	if li, ok := a.cache[fn]; ok {
		return li
	}
	li := &LockInfo{Fn: fn, an: a, in: map[*ssa.BasicBlock]lockState{}, Refs: map[string]MutexRef{}, EntryHeld: map[string]LockMode{}}
	if a.EntryHeld != nil {
		for k, m := range a.EntryHeld(fn) {
			li.EntryHeld[k] = m
		}
	}
	a.cache[fn] = li
	if len(fn.Blocks) == 0 {
		return li
	}
	for _, b := range fn.Blocks {
		for _, in := range b.Instrs {
			for _, op := range a.opsOf(in) {
				li.Ops = append(li.Ops, op)
				li.Refs[op.Mutex.Key] = op.Mutex
			}
		}
	}
	if len(li.Ops) == 0 {
		// nothing changes: every block has the entry state
		for _, b := range fn.Blocks {
			if b.Index == 0 || len(b.Preds) > 0 {
				li.in[b] = lockState{}
			}
		}
		return li
	}
	li.in[fn.Blocks[0]] = lockState{}
	work := []*ssa.BasicBlock{fn.Blocks[0]}
	for len(work) > 0 {
		b := work[0]
		work = work[1:]
		out := li.flowBlock(b, nil)
		for _, s := range b.Succs {
			es := li.edge(b, s, out)
			old, seen := li.in[s]
			var nw lockState
			if !seen {
				nw = es.clone()
			} else {
				nw = joinStates(old, es)
			}
			if !seen || !sameStates(old, nw) {
				li.in[s] = nw
				work = append(work, s)
			}
		}
	}
	return li
}

// flowBlock pushes the in-state of b through its instructions; visit (if non-nil) sees
// the state before each instruction.
func (li *LockInfo) flowBlock(b *ssa.BasicBlock, visit func(in ssa.Instruction, st lockState)) lockState {
	st := li.in[b].clone()
	for _, in := range b.Instrs {
		if visit != nil {
			visit(in, st)
		}
		li.step(st, in)
	}
	return st
}

func (li *LockInfo) step(st lockState, in ssa.Instruction) {
	if _, ok := in.(*ssa.RunDefers); ok {
		for k, set := range st {
			st[k] = mapSet(set, func(lv, pd int) (int, int) {
				switch pd {
				case pdUnlock:
					return applyOp(lv, OpUnlock), pdNone
				case pdRUnlock:
					return applyOp(lv, OpRUnlock), pdNone
				}
				return lv, pd
			})
		}
		return
	}
	for _, op := range li.an.opsOf(in) {
		set := st.get(op.Mutex.Key)
		switch {
		case op.Kind == OpTryLock || op.Kind == OpTryRLock:
			// effect is on the true edge of the branch testing the result (edge())
		case op.Deferred:
			if op.Kind == OpUnlock || op.Kind == OpRUnlock {
				pd := pdUnlock
				if op.Kind == OpRUnlock {
					pd = pdRUnlock
				}
				st[op.Mutex.Key] = mapSet(set, func(lv, _ int) (int, int) { return lv, pd })
			}
			// a deferred Lock is not modelled (reported by events())
		default:
			k := op.Kind
			st[op.Mutex.Key] = mapSet(set, func(lv, pd int) (int, int) { return applyOp(lv, k), pd })
		}
	}
}

// edge applies the effect of a successful TryLock on the edge where its result is true.
func (li *LockInfo) edge(from, to *ssa.BasicBlock, out lockState) lockState {
	if len(from.Instrs) == 0 {
		return out
	}
	ifi, ok := from.Instrs[len(from.Instrs)-1].(*ssa.If)
	if !ok || len(from.Succs) != 2 || from.Succs[0] == from.Succs[1] {
		return out
	}
	cond, pol := ifi.Cond, from.Succs[0] == to
	for {
		if u, ok := cond.(*ssa.UnOp); ok && u.Op == token.NOT {
			cond, pol = u.X, !pol
			continue
		}
		break
	}
	call, ok := cond.(*ssa.Call)
	if !ok || !pol {
		return out
	}
	op, ok := ClassifyLockOp(call)
	if !ok || (op.Kind != OpTryLock && op.Kind != OpTryRLock) {
		return out
	}
	st := out.clone()
	k := op.Kind
	st[op.Mutex.Key] = mapSet(st.get(op.Mutex.Key), func(lv, pd int) (int, int) { return applyOp(lv, k), pd })
	return st
}

// Reachable reports whether the dataflow reached the block (the recover block of a
// function with defer is not reachable).
func (li *LockInfo) Reachable(b *ssa.BasicBlock) bool { _, ok := li.in[b]; return ok }

// stateBefore computes the state right before an instruction.
func (li *LockInfo) stateBefore(at ssa.Instruction) (lockState, bool) {
	b := at.Block()
	if !li.Reachable(b) {
		return nil, false
	}
	st := li.in[b].clone()
	for _, in := range b.Instrs {
		if in == at {
			return st, true
		}
		li.step(st, in)
	}
	return nil, false
}

// HeldAt returns the weakest mode in which the mutex is held on every path reaching the
// instruction (NotHeld if some path reaches it without the lock).
func (li *LockInfo) HeldAt(at ssa.Instruction, key string) LockMode {
	st, ok := li.stateBefore(at)
	if !ok {
		return NotHeld
	}
	return li.modeOf(st.get(key), key)
}

func (li *LockInfo) modeOf(set uint16, key string) LockMode {
	mode := HeldWrite
	for lv := 0; lv < 4; lv++ {
		for pd := 0; pd < 3; pd++ {
			if set&stBit(lv, pd) == 0 {
				continue
			}
			switch lv {
			case lvHw:
			case lvHr:
				if mode > HeldRead {
					mode = HeldRead
				}
			case lvE:
				m := li.EntryHeld[key]
				if m == NotHeld {
					return NotHeld
				}
				if m < mode {
					mode = m
				}
			default:
				return NotHeld
			}
		}
	}
	return mode
}

// HeldByEntryOnly reports whether the mutex is held at the instruction only because of
// the entry assumption on some path (used to propagate write requirements to callers).
func (li *LockInfo) HeldByEntryOnly(at ssa.Instruction, key string) bool {
	st, ok := li.stateBefore(at)
	if !ok {
		return false
	}
	set := st.get(key)
	for pd := 0; pd < 3; pd++ {
		if set&stBit(lvE, pd) != 0 {
			return true
		}
	}
	return false
}

// HeldKeys lists the mutexes held on every path at the instruction.
func (li *LockInfo) HeldKeys(at ssa.Instruction) []string {
	st, ok := li.stateBefore(at)
	if !ok {
		return nil
	}
	keys := map[string]bool{}
	for k := range st {
		keys[k] = true
	}
	for k := range li.EntryHeld {
		keys[k] = true
	}
	var out []string
	for k := range keys {
		if li.modeOf(st.get(k), k) != NotHeld {
			out = append(out, k)
		}
	}
	sort.Strings(out)
	return out
}

func setString(set uint16) string {
	var parts []string
	names := [...]string{"released", "as-at-entry", "locked", "read-locked"}
	for lv := 0; lv < 4; lv++ {
		for pd := 0; pd < 3; pd++ {
			if set&stBit(lv, pd) != 0 {
				s := names[lv]
				if pd != pdNone {
					s += "+deferred-unlock"
				}
				parts = append(parts, s)
			}
		}
	}
	return "{" + strings.Join(parts, ", ") + "}"
}

// Events reports lock-state defects of the function for the mutexes accepted by inScope.
func (li *LockInfo) Events(inScope func(MutexRef) bool) []LockEvent {
	var evs []LockEvent
	add := func(in ssa.Instruction, m MutexRef, kind, msg string) {
		evs = append(evs, LockEvent{Instr: in, Mutex: m, Kind: kind, Msg: msg})
	}
	has := func(set uint16, lv int) bool {
		return set&(stBit(lv, 0)|stBit(lv, 1)|stBit(lv, 2)) != 0
	}
	for _, b := range li.Fn.Blocks {
		if !li.Reachable(b) {
			continue
		}
		li.flowBlock(b, func(in ssa.Instruction, st lockState) {
			if _, isRet := in.(*ssa.Return); isRet {
				keys := make([]string, 0, len(st))
				for k := range st {
					keys = append(keys, k)
				}
				sort.Strings(keys)
				for _, k := range keys {
					ref := li.Refs[k]
					if !inScope(ref) {
						continue
					}
					set := st[k]
					switch {
					case set == stEntry:
					case has(set, lvHw) || has(set, lvHr):
						add(in, ref, "leak", fmt.Sprintf("a path reaches this return with %s still locked (possible states %s)", k, setString(set)))
					case has(set, lvR):
						add(in, ref, "released-callers-lock", fmt.Sprintf("a path reaches this return with %s unlocked although this function did not lock it (possible states %s)", k, setString(set)))
					default:
						add(in, ref, "pending-defer", fmt.Sprintf("deferred unlock of %s not executed before return (possible states %s)", k, setString(set)))
					}
				}
				return
			}
			for _, op := range li.an.opsOf(in) {
				if !inScope(op.Mutex) {
					continue
				}
				set := st.get(op.Mutex.Key)
				k := op.Mutex.Key
				if op.Deferred {
					if op.Kind == OpLock || op.Kind == OpRLock {
						add(in, op.Mutex, "deferred-lock", "deferred Lock is not modelled")
					} else if set&(stBit(lvR, 1)|stBit(lvR, 2)|stBit(lvE, 1)|stBit(lvE, 2)|stBit(lvHw, 1)|stBit(lvHw, 2)|stBit(lvHr, 1)|stBit(lvHr, 2)) != 0 {
						add(in, op.Mutex, "deferred-twice", fmt.Sprintf("a second deferred unlock of %s is registered while one is pending", k))
					}
					continue
				}
				switch op.Kind {
				case OpLock:
					if has(set, lvHw) || has(set, lvHr) {
						add(in, op.Mutex, "double-lock", fmt.Sprintf("%s is locked here while a path reaches this point with it already locked by this function (self-deadlock); states %s", k, setString(set)))
					} else if has(set, lvE) && li.EntryHeld[k] != NotHeld {
						add(in, op.Mutex, "lock-held-by-caller", fmt.Sprintf("%s is locked here although the function is entered with it held (self-deadlock)", k))
					}
				case OpRLock:
					if has(set, lvHw) {
						add(in, op.Mutex, "double-lock", fmt.Sprintf("%s is read-locked while write-locked by this function (self-deadlock)", k))
					} else if has(set, lvE) && li.EntryHeld[k] == HeldWrite {
						add(in, op.Mutex, "lock-held-by-caller", fmt.Sprintf("%s is read-locked here although the function is entered with it held", k))
					}
				case OpUnlock, OpRUnlock:
					if has(set, lvR) {
						add(in, op.Mutex, "double-unlock", fmt.Sprintf("%s is unlocked here while a path reaches this point with it already released (unlock of unlocked mutex panics); states %s", k, setString(set)))
					} else if has(set, lvE) && li.EntryHeld[k] == NotHeld {
						add(in, op.Mutex, "unlock-not-locked", fmt.Sprintf("%s is unlocked here but a path reaches this point on which this function has not locked it; states %s", k, setString(set)))
					}
					if op.Kind == OpUnlock && has(set, lvHr) && !has(set, lvHw) {
						add(in, op.Mutex, "mode-mismatch", fmt.Sprintf("%s is read-locked but released with Unlock", k))
					}
					if op.Kind == OpRUnlock && has(set, lvHw) && !has(set, lvHr) {
						add(in, op.Mutex, "mode-mismatch", fmt.Sprintf("%s is write-locked but released with RUnlock", k))
					}
				}
			}
		})
	}
	return evs
}

// ---- discipline ---------------------------------------------------------------------

// GuardedType describes which mutex protects which fields of a struct type and which
// method-name suffixes mean "the caller holds that mutex".
type GuardedType struct {
	Type  string // "internal/util/queue.Queue"
	Mutex string // mutex field (of Type, or of OwnerType when set)
	// OwnerType/OwnerField: the mutex lives in the owner struct and objects of Type are
	// reached as owner.OwnerField (e.g. pointsCache.invalidatedAtNano under pointsCache.cacheMu).
	OwnerType, OwnerField string
	Fields                []string // protected fields
	CheckReads            bool     // reads need the lock too (otherwise only writes)
	// ReadOnlyCalls: callee globs that only read when invoked on (the address or the loaded
	// value of) a protected field; every other call on a protected field counts as a write.
	ReadOnlyCalls []string
	Suffixes      []string // method-name suffixes meaning "caller holds the lock"
}

// LockSpec is the rule table of one lock-discipline check.
type LockSpec struct {
	RuleCalls, RuleAccess, RuleBalance string // rule ids ("" = obligation kind not evaluated)
	Types                              []GuardedType
	Effects                            []LockEffect
	Funcs                              []*ssa.Function // functions analysed
	// CallerFuncs: where call sites of lock-requiring functions are searched (default Funcs).
	CallerFuncs []*ssa.Function
	// ExemptAccess: functions whose accesses are not checked, with the reason
	// (constructors are exempt automatically when the object is allocated in the function).
	ExemptAccess map[string]string
}

// LockReport is returned for further, property-specific queries.
type LockReport struct {
	An       *LockAnalyzer
	Requires map[*ssa.Function]string // function -> "declared"/"inferred": needs its receiver's mutex
	NeedW    map[*ssa.Function]bool
	NCalls   int
	NAccess  int
	NFuncs   int
}

func (s *LockSpec) typeOf(name string) *GuardedType {
	for i := range s.Types {
		if s.Types[i].Type == name {
			return &s.Types[i]
		}
	}
	return nil
}

// recvType returns the named struct type of fn's receiver (methods only).
func recvTypeName(fn *ssa.Function) string {
	if fn.Signature.Recv() == nil {
		return ""
	}
	if n, ok := namedStruct(fn.Signature.Recv().Type()); ok {
		return TypeName(n.Origin())
	}
	return ""
}

// requiredKey gives the mutex key that guards object `obj` (a pointer to a guarded type):
// obj.mutex, or owner.mutex when the type is guarded by its owner's mutex and obj is the
// load of owner.OwnerField; otherwise a pseudo key that only an entry assumption satisfies.
func (g *GuardedType) requiredKey(obj ssa.Value) string {
	if g.OwnerType == "" {
		return ObjKey(obj) + "." + g.Mutex
	}
	if u, ok := obj.(*ssa.UnOp); ok && u.Op == token.MUL {
		if IsField(u.X, g.OwnerType, g.OwnerField) {
			return ObjKey(u.X.(*ssa.FieldAddr).X) + "." + g.Mutex
		}
	}
	return ObjKey(obj) + ".^" + g.Mutex
}

func (s *LockSpec) inScope(m MutexRef) bool {
	for _, g := range s.Types {
		owner := g.Type
		if g.OwnerType != "" {
			owner = g.OwnerType
		}
		if m.Owner == owner && m.Field == g.Mutex {
			return true
		}
	}
	return false
}

// fieldAccess is one access to a protected field.
type fieldAccess struct {
	fn    *ssa.Function
	instr ssa.Instruction
	g     *GuardedType
	field string
	obj   ssa.Value // pointer to the guarded object
	write bool
	what  string
}

func exported(fn *ssa.Function) bool {
	return fn.Parent() == nil && fn.Object() != nil && fn.Object().Exported()
}

// collectAccesses finds the accesses to protected fields in fn.
func (s *LockSpec) collectAccesses(fn *ssa.Function) []fieldAccess {
	var out []fieldAccess
	for _, b := range fn.Blocks {
		for _, in := range b.Instrs {
			fa, ok := in.(*ssa.FieldAddr)
			if !ok {
				continue
			}
			n, isNamed := namedStruct(fa.X.Type())
			if !isNamed {
				continue
			}
			g := s.typeOf(TypeName(n.Origin()))
			if g == nil {
				continue
			}
			fname := fieldName(fa.X.Type(), fa.Field)
			prot := false
			for _, f := range g.Fields {
				if f == fname {
					prot = true
				}
			}
			if !prot {
				continue
			}
			s.usesOfAddr(fn, g, fname, fa.X, fa, &out, 0)
		}
	}
	return out
}

func (s *LockSpec) readOnlyCall(g *GuardedType, com *ssa.CallCommon) bool {
	return GlobAny(g.ReadOnlyCalls, CalleeName(com))
}

// usesOfAddr classifies the uses of the address of (a part of) a protected field.
func (s *LockSpec) usesOfAddr(fn *ssa.Function, g *GuardedType, field string, obj ssa.Value, addr ssa.Value, out *[]fieldAccess, d int) {
	if d > 6 {
		return
	}
	add := func(in ssa.Instruction, write bool, what string) {
		*out = append(*out, fieldAccess{fn: fn, instr: in, g: g, field: field, obj: obj, write: write, what: what})
	}
	for _, ref := range Referrers(addr) {
		switch r := ref.(type) {
		case *ssa.Store:
			if r.Addr == addr {
				add(r, true, "store")
			}
		case *ssa.UnOp:
			if r.Op == token.MUL {
				add(r, false, "load")
				s.usesOfLoaded(fn, g, field, obj, r, out, d+1)
			}
		case *ssa.FieldAddr:
			s.usesOfAddr(fn, g, field, obj, r, out, d+1)
		case *ssa.IndexAddr:
			s.usesOfAddr(fn, g, field, obj, r, out, d+1)
		case ssa.CallInstruction:
			com := r.Common()
			if s.readOnlyCall(g, com) {
				add(r, false, "call "+CalleeName(com))
			} else if _, ok := lockCallees[CalleeName(com)]; !ok {
				add(r, true, "call "+CalleeName(com))
			}
		}
	}
}

// usesOfLoaded classifies the uses of the value loaded from a protected field (maps,
// slices and pointers give access to shared state).
func (s *LockSpec) usesOfLoaded(fn *ssa.Function, g *GuardedType, field string, obj ssa.Value, v ssa.Value, out *[]fieldAccess, d int) {
	if d > 6 {
		return
	}
	add := func(in ssa.Instruction, write bool, what string) {
		*out = append(*out, fieldAccess{fn: fn, instr: in, g: g, field: field, obj: obj, write: write, what: what})
	}
	switch v.Type().Underlying().(type) {
	case *types.Map, *types.Slice, *types.Pointer:
	default:
		return
	}
	for _, ref := range Referrers(v) {
		switch r := ref.(type) {
		case *ssa.MapUpdate:
			if r.Map == v {
				add(r, true, "map update")
			}
		case *ssa.Lookup:
			if r.X == v {
				add(r, false, "map lookup")
			}
		case *ssa.Range:
			add(r, false, "range")
		case *ssa.IndexAddr:
			if r.X == v {
				s.usesOfAddr(fn, g, field, obj, r, out, d+1)
			}
		case ssa.CallInstruction:
			com := r.Common()
			if bi, ok := com.Value.(*ssa.Builtin); ok {
				switch bi.Name() {
				case "delete":
					if len(com.Args) > 0 && com.Args[0] == v {
						add(r, true, "delete")
					}
				case "len", "cap":
					add(r, false, "builtin "+bi.Name())
				}
				continue
			}
			if _, isPtr := v.Type().Underlying().(*types.Pointer); isPtr && len(com.Args) > 0 && com.Args[0] == v && !com.IsInvoke() {
				// method call on the pointer held in the field
				if s.readOnlyCall(g, com) {
					add(r, false, "call "+CalleeName(com))
				} else {
					add(r, true, "call "+CalleeName(com))
				}
			}
		}
	}
}

// underConstruction reports whether obj is an object allocated in this function
// (composite literal / new): it is not shared yet.
func underConstruction(obj ssa.Value) bool {
	_, ok := obj.(*ssa.Alloc)
	return ok && cellParam(obj.(*ssa.Alloc)) == nil
}

// paramIndexOf returns the index of the parameter obj denotes (directly or through the
// cell of a captured parameter), -1 otherwise.
func paramIndexOf(fn *ssa.Function, obj ssa.Value) int {
	var p *ssa.Parameter
	switch x := obj.(type) {
	case *ssa.Parameter:
		p = x
	case *ssa.UnOp:
		if a, ok := x.X.(*ssa.Alloc); ok && x.Op == token.MUL {
			p = cellParam(a)
		}
	}
	if p == nil {
		return -1
	}
	for i, q := range fn.Params {
		if q == p {
			return i
		}
	}
	return -1
}

// RunLockDiscipline evaluates the spec and records the obligations.
func RunLockDiscipline(c *Check, s *LockSpec) *LockReport {
	rep := &LockReport{Requires: map[*ssa.Function]string{}, NeedW: map[*ssa.Function]bool{}}
	effects := map[string][]LockEffect{}
	for _, e := range s.Effects {
		effects[e.Func] = append(effects[e.Func], e)
	}
	// declared requirements: methods of guarded types with a "caller holds the lock" suffix
	for _, fn := range s.Funcs {
		if fn.Parent() != nil {
			continue
		}
		g := s.typeOf(recvTypeName(fn))
		if g == nil {
			continue
		}
		for _, suf := range g.Suffixes {
			if strings.HasSuffix(fn.Name(), suf) {
				rep.Requires[fn] = "declared"
			}
		}
	}
	an := &LockAnalyzer{Effects: effects}
	an.EntryHeld = func(fn *ssa.Function) map[string]LockMode {
		if _, ok := rep.Requires[fn]; !ok || len(fn.Params) == 0 {
			return nil
		}
		g := s.typeOf(recvTypeName(fn))
		if g == nil {
			return nil
		}
		return map[string]LockMode{g.requiredKey(fn.Params[0]): HeldWrite}
	}
	rep.An = an

	accesses := map[*ssa.Function][]fieldAccess{}
	for _, fn := range s.Funcs {
		if len(fn.Blocks) > 0 {
			accesses[fn] = s.collectAccesses(fn)
		}
	}
	needed := func(a fieldAccess) bool { return a.write || a.g.CheckReads }
	heldFor := func(a fieldAccess) bool {
		li := an.Info(a.fn)
		m := li.HeldAt(a.instr, a.g.requiredKey(a.obj))
		return m == HeldWrite || (m == HeldRead && !a.write)
	}

	// inferred requirements: an unexported method that touches protected fields of its own
	// receiver without locking is treated like a *Locked function (its call sites are checked)
	for changed := true; changed; {
		changed = false
		for _, fn := range s.Funcs {
			if _, ok := rep.Requires[fn]; ok || fn.Parent() != nil || exported(fn) || s.typeOf(recvTypeName(fn)) == nil {
				continue
			}
			if _, ex := s.ExemptAccess[FuncName(fn)]; ex {
				continue
			}
			infer := false
			for _, a := range accesses[fn] {
				if needed(a) && !underConstruction(a.obj) && paramIndexOf(fn, a.obj) == 0 && !heldFor(a) {
					infer = true
				}
			}
			if !infer {
				// calls a requiring function on its own receiver without holding the lock
				for _, site := range Calls(fn) {
					cal := calleeFn(site)
					if cal == nil {
						continue
					}
					if _, req := rep.Requires[cal]; !req {
						continue
					}
					if _, isGo := site.Instr.(*ssa.Go); isGo {
						continue
					}
					recv := site.Arg(0)
					g := s.typeOf(recvTypeName(cal))
					if recv != nil && g != nil && g.Type == recvTypeName(fn) && paramIndexOf(fn, recv) == 0 &&
						an.Info(fn).HeldAt(site.Instr, g.requiredKey(recv)) == NotHeld {
						infer = true
					}
				}
			}
			if infer {
				rep.Requires[fn] = "inferred"
				an.Invalidate(fn)
				changed = true
			}
		}
	}

	// which requiring functions need the write lock: those that write under the entry assumption
	for changed := true; changed; {
		changed = false
		for fn := range rep.Requires {
			if rep.NeedW[fn] {
				continue
			}
			li := an.Info(fn)
			w := false
			for _, a := range accesses[fn] {
				if a.write && li.HeldByEntryOnly(a.instr, a.g.requiredKey(a.obj)) && paramIndexOf(fn, a.obj) == 0 {
					w = true
				}
			}
			for _, site := range Calls(fn) {
				cal := calleeFn(site)
				if cal == nil || !rep.NeedW[cal] {
					continue
				}
				if g := s.typeOf(recvTypeName(cal)); g != nil && site.Arg(0) != nil && li.HeldByEntryOnly(site.Instr, g.requiredKey(site.Arg(0))) {
					w = true
				}
			}
			if w {
				rep.NeedW[fn] = true
				changed = true
			}
		}
	}

	// (a) calls
	if s.RuleCalls != "" {
		var reqNames []string
		byName := map[string]*ssa.Function{}
		for fn := range rep.Requires {
			reqNames = append(reqNames, FuncName(fn))
			byName[FuncName(fn)] = fn
		}
		sort.Strings(reqNames)
		scope := s.CallerFuncs
		if scope == nil {
			scope = s.Funcs
		}
		// one pass over the caller scope: call sites and function-value uses of requiring functions
		sitesOf := map[string][]Site{}
		valueUses := map[string][]ssa.Instruction{}
		for _, fn := range scope {
			for _, b := range fn.Blocks {
				for _, in := range b.Instrs {
					if ci, ok := in.(ssa.CallInstruction); ok {
						if cal := calleeFn(Site{Fn: fn, Instr: ci}); cal != nil {
							if _, req := rep.Requires[cal]; req {
								n := FuncName(cal)
								sitesOf[n] = append(sitesOf[n], Site{Fn: fn, Instr: ci, Callee: n})
							}
						}
					}
					var ops []*ssa.Value
					for i, op := range in.Operands(ops) {
						f, ok := (*op).(*ssa.Function)
						if !ok {
							continue
						}
						if ci, isCall := in.(ssa.CallInstruction); isCall && i == 0 && !ci.Common().IsInvoke() && ci.Common().Value == f {
							continue // static callee position
						}
						target := f
						if f.Synthetic != "" && (strings.HasSuffix(f.Name(), "$bound") || strings.HasSuffix(f.Name(), "$thunk")) {
							base := strings.TrimSuffix(strings.TrimSuffix(FuncName(f), "$bound"), "$thunk")
							if t := byName[base]; t != nil {
								target = t
							}
						}
						if _, req := rep.Requires[target]; req {
							valueUses[FuncName(target)] = append(valueUses[FuncName(target)], in)
						}
					}
				}
			}
		}
		for _, name := range reqNames {
			cal := byName[name]
			c.Seen(name)
			g := s.typeOf(recvTypeName(cal))
			sites := sitesOf[name]
			keys := Ordinals(sites)
			for i, site := range sites {
				c.CallSites++
				rep.NCalls++
				want := "held"
				if rep.NeedW[cal] {
					want = "write-locked"
				}
				if _, isGo := site.Instr.(*ssa.Go); isGo {
					c.Fail(s.RuleCalls, keys[i], site.Pos(), fmt.Sprintf("%s (caller must hold %s.%s) is started as a goroutine, which holds no lock", name, g.Type, g.Mutex))
					continue
				}
				if _, isDefer := site.Instr.(*ssa.Defer); isDefer {
					c.Undecided(s.RuleCalls, keys[i], site.Pos(), fmt.Sprintf("%s (caller must hold %s.%s) is deferred: the lock state at the time deferred calls run is not modelled for calls", name, g.Type, g.Mutex))
					continue
				}
				if underConstruction(site.Arg(0)) {
					c.Pass(s.RuleCalls, keys[i], site.Pos(), "receiver is allocated in this function (not shared yet)")
					continue
				}
				key := g.requiredKey(site.Arg(0))
				li := an.Info(site.Fn)
				m := li.HeldAt(site.Instr, key)
				ok := m == HeldWrite || (m == HeldRead && !rep.NeedW[cal])
				c.Require(ok, s.RuleCalls, keys[i], site.Pos(),
					fmt.Sprintf("%s %s at the call (%s requirement of the callee)", key, want, rep.Requires[cal]),
					fmt.Sprintf("%s requires its caller to hold %s (%s) but a path reaches this call without it; held here: %v", name, key, want, li.HeldKeys(site.Instr)))
			}
			for _, u := range valueUses[name] {
				c.Undecided(s.RuleCalls, FuncName(u.Parent())+"/value-use:"+name, u.Pos(), name+" requires a lock held by its caller but is used as a function value (call sites unknown)")
			}
			if len(sites) == 0 && rep.Requires[cal] == "inferred" {
				c.Fail(s.RuleCalls, name+"/no-callers", cal.Pos(), name+" touches fields protected by "+g.Mutex+" without locking and has no caller in the analysed packages that could hold the lock")
			}
		}
	}

	// (b) accesses
	if s.RuleAccess != "" {
		for _, fn := range s.Funcs {
			as := accesses[fn]
			if len(as) == 0 {
				continue
			}
			name := FuncName(fn)
			if why, ex := s.ExemptAccess[name]; ex {
				c.Note("%s: accesses of %s are exempt: %s", s.RuleAccess, name, why)
				continue
			}
			c.Seen(name)
			cnt := map[string]int{}
			// one obligation per (field, read/write) in a function; the first unprotected access is reported
			type agg struct {
				n    int
				bad  *fieldAccess
				pos  token.Pos
				mode string
			}
			groups := map[string]*agg{}
			var order []string
			for i := range as {
				a := as[i]
				if !needed(a) || underConstruction(a.obj) {
					continue
				}
				kind := "read"
				if a.write {
					kind = "write"
				}
				k := fmt.Sprintf("%s/%s.%s/%s", name, a.g.Type, a.field, kind)
				gr := groups[k]
				if gr == nil {
					gr = &agg{pos: a.instr.Pos()}
					groups[k] = gr
					order = append(order, k)
				}
				gr.n++
				cnt[k]++
				if !heldFor(a) && gr.bad == nil {
					gr.bad = &as[i]
				}
			}
			sort.Strings(order)
			for _, k := range order {
				gr := groups[k]
				rep.NAccess += gr.n
				if gr.bad == nil {
					c.Pass(s.RuleAccess, k, gr.pos, fmt.Sprintf("%d access(es) under the mutex", gr.n))
					continue
				}
				a := gr.bad
				key := a.g.requiredKey(a.obj)
				c.Fail(s.RuleAccess, k, a.instr.Pos(), fmt.Sprintf("%s of %s.%s (%s) on a path that does not hold %s; held here: %v",
					map[bool]string{true: "write", false: "read"}[a.write], a.g.Type, a.field, a.what, key, an.Info(fn).HeldKeys(a.instr)))
			}
		}
	}

	// (c) balance
	if s.RuleBalance != "" {
		for _, fn := range s.Funcs {
			if len(fn.Blocks) == 0 {
				continue
			}
			li := an.Info(fn)
			touches := false
			for _, op := range li.Ops {
				if s.inScope(op.Mutex) {
					touches = true
				}
			}
			if !touches {
				continue
			}
			name := FuncName(fn)
			c.Seen(name)
			rep.NFuncs++
			evs := li.Events(s.inScope)
			// documented effects of this very function are expected at its returns
			expected := effects[name]
			nret := 0
			retOrd := map[ssa.Instruction]int{}
			for _, r := range Returns(fn) {
				if li.Reachable(r.Block()) {
					nret++
					retOrd[r] = nret
				}
			}
			badRet := map[int]bool{}
			kindN := map[string]int{}
			for _, ev := range evs {
				if r, isRet := ev.Instr.(*ssa.Return); isRet {
					if ev.Kind == "leak" && effectMatches(expected, OpLock, ev.Mutex, r) {
						continue
					}
					if ev.Kind == "released-callers-lock" && effectMatches(expected, OpUnlock, ev.Mutex, r) {
						continue
					}
					badRet[retOrd[r]] = true
					c.Fail(s.RuleBalance, fmt.Sprintf("%s/return#%d/%s", name, retOrd[r], ev.Kind), ev.Instr.Pos(), ev.Msg)
					continue
				}
				if ev.Kind == "unlock-not-locked" && effectMatches(expected, OpUnlock, ev.Mutex, nil) {
					continue
				}
				kindN[ev.Kind]++
				site := fmt.Sprintf("%s/%s#%d", name, ev.Kind, kindN[ev.Kind])
				if ev.Kind == "deferred-lock" || ev.Kind == "deferred-twice" {
					c.Undecided(s.RuleBalance, site, ev.Instr.Pos(), ev.Msg)
				} else {
					c.Fail(s.RuleBalance, site, ev.Instr.Pos(), ev.Msg)
				}
			}
			// documented "returns locked" functions must really do so on every return
			for _, e := range expected {
				if e.Op != OpLock || e.On != "result" {
					continue
				}
				for _, r := range Returns(fn) {
					if !li.Reachable(r.Block()) {
						continue
					}
					vals := ReturnedValues(r)
					if len(vals) == 0 {
						continue
					}
					key := ObjKey(vals[0]) + "." + e.Field
					ok := li.HeldAt(r, key) == HeldWrite
					c.Require(ok, s.RuleBalance, fmt.Sprintf("%s/return#%d/returns-locked", name, retOrd[r]), r.Pos(),
						"returns its result locked as documented: "+e.Reason,
						fmt.Sprintf("%s is documented to return its result with %s locked (%s) but a path returns without it", name, e.Field, e.Reason))
				}
			}
			for i := 1; i <= nret; i++ {
				if !badRet[i] {
					c.Pass(s.RuleBalance, fmt.Sprintf("%s/return#%d", name, i), fn.Pos(), "in-scope mutexes are back in their entry state (or in the documented state)")
				}
			}
		}
	}
	return rep
}

func effectMatches(effs []LockEffect, op LockOpKind, m MutexRef, ret *ssa.Return) bool {
	for _, e := range effs {
		if e.Op != op || e.Type != m.Owner || e.Field != m.Field {
			continue
		}
		if e.On == "result" && ret != nil {
			vals := ReturnedValues(ret)
			if len(vals) > 0 && ObjKey(vals[0]) == m.BaseKey {
				return true
			}
			continue
		}
		return true
	}
	return false
}

func calleeFn(s Site) *ssa.Function {
	com := s.Common()
	if com.IsInvoke() {
		return nil
	}
	switch v := com.Value.(type) {
	case *ssa.Function:
		return v
	case *ssa.MakeClosure:
		if fn, ok := v.Fn.(*ssa.Function); ok {
			return fn
		}
	}
	return nil
}

// ---- paths with excused edges (K6 helper used together with K4/K12) --------------------

// ReachAvoiding searches, starting right after `from`, for an instruction satisfying
// target that can be reached without executing an instruction satisfying stop and
// without taking a CFG edge for which cut(pred, succ) is true.
func ReachAvoiding(from ssa.Instruction, target, stop func(ssa.Instruction) bool, cut func(pred, succ *ssa.BasicBlock) bool) *PathTo {
	type item struct {
		b     *ssa.BasicBlock
		start int
		path  []int
	}
	sb := from.Block()
	seen := map[*ssa.BasicBlock]bool{}
	queue := []item{{sb, InstrIndex(from) + 1, []int{sb.Index}}}
	for len(queue) > 0 {
		it := queue[0]
		queue = queue[1:]
		blocked := false
		for i := it.start; i < len(it.b.Instrs); i++ {
			in := it.b.Instrs[i]
			if stop != nil && stop(in) {
				blocked = true
				break
			}
			if target(in) {
				return &PathTo{End: in, Blocks: it.path}
			}
		}
		if blocked {
			continue
		}
		for _, s := range it.b.Succs {
			if cut != nil && cut(it.b, s) {
				continue
			}
			if !seen[s] {
				seen[s] = true
				queue = append(queue, item{s, 0, append(append([]int{}, it.path...), s.Index)})
			}
		}
	}
	return nil
}

// EdgeLit returns the normalised branch literal that holds when control goes from pred
// to succ (ok=false when pred does not end in a two-way branch).
func EdgeLit(pred, succ *ssa.BasicBlock) (Lit, bool) { return edgeLit(pred, succ) }
