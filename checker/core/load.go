// Package core holds the loader, the SSA/AST utilities and the reporting plumbing
// shared by all property rule tables.
package core

import (
	"fmt"
	"go/ast"
	"go/token"
	"go/types"
	"os"
	"sort"
	"strings"

	"golang.org/x/tools/go/packages"
	"golang.org/x/tools/go/ssa"
	"golang.org/x/tools/go/ssa/ssautil"
)

// ModulePath is the module analysed.
const ModulePath = "github.com/VKCOM/statshouse"

// RepoDir returns the directory of the repository under analysis.
func RepoDir() string {
	if d := os.Getenv("SHVERIF_REPO"); d != "" {
		return d
	}
	return "/repo"
}

// Prog is one loaded, type-checked and SSA-built view of the repository.
type Prog struct {
	Dir      string
	Fset     *token.FileSet
	Pkgs     []*packages.Package          // packages matched by the patterns (roots)
	AllPkgs  map[string]*packages.Package // all module packages reached, by module-relative path
	SSA      *ssa.Program
	funcs    map[string]*ssa.Function
	allFuncs []*ssa.Function // functions of module packages (incl. anonymous), sorted by name
	nFiles   int
}

// Rel turns an import path into a module-relative one ("internal/agent").
func Rel(path string) string {
	if path == ModulePath {
		return "."
	}
	return strings.TrimPrefix(path, ModulePath+"/")
}

// Load type-checks the given package patterns (module-relative, e.g. "./internal/agent")
// from the repository's current working tree and builds SSA for them and their
// module dependencies. overlay maps absolute file names to replacement contents.
func Load(overlay map[string][]byte, patterns ...string) (*Prog, error) {
	dir := RepoDir()
	env := append(os.Environ(), "GOFLAGS=-mod=mod", "GOPROXY=off", "GOWORK=off")
	// Root packages (the patterns) are parsed and type-checked from source and get SSA
	// bodies; everything they import comes from compiler export data (`go list -export`),
	// which is ~6x faster than type-checking the standard library from source. Rule
	// tables therefore list every module package whose function bodies they inspect;
	// the thorough tier loads ./... so that every module package is a root.
	mode := packages.LoadSyntax
	if os.Getenv("SHVERIF_SLOWLOAD") == "1" {
		mode = packages.LoadAllSyntax
	}
	cfg := &packages.Config{
		Mode:    mode,
		Dir:     dir,
		Env:     env,
		Tests:   false,
		Overlay: overlay,
	}
	pkgs, err := packages.Load(cfg, patterns...)
	if err != nil {
		return nil, fmt.Errorf("packages.Load: %w", err)
	}
	if len(pkgs) == 0 {
		return nil, fmt.Errorf("no packages matched %v", patterns)
	}
	var errs []string
	all := map[string]*packages.Package{}
	packages.Visit(pkgs, nil, func(p *packages.Package) {
		if strings.HasPrefix(p.PkgPath, ModulePath) {
			all[Rel(p.PkgPath)] = p
			for _, e := range p.Errors {
				errs = append(errs, e.Error())
			}
		}
	})
	if len(errs) > 0 {
		sort.Strings(errs)
		if len(errs) > 10 {
			errs = errs[:10]
		}
		return nil, fmt.Errorf("type-check errors (the tree must compile): %s", strings.Join(errs, "; "))
	}
	var prog *ssa.Program
	if mode == packages.LoadAllSyntax {
		prog, _ = ssautil.AllPackages(pkgs, ssa.InstantiateGenerics)
	} else {
		prog, _ = ssautil.Packages(pkgs, ssa.InstantiateGenerics)
	}
	prog.Build()
	p := &Prog{Dir: dir, Fset: pkgs[0].Fset, Pkgs: pkgs, AllPkgs: all, SSA: prog, funcs: map[string]*ssa.Function{}}
	for fn := range ssautil.AllFunctions(prog) {
		if fn.Pkg == nil || fn.Pkg.Pkg == nil || !strings.HasPrefix(fn.Pkg.Pkg.Path(), ModulePath) {
			if fn.Pkg == nil && fn.Origin() != nil && fn.Origin().Pkg != nil && strings.HasPrefix(fn.Origin().Pkg.Pkg.Path(), ModulePath) {
				// instantiation of a module generic: keep
			} else {
				continue
			}
		}
		if fn.Synthetic != "" && fn.Syntax() == nil && len(fn.Blocks) == 0 {
			continue
		}
		name := FuncName(fn)
		if _, dup := p.funcs[name]; !dup {
			p.funcs[name] = fn
			p.allFuncs = append(p.allFuncs, fn)
		}
	}
	sort.Slice(p.allFuncs, func(i, j int) bool { return FuncName(p.allFuncs[i]) < FuncName(p.allFuncs[j]) })
	for _, pk := range all {
		p.nFiles += len(pk.Syntax)
	}
	return p, nil
}

// FuncName gives the canonical name used in rule tables:
//
//	internal/agent.(*Shard).sendRecent        method
//	internal/agent.(*Shard).sendRecent$1      first anonymous function inside it
//	internal/format.ValidateCounter           function
func FuncName(fn *ssa.Function) string {
	if fn == nil {
		return "<nil>"
	}
	if fn.Parent() != nil {
		// anonymous: ssa names it parent$N
		n := fn.Name()
		if i := strings.LastIndex(n, "$"); i >= 0 {
			return FuncName(fn.Parent()) + n[i:]
		}
		return FuncName(fn.Parent()) + "$" + n
	}
	pkg := ""
	if fn.Pkg != nil {
		pkg = Rel(fn.Pkg.Pkg.Path())
	} else if fn.Origin() != nil && fn.Origin().Pkg != nil {
		pkg = Rel(fn.Origin().Pkg.Pkg.Path())
	} else if fn.Object() != nil && fn.Object().Pkg() != nil {
		pkg = Rel(fn.Object().Pkg().Path())
	}
	if recv := fn.Signature.Recv(); recv != nil {
		t := recv.Type()
		ptr := ""
		if pt, ok := t.(*types.Pointer); ok {
			t = pt.Elem()
			ptr = "*"
		}
		tn := types.TypeString(t, func(*types.Package) string { return "" })
		if i := strings.Index(tn, "["); i >= 0 {
			tn = tn[:i]
		}
		if fn.Object() != nil && fn.Object().Pkg() != nil {
			pkg = Rel(fn.Object().Pkg().Path())
		}
		return fmt.Sprintf("%s.(%s%s).%s", pkg, ptr, tn, fn.Name())
	}
	return pkg + "." + fn.Name()
}

// Func resolves a canonical function name; nil when it does not exist.
func (p *Prog) Func(name string) *ssa.Function { return p.funcs[name] }

// Funcs returns all module functions (including anonymous ones), sorted by name.
func (p *Prog) Funcs() []*ssa.Function { return p.allFuncs }

// FuncsIn returns the functions whose package is one of the module-relative paths.
func (p *Prog) FuncsIn(pkgs ...string) []*ssa.Function {
	var out []*ssa.Function
	for _, fn := range p.allFuncs {
		pk := FuncPkg(fn)
		for _, w := range pkgs {
			if pk == w {
				out = append(out, fn)
				break
			}
		}
	}
	return out
}

// FuncPkg is the module-relative package path a function belongs to.
func FuncPkg(fn *ssa.Function) string {
	for fn.Parent() != nil {
		fn = fn.Parent()
	}
	if fn.Pkg != nil {
		return Rel(fn.Pkg.Pkg.Path())
	}
	if fn.Object() != nil && fn.Object().Pkg() != nil {
		return Rel(fn.Object().Pkg().Path())
	}
	return ""
}

// Pkg returns the loaded package with the given module-relative path.
func (p *Prog) Pkg(rel string) *packages.Package { return p.AllPkgs[rel] }

// Pos renders a position as repo-relative file:line.
func (p *Prog) Pos(pos token.Pos) string {
	if !pos.IsValid() {
		return "?"
	}
	ps := p.Fset.Position(pos)
	f := strings.TrimPrefix(ps.Filename, p.Dir+"/")
	return fmt.Sprintf("%s:%d", f, ps.Line)
}

// NumFiles is the number of module source files type-checked.
func (p *Prog) NumFiles() int { return p.nFiles }

// FuncDecl finds the AST declaration of a function or method in a package:
// name is "Func" or "(*T).Method" / "(T).Method" / "T.Method".
func (p *Prog) FuncDecl(pkgRel, name string) (*ast.FuncDecl, *packages.Package) {
	pk := p.AllPkgs[pkgRel]
	if pk == nil {
		return nil, nil
	}
	want := strings.NewReplacer("(", "", ")", "", "*", "").Replace(name)
	for _, f := range pk.Syntax {
		for _, d := range f.Decls {
			fd, ok := d.(*ast.FuncDecl)
			if !ok {
				continue
			}
			n := fd.Name.Name
			if fd.Recv != nil && len(fd.Recv.List) == 1 {
				t := fd.Recv.List[0].Type
				if st, ok := t.(*ast.StarExpr); ok {
					t = st.X
				}
				if ix, ok := t.(*ast.IndexExpr); ok {
					t = ix.X
				}
				if id, ok := t.(*ast.Ident); ok {
					n = id.Name + "." + n
				}
			}
			if n == want {
				return fd, pk
			}
		}
	}
	return nil, pk
}
