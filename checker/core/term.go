package core

import (
	"fmt"
	"go/constant"
	"go/token"
	"go/types"
	"strings"

	"golang.org/x/tools/go/ssa"
)

// SpilledParam returns the parameter held in cell a when a is the spill slot go/ssa
// creates for a parameter whose address is taken (struct parameters whose fields are
// read through FieldAddr, parameters captured by closures): the cell has exactly one
// store, in the entry block, and the stored value is a parameter of the same function.
// Expr renders such a cell as "&{type}", which cannot tell two parameters of the same
// type apart (old/new metric); Term renders it as the parameter.
func SpilledParam(a *ssa.Alloc) *ssa.Parameter {
	var par *ssa.Parameter
	n := 0
	for _, r := range Referrers(a) {
		st, ok := r.(*ssa.Store)
		if !ok || st.Addr != a {
			continue
		}
		n++
		p, isPar := st.Val.(*ssa.Parameter)
		if !isPar || st.Block() == nil || st.Block().Index != 0 {
			return nil
		}
		par = p
	}
	if n != 1 {
		return nil
	}
	return par
}

// ParamIndex returns the index of p among its function's parameters (receiver = 0).
func ParamIndex(p *ssa.Parameter) int {
	if p == nil || p.Parent() == nil {
		return -1
	}
	for i, q := range p.Parent().Params {
		if q == p {
			return i
		}
	}
	return -1
}

// ParamOf resolves v to a parameter index when v is the parameter itself, a load of
// its spill cell, or the spill cell's address; -1 otherwise.
func ParamOf(v ssa.Value) int {
	switch x := v.(type) {
	case *ssa.Parameter:
		return ParamIndex(x)
	case *ssa.Alloc:
		return ParamIndex(SpilledParam(x))
	case *ssa.UnOp:
		if x.Op == token.MUL {
			if a, ok := x.X.(*ssa.Alloc); ok {
				return ParamIndex(SpilledParam(a))
			}
		}
	case *ssa.ChangeType:
		return ParamOf(x.X)
	}
	return -1
}

// Term renders an SSA value like Expr, with two differences that matter when two
// values of the same type must be told apart: parameter spill cells are rendered as
// the parameter ("{2:format.MetricMetaValue}"), and an environment can substitute
// phi nodes by the value they take on one path (see ReturnCases).
func Term(v ssa.Value) string { return TermEnv(v, nil) }

// TermEnv is Term with a phi substitution.
func TermEnv(v ssa.Value, env map[*ssa.Phi]ssa.Value) string {
	return termDepth(v, env, 0, map[ssa.Value]bool{})
}

func paramText(p *ssa.Parameter) string {
	return fmt.Sprintf("{%d:%s}", ParamIndex(p), ShortType(p.Type()))
}

func termDepth(v ssa.Value, env map[*ssa.Phi]ssa.Value, d int, seen map[ssa.Value]bool) string {
	if v == nil {
		return "<nil>"
	}
	if d > maxExprDepth {
		return "…"
	}
	r := func(x ssa.Value) string { return termDepth(x, env, d+1, seen) }
	switch v := v.(type) {
	case *ssa.Const:
		if v.Value == nil {
			return "nil"
		}
		if v.Value.Kind() == constant.String {
			return v.Value.ExactString()
		}
		return v.Value.String()
	case *ssa.Parameter:
		return paramText(v)
	case *ssa.Alloc:
		if p := SpilledParam(v); p != nil {
			return "&" + paramText(p)
		}
		t := v.Type()
		if p, ok := t.Underlying().(*types.Pointer); ok {
			t = p.Elem()
		}
		return "&{" + ShortType(t) + "}"
	case *ssa.FieldAddr:
		return "&" + fieldBase(r(v.X)) + "." + fieldName(v.X.Type(), v.Field)
	case *ssa.Field:
		return r(v.X) + "." + fieldName(v.X.Type(), v.Field)
	case *ssa.IndexAddr:
		return "&" + fieldBase(r(v.X)) + "[" + r(v.Index) + "]"
	case *ssa.Index:
		return r(v.X) + "[" + r(v.Index) + "]"
	case *ssa.Lookup:
		return r(v.X) + "[" + r(v.Index) + "]"
	case *ssa.UnOp:
		switch v.Op {
		case token.MUL:
			s := r(v.X)
			if strings.HasPrefix(s, "&") {
				return s[1:]
			}
			return "*" + s
		case token.NOT:
			return "!" + r(v.X)
		case token.ARROW:
			return "<-" + r(v.X)
		default:
			return v.Op.String() + r(v.X)
		}
	case *ssa.BinOp:
		return "(" + r(v.X) + " " + v.Op.String() + " " + r(v.Y) + ")"
	case *ssa.Call:
		c := &v.Call
		args := make([]string, 0, len(c.Args)+1)
		if c.IsInvoke() {
			args = append(args, r(c.Value))
		}
		for _, a := range c.Args {
			args = append(args, r(a))
		}
		name := CalleeName(c)
		if name == "dynamic" {
			name = "dyn " + r(c.Value)
		}
		return name + "(" + strings.Join(args, ", ") + ")"
	case *ssa.Extract:
		return r(v.Tuple) + "#" + fmt.Sprint(v.Index)
	case *ssa.Phi:
		if env != nil {
			if x, ok := env[v]; ok && x != v {
				return r(x)
			}
		}
		if seen[v] {
			return "phi…"
		}
		seen[v] = true
		parts := make([]string, 0, len(v.Edges))
		uniq := map[string]bool{}
		for _, e := range v.Edges {
			s := r(e)
			if !uniq[s] {
				uniq[s] = true
				parts = append(parts, s)
			}
		}
		delete(seen, v)
		return "phi(" + strings.Join(parts, " | ") + ")"
	case *ssa.Convert:
		return TypeName(v.Type()) + "(" + r(v.X) + ")"
	case *ssa.ChangeType:
		return r(v.X)
	case *ssa.ChangeInterface:
		return r(v.X)
	case *ssa.MakeInterface:
		return r(v.X)
	case *ssa.Slice:
		lo, hi := "", ""
		if v.Low != nil {
			lo = r(v.Low)
		}
		if v.High != nil {
			hi = r(v.High)
		}
		return fieldBase(r(v.X)) + "[" + lo + ":" + hi + "]"
	case *ssa.TypeAssert:
		return r(v.X) + ".(" + TypeName(v.AssertedType) + ")"
	case *ssa.Range:
		return "range " + r(v.X)
	case *ssa.Next:
		return "next " + r(v.Iter)
	}
	// everything else (globals, functions, builtins, closures, make…) has no
	// parameter inside that needs resolving
	return Expr(v)
}

// TermLit is a normalised literal over Term texts: Text holds with polarity Pol.
type TermLit struct {
	Text string
	Pol  bool
}

func (l TermLit) String() string {
	if l.Pol {
		return l.Text
	}
	return "!" + l.Text
}

// NormTermLit normalises a boolean value taken with a polarity exactly as NormLit
// does (only == and < remain, constants on the right of ==) but renders with Term.
func NormTermLit(cond ssa.Value, pol bool, env map[*ssa.Phi]ssa.Value) TermLit {
	for {
		if p, ok := cond.(*ssa.Phi); ok && env != nil {
			if x, ok := env[p]; ok && x != cond {
				cond = x
				continue
			}
		}
		if u, ok := cond.(*ssa.UnOp); ok && u.Op == token.NOT {
			cond = u.X
			pol = !pol
			continue
		}
		break
	}
	if b, ok := cond.(*ssa.BinOp); ok {
		x, y, op := b.X, b.Y, b.Op
		switch op {
		case token.NEQ:
			op, pol = token.EQL, !pol
		case token.GEQ:
			op, pol = token.LSS, !pol
		case token.GTR:
			op, x, y = token.LSS, y, x
		case token.LEQ:
			op, x, y, pol = token.LSS, y, x, !pol
		}
		if op == token.EQL {
			if _, xc := x.(*ssa.Const); xc {
				if _, yc := y.(*ssa.Const); !yc {
					x, y = y, x
				}
			}
		}
		if op == token.EQL || op == token.LSS {
			return TermLit{"(" + TermEnv(x, env) + " " + op.String() + " " + TermEnv(y, env) + ")", pol}
		}
	}
	return TermLit{TermEnv(cond, env), pol}
}
