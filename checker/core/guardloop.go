package core

import (
	"go/types"

	"golang.org/x/tools/go/ssa"
)

// FactsL is Facts extended to loop headers.
//
// Facts(b) only uses dominators all of whose incoming edges are branch edges, so a
// guard is lost when the branch target is itself a loop header (`if c { for ... }`
// compiles to an If whose true successor is the for.loop block, which also has the
// back edge as predecessor). For such a block D the guard still holds on entry when
//
//   - every predecessor that is not dominated by D (the entry edges) is a branch edge, and
//   - the condition value of each such literal is defined in a block that strictly
//     dominates D from outside the loop (it is not recomputed inside the loop),
//
// because every path that reaches D through a back edge has passed D before with the
// very same dynamic SSA value (induction on the number of visits to D).
func FactsL(b *ssa.BasicBlock) []Guard {
	var out []Guard
	for d := b; d != nil; d = d.Idom() {
		if len(d.Preds) == 0 {
			continue
		}
		g := Guard{Block: d}
		ok, back := true, false
		for _, p := range d.Preds {
			if d.Dominates(p) { // back edge (d dominates itself: a self loop is a back edge too)
				back = true
				continue
			}
			l, has := edgeLit(p, d)
			if !has {
				ok = false
				break
			}
			g.Alts = append(g.Alts, l)
		}
		if !ok || len(g.Alts) == 0 {
			continue
		}
		if back {
			for _, l := range g.Alts {
				if !definedOutside(l.Cond, d) {
					ok = false
					break
				}
			}
		}
		if ok {
			out = append(out, g)
		}
	}
	return out
}

// definedOutside reports whether v is computed in a block that strictly dominates d
// and is not dominated by d (constants, parameters and globals qualify trivially).
func definedOutside(v ssa.Value, d *ssa.BasicBlock) bool {
	switch v.(type) {
	case *ssa.Const, *ssa.Parameter, *ssa.FreeVar, *ssa.Global, *ssa.Function:
		return true
	}
	in, ok := v.(ssa.Instruction)
	if !ok || in.Block() == nil {
		return false
	}
	db := in.Block()
	return db != d && db.Dominates(d) && !d.Dominates(db)
}

// Unalias-aware variant of IsField: reports whether v is the address or value of
// field `field` of the named struct type typ, looking through type aliases
// (e.g. tlstatshouse.MetricBytes = internal.StatshouseMetricBytes).
func IsFieldU(v ssa.Value, typ, field string) bool {
	var xt types.Type
	var idx int
	switch x := v.(type) {
	case *ssa.FieldAddr:
		xt, idx = x.X.Type(), x.Field
	case *ssa.Field:
		xt, idx = x.X.Type(), x.Field
	default:
		return false
	}
	t := types.Unalias(xt)
	if p, ok := t.Underlying().(*types.Pointer); ok {
		t = types.Unalias(p.Elem())
	}
	n, ok := t.(*types.Named)
	if !ok || TypeName(n.Origin()) != typ {
		return false
	}
	st, ok := n.Underlying().(*types.Struct)
	return ok && idx < st.NumFields() && st.Field(idx).Name() == field
}
