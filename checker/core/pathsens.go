package core

import (
	"go/token"
	"sort"
	"strings"

	"golang.org/x/tools/go/ssa"
)

// Forward search with a small amount of path sensitivity: the values of boolean
// phi-nodes (flag variables such as `started`, `hasValue`) are tracked along the
// path, and branches on a flag whose value is known are pruned. This removes the
// classic infeasible paths of "first iteration" flags without any arithmetic.

type flagState map[ssa.Value]bool

func (s flagState) key() string {
	var ks []string
	for v, b := range s {
		k := v.Name()
		if b {
			k += "=1"
		} else {
			k += "=0"
		}
		ks = append(ks, k)
	}
	sort.Strings(ks)
	return strings.Join(ks, ",")
}

func (s flagState) clone() flagState {
	n := flagState{}
	for k, v := range s {
		n[k] = v
	}
	return n
}

// flagValue evaluates a boolean value under the state (constants, known flags, negations).
func flagValue(v ssa.Value, s flagState) (val, known bool) {
	switch x := v.(type) {
	case *ssa.Const:
		if x.Value != nil && (x.Value.String() == "true" || x.Value.String() == "false") {
			return x.Value.String() == "true", true
		}
	case *ssa.UnOp:
		if x.Op == token.NOT {
			b, ok := flagValue(x.X, s)
			return !b, ok
		}
	}
	b, ok := s[v]
	return b, ok
}

func isBool(v ssa.Value) bool {
	return isNumericOrBool(v.Type()) && strings.Contains(v.Type().Underlying().String(), "bool")
}

// enter computes the state after taking the edge pred -> b.
func enter(pred, b *ssa.BasicBlock, s flagState) flagState {
	n := s.clone()
	// knowledge from the branch taken
	if len(pred.Instrs) > 0 {
		if ifi, ok := pred.Instrs[len(pred.Instrs)-1].(*ssa.If); ok && len(pred.Succs) == 2 && pred.Succs[0] != pred.Succs[1] {
			taken := pred.Succs[0] == b
			cond := ifi.Cond
			pol := taken
			for {
				if u, ok := cond.(*ssa.UnOp); ok && u.Op == token.NOT {
					cond, pol = u.X, !pol
					continue
				}
				break
			}
			// only phis: they are re-evaluated exactly when their block is entered (handled
			// below); other instructions may re-execute in a loop and make the fact stale
			if _, isPhi := cond.(*ssa.Phi); isPhi && isBool(cond) {
				n[cond] = pol
			}
		}
	}
	// phi transfer
	idx := -1
	for i, p := range b.Preds {
		if p == pred {
			idx = i
		}
	}
	type upd struct {
		phi *ssa.Phi
		val bool
		ok  bool
	}
	var ups []upd
	for _, in := range b.Instrs {
		phi, ok := in.(*ssa.Phi)
		if !ok {
			break
		}
		if !isBool(phi) || idx < 0 {
			continue
		}
		v, known := flagValue(phi.Edges[idx], n)
		ups = append(ups, upd{phi, v, known})
	}
	for _, u := range ups {
		if u.ok {
			n[u.phi] = u.val
		} else {
			delete(n, u.phi)
		}
	}
	return n
}

// ForwardFirst returns the instructions satisfying `hit` that can execute first after
// `start` on a feasible path (feasibility with respect to boolean flag phis only).
func ForwardFirst(start ssa.Instruction, hit func(ssa.Instruction) bool) []ssa.Instruction {
	b0 := start.Block()
	var out []ssa.Instruction
	seenOut := map[ssa.Instruction]bool{}
	type item struct {
		b *ssa.BasicBlock
		i int
		s flagState
	}
	var queue []item
	// initial states: one per way of entering the start block
	if len(b0.Preds) == 0 {
		queue = append(queue, item{b0, InstrIndex(start) + 1, flagState{}})
	}
	for _, p := range b0.Preds {
		s := flagState{}
		// knowledge accumulated on the single-predecessor chain above p
		chain := []*ssa.BasicBlock{p}
		for q := p; len(q.Preds) == 1; q = q.Preds[0] {
			chain = append(chain, q.Preds[0])
			if len(chain) > 8 {
				break
			}
		}
		for i := len(chain) - 1; i > 0; i-- {
			s = enter(chain[i], chain[i-1], s)
		}
		queue = append(queue, item{b0, InstrIndex(start) + 1, enter(p, b0, s)})
	}
	seen := map[string]bool{}
	for len(queue) > 0 {
		it := queue[0]
		queue = queue[1:]
		stopped := false
		for i := it.i; i < len(it.b.Instrs); i++ {
			in := it.b.Instrs[i]
			if hit(in) {
				if !seenOut[in] {
					seenOut[in] = true
					out = append(out, in)
				}
				stopped = true
				break
			}
		}
		if stopped {
			continue
		}
		succs := it.b.Succs
		if len(it.b.Instrs) > 0 {
			if ifi, ok := it.b.Instrs[len(it.b.Instrs)-1].(*ssa.If); ok && len(succs) == 2 {
				if v, known := flagValue(ifi.Cond, it.s); known {
					if v {
						succs = succs[:1]
					} else {
						succs = succs[1:]
					}
				}
			}
		}
		for _, sc := range succs {
			ns := enter(it.b, sc, it.s)
			k := sc.String() + "|" + ns.key()
			if seen[k] {
				continue
			}
			seen[k] = true
			queue = append(queue, item{sc, 0, ns})
		}
	}
	return out
}
