package core

// K3 "sequential codec shape": data structure, normalisation, comparison and the
// concrete-instance matcher. The extractor itself is in codecshape_extract.go.
//
// A shape is a regular expression over wire tokens:
//
//	U8 U16 U32 U64 F32 F64 UVARINT   fixed/varint primitives (little endian)
//	K8(c)                            a byte with constant value c (writers only)
//	BYTES(n)                         n opaque bytes
//	RAW                              a run of bytes whose length is not part of the token
//	STAR(x)  OPT(x)  ALT(x|y)        repetition, optional part, alternatives
//
// In readers a STAR carries Count: the token whose decoded value is the exact
// number of repetitions (for `for i := 0; i < conv(v); i++`), nil otherwise.

import (
	"fmt"
	"go/token"
	"go/types"
	"strings"
)

// ShapeNode is one node of a codec shape.
type ShapeNode struct {
	Kind  string
	N     int
	Sub   []ShapeSeq
	Count *ShapeNode // reader STAR: token holding the repetition count
	Ext   bool       // STAR whose bound is not a decoded value (rows, len of a collection)

	// extractor internals
	scratch types.Object // BYTES placeholder filled by Read/ReadFull into this array
	parts   []shapePart
	val     types.Object // object the decoded value is bound to
}

type shapePart struct {
	off, width int
	kind       string
}

// ShapeSeq is a sequence of nodes.
type ShapeSeq []*ShapeNode

// ShapeIssue is an idiom the extractor could not classify.
type ShapeIssue struct {
	Pos token.Pos
	Msg string
}

func prim(kind string) *ShapeNode { return &ShapeNode{Kind: kind} }

// String renders the shape; count-bounded STARs are written STAR#(…).
func (s ShapeSeq) String() string { return s.render(true) }

// Key renders the shape without the count annotation (used for equality).
func (s ShapeSeq) Key() string { return s.render(false) }

func (s ShapeSeq) render(ann bool) string {
	if len(s) == 0 {
		return "ε"
	}
	parts := make([]string, len(s))
	for i, n := range s {
		parts[i] = n.render(ann)
	}
	return strings.Join(parts, " ")
}

func (n *ShapeNode) render(ann bool) string {
	switch n.Kind {
	case "K8":
		return fmt.Sprintf("K8(%d)", n.N)
	case "BYTES":
		return fmt.Sprintf("BYTES(%d)", n.N)
	case "STAR":
		tag := ""
		if ann && n.Count != nil {
			tag = "#" + n.Count.Kind
		}
		return "STAR" + tag + "(" + n.Sub[0].render(ann) + ")"
	case "OPT":
		return "OPT(" + n.Sub[0].render(ann) + ")"
	case "ALT":
		bs := make([]string, len(n.Sub))
		for i, b := range n.Sub {
			bs[i] = b.render(ann)
		}
		return "ALT(" + strings.Join(bs, " | ") + ")"
	}
	return n.Kind
}

// Normalize applies the language-preserving rewrites
//
//	OPT(ε)=ε  STAR(ε)=ε  ALT(x|x)=x  ALT(ε|x)=OPT(x)  OPT(STAR x)=STAR x
//	STAR(OPT x)=STAR x  OPT(x)·STAR(x)=STAR(x)
//
// and expands BYTES placeholders that were tiled by later decodes. An incompletely
// tiled placeholder is reported as an issue.
func Normalize(s ShapeSeq, issues *[]ShapeIssue) ShapeSeq {
	for i := 0; i < 8; i++ {
		before := s.String()
		s = normOnce(s, issues)
		if s.String() == before {
			break
		}
	}
	return s
}

func normOnce(s ShapeSeq, issues *[]ShapeIssue) ShapeSeq {
	var out ShapeSeq
	for _, n := range s {
		switch n.Kind {
		case "BYTES":
			if n.scratch != nil && len(n.parts) > 0 {
				exp, ok := tile(n)
				if !ok && issues != nil {
					*issues = append(*issues, ShapeIssue{Msg: fmt.Sprintf("%d bytes read into a scratch array are decoded by pieces that do not tile it exactly", n.N)})
				}
				if ok {
					out = append(out, exp...)
					continue
				}
			}
			out = append(out, n)
		case "OPT":
			sub := normOnce(n.Sub[0], issues)
			if len(sub) == 0 {
				continue
			}
			if len(sub) == 1 && sub[0].Kind == "STAR" {
				out = append(out, sub[0])
				continue
			}
			out = append(out, &ShapeNode{Kind: "OPT", Sub: []ShapeSeq{sub}})
		case "STAR":
			sub := normOnce(n.Sub[0], issues)
			if len(sub) == 0 {
				continue
			}
			if len(sub) == 1 && sub[0].Kind == "OPT" {
				sub = sub[0].Sub[0]
			}
			out = append(out, &ShapeNode{Kind: "STAR", Sub: []ShapeSeq{sub}, Count: n.Count, Ext: n.Ext})
		case "ALT":
			var bs []ShapeSeq
			seen := map[string]bool{}
			hasEmpty := false
			for _, b := range n.Sub {
				nb := normOnce(b, issues)
				if len(nb) == 0 {
					hasEmpty = true
					continue
				}
				if k := nb.String(); !seen[k] {
					seen[k] = true
					bs = append(bs, nb)
				}
			}
			switch {
			case len(bs) == 0:
			case len(bs) == 1 && !hasEmpty:
				out = append(out, bs[0]...)
			case len(bs) == 1 && hasEmpty:
				out = append(out, &ShapeNode{Kind: "OPT", Sub: []ShapeSeq{bs[0]}})
			default:
				// ALT(a·s | b·s) = ALT(a|b)·s and ALT(p·a | p·b) = p·ALT(a|b)
				all := bs
				if hasEmpty {
					all = append([]ShapeSeq{nil}, bs...)
				}
				pre, mid, suf := factor(all)
				out = append(out, pre...)
				if len(mid) > 0 {
					out = append(out, &ShapeNode{Kind: "ALT", Sub: mid})
				}
				out = append(out, suf...)
			}
		default:
			out = append(out, n)
		}
	}
	// OPT(x)·STAR(x) = STAR(x)
	var out2 ShapeSeq
	for i := 0; i < len(out); i++ {
		if out[i].Kind == "OPT" && i+1 < len(out) && out[i+1].Kind == "STAR" && out[i].Sub[0].Key() == out[i+1].Sub[0].Key() {
			continue
		}
		out2 = append(out2, out[i])
	}
	return out2
}

// factor pulls the common prefix and suffix out of the branches of an alternative.
func factor(bs []ShapeSeq) (pre ShapeSeq, mid []ShapeSeq, suf ShapeSeq) {
	minLen := len(bs[0])
	for _, b := range bs {
		if len(b) < minLen {
			minLen = len(b)
		}
	}
	np := 0
	for ; np < minLen; np++ {
		k := bs[0][np].render(true)
		same := true
		for _, b := range bs[1:] {
			if b[np].render(true) != k {
				same = false
			}
		}
		if !same {
			break
		}
	}
	ns := 0
	for ; ns < minLen-np; ns++ {
		k := bs[0][len(bs[0])-1-ns].render(true)
		same := true
		for _, b := range bs[1:] {
			if b[len(b)-1-ns].render(true) != k {
				same = false
			}
		}
		if !same {
			break
		}
	}
	pre = bs[0][:np]
	suf = bs[0][len(bs[0])-ns:]
	allEmpty := true
	for _, b := range bs {
		m := b[np : len(b)-ns]
		if len(m) > 0 {
			allEmpty = false
		}
		mid = append(mid, m)
	}
	if allEmpty {
		mid = nil
	}
	return pre, mid, suf
}

func tile(n *ShapeNode) (ShapeSeq, bool) {
	var out ShapeSeq
	off := 0
	for off < n.N {
		found := false
		for _, p := range n.parts {
			if p.off == off {
				out = append(out, prim(p.kind))
				off += p.width
				found = true
				break
			}
		}
		if !found {
			return nil, false
		}
	}
	if off != n.N {
		return nil, false
	}
	for _, p := range n.parts { // every piece must be one of the tiles (no overlapping second view)
		ok := false
		o := 0
		for _, t := range out {
			if o == p.off && t.Kind == p.kind {
				ok = true
			}
			o += primWidth(t.Kind)
		}
		if !ok {
			return nil, false
		}
	}
	return out, true
}

func primWidth(kind string) int {
	switch kind {
	case "U8":
		return 1
	case "U16":
		return 2
	case "U32", "F32":
		return 4
	case "U64", "F64":
		return 8
	}
	return 0
}

// Generalize replaces constant bytes by U8 (the value is not part of the shape).
func Generalize(s ShapeSeq) ShapeSeq {
	var out ShapeSeq
	for _, n := range s {
		c := *n
		if c.Kind == "K8" {
			c.Kind, c.N = "U8", 0
		}
		if len(n.Sub) > 0 {
			c.Sub = make([]ShapeSeq, len(n.Sub))
			for i, b := range n.Sub {
				c.Sub[i] = Generalize(b)
			}
		}
		out = append(out, &c)
	}
	return out
}

// TopAlternatives splits a shape that is a single top-level ALT / OPT into its branches.
func TopAlternatives(s ShapeSeq) []ShapeSeq {
	if len(s) == 1 && s[0].Kind == "ALT" {
		return s[0].Sub
	}
	if len(s) == 1 && s[0].Kind == "OPT" {
		return []ShapeSeq{nil, s[0].Sub[0]}
	}
	return []ShapeSeq{s}
}

// ConstBytes returns the bytes of a shape made only of constant bytes.
func ConstBytes(s ShapeSeq) ([]byte, bool) {
	if len(s) == 0 {
		return nil, false
	}
	out := make([]byte, 0, len(s))
	for _, n := range s {
		if n.Kind != "K8" {
			return nil, false
		}
		out = append(out, byte(n.N))
	}
	return out, true
}

// MatchConst decides whether the concrete byte string b is an instance of the reader
// shape r. Only shapes made of fixed primitives and count-bounded STARs are decidable;
// anything else yields decided=false.
func MatchConst(r ShapeSeq, b []byte) (ok, decided bool, why string) {
	vals := map[*ShapeNode]uint64{}
	rest, ok, decided, why := matchSeq(r, b, vals)
	if !decided || !ok {
		return ok, decided, why
	}
	if len(rest) != 0 {
		return false, true, fmt.Sprintf("%d trailing byte(s) are not consumed by the reader", len(rest))
	}
	return true, true, ""
}

func matchSeq(r ShapeSeq, b []byte, vals map[*ShapeNode]uint64) (rest []byte, ok, decided bool, why string) {
	for _, n := range r {
		switch n.Kind {
		case "U8", "U16", "U32", "U64", "F32", "F64":
			w := primWidth(n.Kind)
			if len(b) < w {
				return nil, false, true, fmt.Sprintf("reader wants %s but only %d byte(s) are left", n.Kind, len(b))
			}
			var v uint64
			for i := 0; i < w; i++ {
				v |= uint64(b[i]) << (8 * uint(i))
			}
			vals[n] = v
			b = b[w:]
		case "BYTES":
			if len(b) < n.N {
				return nil, false, true, fmt.Sprintf("reader wants %d bytes but only %d are left", n.N, len(b))
			}
			b = b[n.N:]
		case "UVARINT":
			var v uint64
			var s uint
			i := 0
			for {
				if i >= len(b) {
					return nil, false, true, "reader wants a uvarint but the bytes end"
				}
				c := b[i]
				i++
				v |= uint64(c&0x7f) << s
				if c < 0x80 {
					break
				}
				s += 7
			}
			vals[n] = v
			b = b[i:]
		case "STAR":
			if n.Count == nil {
				return nil, false, false, "reader repetition is not bounded by a decoded count"
			}
			cnt, has := vals[n.Count]
			if !has {
				return nil, false, false, "count token of the repetition was not decoded before it"
			}
			for i := uint64(0); i < cnt; i++ {
				var o, d bool
				b, o, d, why = matchSeq(n.Sub[0], b, vals)
				if !d || !o {
					return nil, o, d, why
				}
			}
		default:
			return nil, false, false, "reader shape contains " + n.Kind + ", which depends on decoded values"
		}
	}
	return b, true, true, ""
}
