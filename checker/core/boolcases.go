package core

import (
	"fmt"
	"go/token"

	"golang.org/x/tools/go/ssa"
)

// RetCase is one entry→return path of a loop-free function: the branch literals
// taken on the way (in order) and the returned values with every phi replaced by the
// value it takes on that path. Short-circuit expressions (`a && b || c`) are lowered
// by go/ssa to branches and phis, so a boolean result is decomposed into the exact
// list of condition combinations under which it is true.
type RetCase struct {
	Ret    *ssa.Return
	Lits   []TermLit
	Vals   []ssa.Value
	Env    map[*ssa.Phi]ssa.Value
	Blocks []int
}

// Has reports whether the case took literal (text, pol).
func (rc RetCase) Has(text string, pol bool) bool {
	for _, l := range rc.Lits {
		if l.Pol == pol && l.Text == text {
			return true
		}
	}
	return false
}

// HasAll reports whether the case took every literal of the set.
func (rc RetCase) HasAll(set []TermLit) bool {
	for _, l := range set {
		if !rc.Has(l.Text, l.Pol) {
			return false
		}
	}
	return true
}

// LitsString renders the case's literals.
func (rc RetCase) LitsString() string {
	s := ""
	for i, l := range rc.Lits {
		if i > 0 {
			s += " && "
		}
		s += l.String()
	}
	return s
}

// ReturnCases enumerates every entry→return path of fn. It fails (the caller reports
// "undecided") when fn contains a loop or has more than max paths. A branch on a
// value that is a constant on the path (a phi of constants) follows only the
// feasible edge. Paths ending in panic are not returned.
func ReturnCases(fn *ssa.Function, max int) ([]RetCase, error) {
	if len(fn.Blocks) == 0 {
		return nil, fmt.Errorf("%s has no body", FuncName(fn))
	}
	var out []RetCase
	var err error
	onPath := map[*ssa.BasicBlock]bool{}
	var walk func(b *ssa.BasicBlock, env map[*ssa.Phi]ssa.Value, lits []TermLit, blocks []int)
	resolve := func(v ssa.Value, env map[*ssa.Phi]ssa.Value) ssa.Value {
		for i := 0; i < 8; i++ {
			p, ok := v.(*ssa.Phi)
			if !ok {
				return v
			}
			x, ok := env[p]
			if !ok || x == v {
				return v
			}
			v = x
		}
		return v
	}
	step := func(from, to *ssa.BasicBlock, env map[*ssa.Phi]ssa.Value, lits []TermLit, blocks []int) {
		if err != nil {
			return
		}
		if onPath[to] {
			err = fmt.Errorf("%s contains a loop (block %d → block %d): path enumeration does not apply", FuncName(fn), from.Index, to.Index)
			return
		}
		idx := -1
		for i, p := range to.Preds {
			if p == from {
				idx = i
			}
		}
		nenv := make(map[*ssa.Phi]ssa.Value, len(env)+2)
		for k, v := range env {
			nenv[k] = v
		}
		for _, in := range to.Instrs {
			phi, ok := in.(*ssa.Phi)
			if !ok {
				break
			}
			if idx >= 0 && idx < len(phi.Edges) {
				nenv[phi] = resolve(phi.Edges[idx], env) // simultaneous assignment: read the old env
			}
		}
		walk(to, nenv, lits, append(append([]int{}, blocks...), to.Index))
	}
	walk = func(b *ssa.BasicBlock, env map[*ssa.Phi]ssa.Value, lits []TermLit, blocks []int) {
		if err != nil {
			return
		}
		if len(out) > max {
			err = fmt.Errorf("%s has more than %d paths", FuncName(fn), max)
			return
		}
		onPath[b] = true
		defer delete(onPath, b)
		if len(b.Instrs) == 0 {
			return
		}
		switch last := b.Instrs[len(b.Instrs)-1].(type) {
		case *ssa.Return:
			vals := make([]ssa.Value, len(last.Results))
			for i, r := range last.Results {
				vals[i] = resolve(r, env)
			}
			out = append(out, RetCase{Ret: last, Lits: append([]TermLit{}, lits...), Vals: vals, Env: env, Blocks: blocks})
		case *ssa.If:
			cond, pol := ssa.Value(last.Cond), true
			for {
				cond = resolve(cond, env)
				if u, ok := cond.(*ssa.UnOp); ok && u.Op == token.NOT {
					cond, pol = u.X, !pol
					continue
				}
				break
			}
			if k, ok := cond.(*ssa.Const); ok && k.Value != nil {
				taken := ConstBool(k, true) == pol
				if taken {
					step(b, b.Succs[0], env, lits, blocks)
				} else {
					step(b, b.Succs[1], env, lits, blocks)
				}
				return
			}
			step(b, b.Succs[0], env, append(append([]TermLit{}, lits...), NormTermLit(cond, pol, env)), blocks)
			step(b, b.Succs[1], env, append(append([]TermLit{}, lits...), NormTermLit(cond, !pol, env)), blocks)
		case *ssa.Jump:
			step(b, b.Succs[0], env, lits, blocks)
		case *ssa.Panic:
			// no result on this path
		default:
			err = fmt.Errorf("%s block %d ends in %T: path enumeration does not apply", FuncName(fn), b.Index, last)
		}
	}
	walk(fn.Blocks[0], map[*ssa.Phi]ssa.Value{}, nil, []int{0})
	if err != nil {
		return nil, err
	}
	return out, nil
}

// TrueCases filters the cases of a function with a single boolean result down to
// those on which the result can be true: a constant-false result is dropped, a
// non-constant result v is added to the case as the literal "v is true".
func TrueCases(cases []RetCase) []RetCase {
	var out []RetCase
	for _, rc := range cases {
		if len(rc.Vals) != 1 {
			continue
		}
		v := rc.Vals[0]
		if ConstBool(v, false) {
			continue
		}
		if !ConstBool(v, true) {
			rc.Lits = append(append([]TermLit{}, rc.Lits...), NormTermLit(v, true, rc.Env))
		}
		out = append(out, rc)
	}
	return out
}

// AltGuard is a guard of a block whose incoming edges are all branch edges, with
// every alternative strengthened by the single-literal facts that hold in the
// predecessor the edge comes from: `if a != b && !(a == 0 && c == 1) { return }`
// continues either under (a == b) or under (c == 1) && (a == 0).
type AltGuard struct {
	Block *ssa.BasicBlock
	Alts  [][]Lit
}

// AltGuards returns the strengthened guards on the dominator chain of b.
func AltGuards(b *ssa.BasicBlock) []AltGuard {
	var out []AltGuard
	for d := b; d != nil; d = d.Idom() {
		if len(d.Preds) == 0 {
			continue
		}
		g := AltGuard{Block: d}
		ok := true
		for _, p := range d.Preds {
			l, has := edgeLit(p, d)
			if !has {
				ok = false
				break
			}
			alt := []Lit{l}
			for _, pg := range Facts(p) {
				if len(pg.Alts) == 1 {
					alt = append(alt, pg.Alts[0])
				}
			}
			g.Alts = append(g.Alts, alt)
		}
		if ok {
			out = append(out, g)
		}
	}
	return out
}
