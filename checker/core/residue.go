package core

import (
	"fmt"
	"go/constant"
	"go/token"

	"golang.org/x/tools/go/ssa"
)

// K13a — residue domain.
//
// An integer expression e(t) over ONE unsigned variable t, built from t, non-negative
// constants, +, * by a constant, % by a positive constant and integer conversions, is
// evaluated abstractly for t in each residue class r of Z/P. The abstract value is
//
//	Exact(v)   e(t) = v for every t ≡ r (mod P)          (small bounded values: t%3, constants)
//	Res(v)     e(t) ≡ v (mod P) for every t ≡ r (mod P)  (unbounded values: t, t+1+t%2)
//
// Transfer functions (all exact in ℤ):
//
//	t                       Res(r)
//	c                       Exact(c)
//	a + b                   Exact+Exact = Exact; otherwise Res((a+b) mod P)
//	a * b                   Exact*Exact = Exact; a product with an unbounded value is refused
//	                        (its wrap-around cannot be bounded by "t + k")
//	a % c  (c const > 0)    Exact(a%c); Res(a) with c | P gives Exact(a mod c); otherwise refused
//	conversions             identity (see the side condition below)
//
// Nothing of the analysed program is executed: the evaluator walks the SSA expression
// DAG. Machine arithmetic differs from ℤ only by wrap-around, so the result is valid
// under the side condition reported in Slack: every non-exact intermediate value is
// at most t + Slack, hence the tables hold for all t with t + Slack < 2^bits(t).
// Subtraction, division, shifts, negative constants, a second variable, or a modulus
// that does not divide P are refused with an error (the rule is then undecided).

// ResVal is the abstract value of an expression on one residue class.
type ResVal struct {
	Exact bool
	V     int64
}

// ResidueTable is the result of evaluating an expression on all classes of Z/P.
type ResidueTable struct {
	P     int64
	Vals  []ResVal
	Slack int64 // the tables hold for all t with t + Slack representable in t's type
}

// ResiduePeriod returns the lcm of the constant moduli applied (transitively) to
// values that depend on t in expression v — the smallest P for which ResidueEval can succeed.
func ResiduePeriod(v, t ssa.Value) (int64, error) {
	p := int64(1)
	seen := map[ssa.Value]bool{}
	var walk func(v ssa.Value) error
	walk = func(v ssa.Value) error {
		if v == t || seen[v] {
			return nil
		}
		seen[v] = true
		switch x := v.(type) {
		case *ssa.Const:
			return nil
		case *ssa.Convert:
			return walk(x.X)
		case *ssa.ChangeType:
			return walk(x.X)
		case *ssa.BinOp:
			if x.Op == token.REM {
				c, ok := x.Y.(*ssa.Const)
				if !ok || c.Value == nil || c.Value.Kind() != constant.Int {
					return fmt.Errorf("modulus is not a constant: %s", Expr(x))
				}
				m, exact := constant.Int64Val(c.Value)
				if !exact || m <= 0 || m > 1<<16 {
					return fmt.Errorf("modulus out of range: %s", Expr(x))
				}
				p = lcm(p, m)
				return walk(x.X)
			}
			if err := walk(x.X); err != nil {
				return err
			}
			return walk(x.Y)
		}
		return fmt.Errorf("expression depends on something other than the variable and constants: %s", Expr(v))
	}
	if err := walk(v); err != nil {
		return 0, err
	}
	if p > 1<<12 {
		return 0, fmt.Errorf("period %d too large", p)
	}
	return p, nil
}

func gcd(a, b int64) int64 {
	for b != 0 {
		a, b = b, a%b
	}
	return a
}

func lcm(a, b int64) int64 { return a / gcd(a, b) * b }

// ResidueEval evaluates v(t) on every residue class of t modulo P.
func ResidueEval(v, t ssa.Value, P int64) (ResidueTable, error) {
	out := ResidueTable{P: P, Vals: make([]ResVal, P)}
	for r := int64(0); r < P; r++ {
		ev := &resEvaluator{t: t, r: r, p: P}
		val, _, err := ev.eval(v, 0)
		if err != nil {
			return out, err
		}
		out.Vals[r] = val
		if ev.maxSlack > out.Slack {
			out.Slack = ev.maxSlack
		}
	}
	return out, nil
}

const resExactLimit = int64(1) << 40

type resEvaluator struct {
	t        ssa.Value
	r, p     int64
	maxSlack int64 // largest k such that some intermediate unbounded value is t + k
}

// eval returns the abstract value and, for non-exact values, k such that value = t + k' with k' <= k.
func (ev *resEvaluator) eval(v ssa.Value, depth int) (ResVal, int64, error) {
	if depth > 32 {
		return ResVal{}, 0, fmt.Errorf("expression too deep")
	}
	if v == ev.t {
		return ResVal{V: ev.r}, 0, nil
	}
	switch x := v.(type) {
	case *ssa.Const:
		if x.Value != nil && x.Value.Kind() == constant.Int {
			if n, ok := constant.Int64Val(x.Value); ok && n >= 0 && n < resExactLimit {
				return ResVal{Exact: true, V: n}, 0, nil
			}
		}
		return ResVal{}, 0, fmt.Errorf("constant outside the domain: %s", Expr(x))
	case *ssa.ChangeType:
		return ev.eval(x.X, depth+1)
	case *ssa.Convert:
		if _, _, ok := intKind(x.Type()); !ok {
			return ResVal{}, 0, fmt.Errorf("non-integer conversion: %s", Expr(x))
		}
		a, k, err := ev.eval(x.X, depth+1)
		if err != nil {
			return a, k, err
		}
		if !a.Exact && !widening(x.X.Type(), x.Type()) {
			return a, k, fmt.Errorf("narrowing conversion of an unbounded value: %s", Expr(x))
		}
		if a.Exact {
			if bits, _, _ := intKind(x.Type()); bits < 63 && a.V >= int64(1)<<uint(bits-1) {
				return a, k, fmt.Errorf("conversion may truncate: %s", Expr(x))
			}
		}
		return a, k, nil
	case *ssa.BinOp:
		switch x.Op {
		case token.ADD, token.MUL:
			a, ka, err := ev.eval(x.X, depth+1)
			if err != nil {
				return a, ka, err
			}
			b, kb, err := ev.eval(x.Y, depth+1)
			if err != nil {
				return b, kb, err
			}
			if x.Op == token.ADD {
				if a.Exact && b.Exact {
					if a.V+b.V >= resExactLimit {
						return a, 0, fmt.Errorf("sum outside the domain: %s", Expr(x))
					}
					return ResVal{Exact: true, V: a.V + b.V}, 0, nil
				}
				if !a.Exact && !b.Exact {
					return a, 0, fmt.Errorf("sum of two unbounded values (2·t) is outside the domain: %s", Expr(x))
				}
				// one side is t + k', the other an exact addend
				k := ka + kb
				if a.Exact {
					k += a.V
				} else {
					k += b.V
				}
				if k > ev.maxSlack {
					ev.maxSlack = k
				}
				return ResVal{V: (a.V + b.V) % ev.p}, k, nil
			}
			if a.Exact && b.Exact {
				if a.V != 0 && b.V >= resExactLimit/a.V {
					return a, 0, fmt.Errorf("product outside the domain: %s", Expr(x))
				}
				return ResVal{Exact: true, V: a.V * b.V}, 0, nil
			}
			return a, 0, fmt.Errorf("product with an unbounded value cannot be bounded against wrap-around: %s", Expr(x))
		case token.REM:
			c, ok := x.Y.(*ssa.Const)
			if !ok || c.Value == nil || c.Value.Kind() != constant.Int {
				return ResVal{}, 0, fmt.Errorf("modulus is not a constant: %s", Expr(x))
			}
			m, exact := constant.Int64Val(c.Value)
			if !exact || m <= 0 {
				return ResVal{}, 0, fmt.Errorf("modulus not positive: %s", Expr(x))
			}
			a, _, err := ev.eval(x.X, depth+1)
			if err != nil {
				return a, 0, err
			}
			if a.Exact {
				return ResVal{Exact: true, V: a.V % m}, 0, nil
			}
			if ev.p%m != 0 {
				return a, 0, fmt.Errorf("modulus %d does not divide the period %d: %s", m, ev.p, Expr(x))
			}
			return ResVal{Exact: true, V: a.V % m}, 0, nil
		}
	}
	return ResVal{}, 0, fmt.Errorf("outside the residue fragment: %s", Expr(v))
}
