package core

// Minimal "mutex held at instruction" forward must-analysis (K4 in local form).
//
// Per function, per mutex (identified by the canonical expression of the receiver of the
// sync.Mutex / sync.RWMutex method call, e.g. "{0:*agent.diskCacheShard}.mu" — parameter
// positions and field paths, never local names) the lattice is none < R < W; the meet over
// predecessors is the minimum. Transfer: Lock -> W, RLock -> R, Unlock/RUnlock -> none,
// `defer m.Unlock()` registers a deferred release (the mutex stays held up to the return),
// the true edge of a branch on m.TryLock() / m.TryRLock() -> W / R.
//
// Calls to other functions are assumed not to change the state of the caller's mutexes;
// rule tables discharge that assumption with a who-may-lock rule (MinLockOps) restricting the
// functions that operate the mutex at all.

import (
	"go/token"
	"strings"

	"golang.org/x/tools/go/ssa"
)

// Lock levels.
const (
	LockNone = 0
	LockR    = 1
	LockW    = 2
)

// MinLockOp is one operation on a mutex.
type MinLockOp struct {
	Instr ssa.Instruction
	Mutex string // canonical expression of the mutex (without leading &)
	Op    string // Lock, RLock, Unlock, RUnlock, TryLock, TryRLock
	Defer bool
	Addr  ssa.Value // the receiver argument (address of the mutex)
}

// minLockOpOf classifies an instruction as a mutex operation.
func minLockOpOf(in ssa.Instruction) (MinLockOp, bool) {
	ci, ok := in.(ssa.CallInstruction)
	if !ok {
		return MinLockOp{}, false
	}
	c := ci.Common()
	if c.IsInvoke() || len(c.Args) == 0 {
		return MinLockOp{}, false
	}
	name := CalleeName(c)
	var op string
	switch {
	case strings.HasPrefix(name, "sync.(*Mutex)."):
		op = strings.TrimPrefix(name, "sync.(*Mutex).")
	case strings.HasPrefix(name, "sync.(*RWMutex)."):
		op = strings.TrimPrefix(name, "sync.(*RWMutex).")
	default:
		return MinLockOp{}, false
	}
	switch op {
	case "Lock", "RLock", "Unlock", "RUnlock", "TryLock", "TryRLock":
	default:
		return MinLockOp{}, false
	}
	_, isDefer := in.(*ssa.Defer)
	if _, isGo := in.(*ssa.Go); isGo {
		return MinLockOp{}, false
	}
	return MinLockOp{Instr: in, Mutex: strings.TrimPrefix(Expr(c.Args[0]), "&"), Op: op, Defer: isDefer, Addr: c.Args[0]}, true
}

// MinLockOps lists the mutex operations of a function (not of its closures).
func MinLockOps(fn *ssa.Function) []MinLockOp {
	var out []MinLockOp
	for _, b := range fn.Blocks {
		for _, in := range b.Instrs {
			if op, ok := minLockOpOf(in); ok {
				out = append(out, op)
			}
		}
	}
	return out
}

type minLockState struct {
	held     map[string]int  // must-held level
	deferred map[string]bool // a deferred release is registered on every path
	top      bool            // not yet reached
}

func (s minLockState) clone() minLockState {
	o := minLockState{held: map[string]int{}, deferred: map[string]bool{}, top: s.top}
	for k, v := range s.held {
		o.held[k] = v
	}
	for k, v := range s.deferred {
		o.deferred[k] = v
	}
	return o
}

func meetLock(a, b minLockState) minLockState {
	if a.top {
		return b.clone()
	}
	if b.top {
		return a.clone()
	}
	o := minLockState{held: map[string]int{}, deferred: map[string]bool{}}
	for k, v := range a.held {
		if w, ok := b.held[k]; ok {
			if w < v {
				v = w
			}
			if v > 0 {
				o.held[k] = v
			}
		}
	}
	for k := range a.deferred {
		if b.deferred[k] {
			o.deferred[k] = true
		}
	}
	return o
}

func eqLock(a, b minLockState) bool {
	if a.top != b.top || len(a.held) != len(b.held) || len(a.deferred) != len(b.deferred) {
		return false
	}
	for k, v := range a.held {
		if b.held[k] != v {
			return false
		}
	}
	for k := range a.deferred {
		if !b.deferred[k] {
			return false
		}
	}
	return true
}

func transferLock(s *minLockState, in ssa.Instruction) {
	op, ok := minLockOpOf(in)
	if !ok {
		return
	}
	if op.Defer {
		switch op.Op {
		case "Unlock", "RUnlock":
			s.deferred[op.Mutex] = true
		}
		return
	}
	switch op.Op {
	case "Lock":
		s.held[op.Mutex] = LockW
	case "RLock":
		if s.held[op.Mutex] < LockR {
			s.held[op.Mutex] = LockR
		}
	case "Unlock", "RUnlock":
		delete(s.held, op.Mutex)
	}
}

// HeldLocks is the result of the analysis for one function.
type HeldLocks struct {
	fn *ssa.Function
	in map[*ssa.BasicBlock]minLockState
}

// tryLockEdge returns the mutex and level acquired when control goes from pred to succ
// because a TryLock/TryRLock call tested by pred's branch returned true.
func tryLockEdge(pred, succ *ssa.BasicBlock) (string, int, bool) {
	if len(pred.Instrs) == 0 || len(pred.Succs) != 2 || pred.Succs[0] == pred.Succs[1] {
		return "", 0, false
	}
	ifi, ok := pred.Instrs[len(pred.Instrs)-1].(*ssa.If)
	if !ok {
		return "", 0, false
	}
	cond, pol := ifi.Cond, true
	for {
		u, isU := cond.(*ssa.UnOp)
		if !isU || u.Op != token.NOT {
			break
		}
		cond, pol = u.X, !pol
	}
	call, ok := cond.(*ssa.Call)
	if !ok || call.Block() != pred {
		return "", 0, false
	}
	op, ok := minLockOpOf(call)
	if !ok || (op.Op != "TryLock" && op.Op != "TryRLock") {
		return "", 0, false
	}
	taken := pred.Succs[0] == succ // true edge
	if taken != pol {
		return "", 0, false
	}
	// nothing between the TryLock call and the branch may release it: the call is in the
	// same block and only the If follows in the patterns accepted; check no Unlock after it
	after := false
	for _, in := range pred.Instrs {
		if in == ssa.Instruction(call) {
			after = true
			continue
		}
		if after {
			if o2, ok := minLockOpOf(in); ok && o2.Mutex == op.Mutex && !o2.Defer {
				return "", 0, false
			}
		}
	}
	if op.Op == "TryLock" {
		return op.Mutex, LockW, true
	}
	return op.Mutex, LockR, true
}

// AnalyzeLocks runs the must-analysis on fn.
func AnalyzeLocks(fn *ssa.Function) *HeldLocks {
	h := &HeldLocks{fn: fn, in: map[*ssa.BasicBlock]minLockState{}}
	if len(fn.Blocks) == 0 {
		return h
	}
	out := map[*ssa.BasicBlock]minLockState{}
	for _, b := range fn.Blocks {
		h.in[b] = minLockState{top: true}
		out[b] = minLockState{top: true}
	}
	h.in[fn.Blocks[0]] = minLockState{held: map[string]int{}, deferred: map[string]bool{}}
	changed := true
	for iter := 0; changed && iter < 200; iter++ {
		changed = false
		for _, b := range fn.Blocks {
			var inS minLockState
			if b == fn.Blocks[0] {
				inS = minLockState{held: map[string]int{}, deferred: map[string]bool{}}
			} else {
				inS = minLockState{top: true}
				for _, p := range b.Preds {
					ps := out[p]
					if ps.top {
						continue
					}
					ps = ps.clone()
					if m, lvl, ok := tryLockEdge(p, b); ok {
						if ps.held[m] < lvl {
							ps.held[m] = lvl
						}
					}
					inS = meetLock(inS, ps)
				}
			}
			if inS.top {
				continue
			}
			if !eqLock(inS, h.in[b]) {
				h.in[b] = inS
				changed = true
			}
			s := inS.clone()
			for _, in := range b.Instrs {
				transferLock(&s, in)
			}
			if !eqLock(s, out[b]) {
				out[b] = s
				changed = true
			}
		}
	}
	return h
}

func (h *HeldLocks) stateBefore(in ssa.Instruction) (minLockState, bool) {
	b := in.Block()
	s, ok := h.in[b]
	if !ok || s.top {
		return minLockState{}, false // unreachable
	}
	s = s.clone()
	for _, x := range b.Instrs {
		if x == in {
			return s, true
		}
		transferLock(&s, x)
	}
	return s, true
}

// Level returns the level at which mutex is provably held just before the instruction
// executes; reachable is false for dead code.
func (h *HeldLocks) Level(in ssa.Instruction, mutex string) (level int, reachable bool) {
	s, ok := h.stateBefore(in)
	if !ok {
		return LockNone, false
	}
	return s.held[mutex], true
}

// DeferredRelease reports whether a deferred Unlock/RUnlock of mutex is registered on
// every path reaching the instruction.
func (h *HeldLocks) DeferredRelease(in ssa.Instruction, mutex string) bool {
	s, ok := h.stateBefore(in)
	return ok && s.deferred[mutex]
}

// HeldAt lists the mutexes held before the instruction (for diagnostics).
func (h *HeldLocks) HeldAt(in ssa.Instruction) string {
	s, ok := h.stateBefore(in)
	if !ok {
		return "unreachable"
	}
	var parts []string
	for _, k := range SortedKeys(s.held) {
		lv := "R"
		if s.held[k] == LockW {
			lv = "W"
		}
		parts = append(parts, k+":"+lv)
	}
	if len(parts) == 0 {
		return "none"
	}
	return strings.Join(parts, ", ")
}
