package core

// K11 — embedded-SQL shape.
//
// This file holds (1) a small tokenizer/parser for the SQL dialect embedded in the
// repository (SELECT / INSERT [OR REPLACE] / UPDATE / DELETE with $parameters,
// parenthesised sub-selects, ORDER BY, LIMIT; CREATE TABLE / CREATE INDEX for the
// schema literal), (2) the extraction of the constant SQL strings passed to the
// methods of `sqlite.Conn` together with the `sqlite.Arg` values bound to their
// $parameters (callee resolved through the type-checked program, the SQL text through
// ssa.Const / types.Info constant values), (3) "may write" summaries and flattened
// statement lists of functions, and (4) the write-shape compatibility relation used to
// compare what a primary executes with what a replay function executes.
//
// The SQL text is the semantic object here: statements are compared as parsed shapes
// (case-insensitive identifiers/keywords, whitespace and comments ignored), never as
// source text of the Go files.

import (
	"fmt"
	"go/ast"
	"go/constant"
	"go/token"
	"go/types"
	"sort"
	"strings"

	"golang.org/x/tools/go/ssa"
)

// ---- tokenizer ----------------------------------------------------------------------

type sqlTokKind int

const (
	sqlIdent sqlTokKind = iota
	sqlNumber
	sqlString
	sqlParam
	sqlPunct
)

type sqlTok struct {
	kind sqlTokKind
	text string // identifiers keep their spelling; up() gives the keyword form
}

func (t sqlTok) up() string { return strings.ToUpper(t.text) }

func (t sqlTok) is(kw string) bool { return t.kind == sqlIdent && strings.EqualFold(t.text, kw) }

func (t sqlTok) punct(p string) bool { return t.kind == sqlPunct && t.text == p }

func sqlIsIdentStart(c byte) bool {
	return c == '_' || (c >= 'a' && c <= 'z') || (c >= 'A' && c <= 'Z') || c >= 0x80
}

func sqlIsIdentPart(c byte) bool { return sqlIsIdentStart(c) || (c >= '0' && c <= '9') }

func sqlLex(s string) ([]sqlTok, error) {
	var out []sqlTok
	i := 0
	for i < len(s) {
		c := s[i]
		switch {
		case c == ' ' || c == '\t' || c == '\n' || c == '\r':
			i++
		case c == '-' && i+1 < len(s) && s[i+1] == '-':
			for i < len(s) && s[i] != '\n' {
				i++
			}
		case c == '/' && i+1 < len(s) && s[i+1] == '*':
			j := strings.Index(s[i+2:], "*/")
			if j < 0 {
				return nil, fmt.Errorf("unterminated comment")
			}
			i += j + 4
		case c == '$' || c == ':' || c == '@' || c == '?':
			j := i + 1
			for j < len(s) && sqlIsIdentPart(s[j]) {
				j++
			}
			if j < len(s) && s[j] == '$' { // list parameter "$ids$"
				j++
			}
			out = append(out, sqlTok{sqlParam, s[i:j]})
			i = j
		case sqlIsIdentStart(c):
			j := i + 1
			for j < len(s) && sqlIsIdentPart(s[j]) {
				j++
			}
			out = append(out, sqlTok{sqlIdent, s[i:j]})
			i = j
		case c >= '0' && c <= '9':
			j := i + 1
			for j < len(s) && (sqlIsIdentPart(s[j]) || s[j] == '.') {
				j++
			}
			out = append(out, sqlTok{sqlNumber, s[i:j]})
			i = j
		case c == '\'':
			j := i + 1
			for {
				if j >= len(s) {
					return nil, fmt.Errorf("unterminated string literal")
				}
				if s[j] == '\'' {
					if j+1 < len(s) && s[j+1] == '\'' {
						j += 2
						continue
					}
					break
				}
				j++
			}
			out = append(out, sqlTok{sqlString, s[i : j+1]})
			i = j + 1
		case c == '"' || c == '`' || c == '[':
			end := byte(c)
			if c == '[' {
				end = ']'
			}
			j := strings.IndexByte(s[i+1:], end)
			if j < 0 {
				return nil, fmt.Errorf("unterminated quoted identifier")
			}
			out = append(out, sqlTok{sqlIdent, s[i+1 : i+1+j]})
			i += j + 2
		default:
			two := ""
			if i+1 < len(s) {
				two = s[i : i+2]
			}
			switch two {
			case "<=", ">=", "<>", "!=", "==", "||":
				out = append(out, sqlTok{sqlPunct, two})
				i += 2
			default:
				out = append(out, sqlTok{sqlPunct, string(c)})
				i++
			}
		}
	}
	return out, nil
}

// ---- parsed shapes --------------------------------------------------------------------

// SQLExpr is a value expression of a statement.
type SQLExpr struct {
	toks  []sqlTok
	Param string   // "$name" when the expression is exactly one bound parameter
	Lit   string   // the literal when the expression is exactly one literal (number, string, NULL)
	Sub   *SQLStmt // the statement when the expression is exactly one parenthesised SELECT
}

// Norm renders the expression canonically: no whitespace, identifiers lower-cased.
func (e SQLExpr) Norm() string {
	var b strings.Builder
	for _, t := range e.toks {
		if t.kind == sqlIdent {
			b.WriteString(strings.ToLower(t.text))
		} else {
			b.WriteString(t.text)
		}
	}
	return b.String()
}

// Params lists the bound parameters occurring anywhere in the expression.
func (e SQLExpr) Params() []string {
	var out []string
	for _, t := range e.toks {
		if t.kind == sqlParam {
			out = append(out, t.text)
		}
	}
	return out
}

// SQLAssign is one `col = expr` of UPDATE … SET.
type SQLAssign struct {
	Col string
	Val SQLExpr
}

// SQLPred is one conjunct `col op expr` of a WHERE clause. Col is "" when the left
// side is not a plain column (the conjunct is then kept in Val and the clause is
// flagged complex).
type SQLPred struct {
	Col string
	Op  string // "=", "<", ">", "<=", ">=", "!=", "in", "is", "like"
	Val SQLExpr
}

// SQLOrder is one ORDER BY term.
type SQLOrder struct {
	Col  string
	Desc bool
}

// SQLStmt is the shape of one statement.
type SQLStmt struct {
	Verb         string // SELECT | INSERT | INSERT OR REPLACE | UPDATE | DELETE | CREATE TABLE | CREATE INDEX | first keyword(s) of anything else
	Table        string // lower-cased
	Cols         []string
	SelExprs     []SQLExpr // SELECT result expressions
	Values       []SQLExpr // INSERT … VALUES (…), parallel to Cols
	Set          []SQLAssign
	Where        []SQLPred
	WhereComplex bool // an OR or a conjunct that is not `column op expr`
	OrderBy      []SQLOrder
	Limit        *SQLExpr
	Def          *SQLTable // CREATE TABLE
	Unique       bool      // CREATE UNIQUE INDEX
	Text         string
}

// IsWrite reports whether the statement can change the database contents.
func (s *SQLStmt) IsWrite() bool {
	switch s.Verb {
	case "SELECT":
		return false
	}
	return true
}

// IsDML reports whether the statement is one of the data statements the shape rules
// understand.
func (s *SQLStmt) IsDML() bool {
	switch s.Verb {
	case "SELECT", "INSERT", "INSERT OR REPLACE", "UPDATE", "DELETE":
		return true
	}
	return false
}

// WherePred returns the conjunct on a column (nil when absent or ambiguous).
func (s *SQLStmt) WherePred(col string) *SQLPred {
	var found *SQLPred
	for i := range s.Where {
		if s.Where[i].Col == col {
			if found != nil {
				return nil
			}
			found = &s.Where[i]
		}
	}
	return found
}

// WhereCols lists "col op" of every conjunct, sorted.
func (s *SQLStmt) WhereCols() []string {
	var out []string
	for _, p := range s.Where {
		if p.Col != "" {
			out = append(out, p.Col+" "+p.Op)
		} else {
			out = append(out, "?"+p.Val.Norm())
		}
	}
	sort.Strings(out)
	return out
}

// SetCols lists the assigned columns of an UPDATE, sorted.
func (s *SQLStmt) SetCols() []string {
	var out []string
	for _, a := range s.Set {
		out = append(out, a.Col)
	}
	sort.Strings(out)
	return out
}

// InsertCols lists the INSERT column list, sorted.
func (s *SQLStmt) InsertCols() []string {
	out := append([]string{}, s.Cols...)
	sort.Strings(out)
	return out
}

// ValueOf returns the expression written into a column by INSERT (VALUES) or UPDATE (SET).
func (s *SQLStmt) ValueOf(col string) (SQLExpr, bool) {
	switch s.Verb {
	case "INSERT", "INSERT OR REPLACE":
		for i, c := range s.Cols {
			if c == col && i < len(s.Values) {
				return s.Values[i], true
			}
		}
	case "UPDATE":
		for _, a := range s.Set {
			if a.Col == col {
				return a.Val, true
			}
		}
	}
	return SQLExpr{}, false
}

// Shape renders the statement's shape for messages.
func (s *SQLStmt) Shape() string {
	switch s.Verb {
	case "SELECT":
		o := ""
		for _, t := range s.OrderBy {
			d := "asc"
			if t.Desc {
				d = "desc"
			}
			o += " " + t.Col + " " + d
		}
		return fmt.Sprintf("SELECT %v FROM %s WHERE %v ORDER BY[%s]", s.Cols, s.Table, s.WhereCols(), strings.TrimSpace(o))
	case "INSERT", "INSERT OR REPLACE":
		return fmt.Sprintf("%s %s %v", s.Verb, s.Table, s.InsertCols())
	case "UPDATE":
		return fmt.Sprintf("UPDATE %s SET %v WHERE %v", s.Table, s.SetCols(), s.WhereCols())
	case "DELETE":
		return fmt.Sprintf("DELETE %s WHERE %v", s.Table, s.WhereCols())
	}
	return s.Verb + " " + s.Table
}

// MaxPlusOneOf reports whether the expression is the sub-select that yields a fresh
// maximum of `col` over `table`: (SELECT IFNULL|COALESCE(MAX(col), k) + n FROM table)
// with constants k >= 0, n >= 1 and no WHERE clause.
func (e SQLExpr) MaxPlusOneOf(col, table string) bool {
	s := e.Sub
	if s == nil || s.Verb != "SELECT" || s.Table != table || len(s.Where) != 0 || s.WhereComplex || len(s.SelExprs) != 1 || s.Limit != nil {
		return false
	}
	n := s.SelExprs[0].Norm()
	for _, f := range []string{"ifnull", "coalesce"} {
		pre := f + "(max(" + col + "),"
		if !strings.HasPrefix(n, pre) {
			continue
		}
		rest := n[len(pre):]
		i := strings.Index(rest, ")+")
		if i < 0 {
			continue
		}
		k, inc := rest[:i], rest[i+2:]
		if sqlIsNonNegInt(k) && sqlIsNonNegInt(inc) && strings.Trim(inc, "0") != "" {
			return true
		}
	}
	return false
}

func sqlIsNonNegInt(s string) bool {
	if s == "" {
		return false
	}
	for i := 0; i < len(s); i++ {
		if s[i] < '0' || s[i] > '9' {
			return false
		}
	}
	return true
}

// SQLColumn is a column definition of the schema literal.
type SQLColumn struct {
	Name          string
	Type          string // upper-cased type name ("INTEGER", "TEXT", …), "" when omitted
	PrimaryKey    bool
	AutoIncrement bool
	Unique        bool
	NotNull       bool
}

// SQLTable is a CREATE TABLE statement of the schema literal.
type SQLTable struct {
	Name       string
	Cols       []SQLColumn
	PrimaryKey []string   // table-level PRIMARY KEY(...) or the single column-level one
	Uniques    [][]string // table-level UNIQUE(...) and CREATE UNIQUE INDEX, each sorted
	Options    []string   // STRICT, WITHOUT ROWID
}

// Col returns the column definition.
func (t *SQLTable) Col(name string) *SQLColumn {
	for i := range t.Cols {
		if t.Cols[i].Name == name {
			return &t.Cols[i]
		}
	}
	return nil
}

// HasUnique reports whether the set of columns is declared unique (as a set: the order
// inside UNIQUE(...) does not change which rows conflict), by a table-level UNIQUE, a
// column-level UNIQUE / PRIMARY KEY or a table-level PRIMARY KEY.
func (t *SQLTable) HasUnique(cols ...string) bool {
	want := append([]string{}, cols...)
	sort.Strings(want)
	eq := func(a []string) bool {
		b := append([]string{}, a...)
		sort.Strings(b)
		return strings.Join(b, ",") == strings.Join(want, ",")
	}
	for _, u := range t.Uniques {
		if eq(u) {
			return true
		}
	}
	if len(t.PrimaryKey) > 0 && eq(t.PrimaryKey) {
		return true
	}
	if len(want) == 1 {
		if c := t.Col(want[0]); c != nil && (c.Unique || c.PrimaryKey) {
			return true
		}
	}
	return false
}

// AutoIncrementCols lists the INTEGER PRIMARY KEY AUTOINCREMENT columns.
func (t *SQLTable) AutoIncrementCols() []string {
	var out []string
	for _, c := range t.Cols {
		if c.PrimaryKey && c.AutoIncrement {
			out = append(out, c.Name)
		}
	}
	return out
}

// SQLSchema is the parsed schema literal.
type SQLSchema struct {
	Tables map[string]*SQLTable
	Stmts  []*SQLStmt
	Errs   []string
}

// ---- parser -------------------------------------------------------------------------

type sqlParser struct {
	toks []sqlTok
	pos  int
}

func (p *sqlParser) peek() sqlTok {
	if p.pos < len(p.toks) {
		return p.toks[p.pos]
	}
	return sqlTok{sqlPunct, ""}
}

func (p *sqlParser) next() sqlTok { t := p.peek(); p.pos++; return t }

func (p *sqlParser) eof() bool { return p.pos >= len(p.toks) }

func (p *sqlParser) accept(kw string) bool {
	if p.peek().is(kw) {
		p.pos++
		return true
	}
	return false
}

func (p *sqlParser) acceptPunct(s string) bool {
	if p.peek().punct(s) {
		p.pos++
		return true
	}
	return false
}

func (p *sqlParser) expect(kw string) error {
	if !p.accept(kw) {
		return fmt.Errorf("expected %s, found %q", kw, p.peek().text)
	}
	return nil
}

func (p *sqlParser) expectPunct(s string) error {
	if !p.acceptPunct(s) {
		return fmt.Errorf("expected %q, found %q", s, p.peek().text)
	}
	return nil
}

func (p *sqlParser) ident() (string, error) {
	t := p.next()
	if t.kind != sqlIdent {
		return "", fmt.Errorf("expected identifier, found %q", t.text)
	}
	return strings.ToLower(t.text), nil
}

// until collects tokens up to (not including) the first depth-0 token for which stop
// returns true; parentheses are balanced.
func (p *sqlParser) until(stop func(sqlTok) bool) ([]sqlTok, error) {
	depth := 0
	start := p.pos
	for !p.eof() {
		t := p.peek()
		if depth == 0 && (stop(t) || t.punct(")")) {
			break
		}
		if t.punct("(") {
			depth++
		} else if t.punct(")") {
			depth--
		}
		p.pos++
	}
	if depth != 0 {
		return nil, fmt.Errorf("unbalanced parentheses")
	}
	return p.toks[start:p.pos], nil
}

// sqlSplitTop splits tokens at the depth-0 occurrences of a separator.
func sqlSplitTop(toks []sqlTok, sep func(sqlTok) bool) [][]sqlTok {
	var out [][]sqlTok
	depth, start := 0, 0
	for i, t := range toks {
		if t.punct("(") {
			depth++
		} else if t.punct(")") {
			depth--
		} else if depth == 0 && sep(t) {
			out = append(out, toks[start:i])
			start = i + 1
		}
	}
	return append(out, toks[start:])
}

func sqlIsComma(t sqlTok) bool { return t.punct(",") }

func sqlStripParens(toks []sqlTok) []sqlTok {
	for len(toks) >= 2 && toks[0].punct("(") && toks[len(toks)-1].punct(")") {
		depth := 0
		wraps := true
		for i, t := range toks {
			if t.punct("(") {
				depth++
			} else if t.punct(")") {
				depth--
				if depth == 0 && i != len(toks)-1 {
					wraps = false
					break
				}
			}
		}
		if !wraps {
			break
		}
		toks = toks[1 : len(toks)-1]
	}
	return toks
}

func sqlMkExpr(toks []sqlTok) (SQLExpr, error) {
	e := SQLExpr{toks: toks}
	in := sqlStripParens(toks)
	switch {
	case len(in) == 1 && in[0].kind == sqlParam:
		e.Param = in[0].text
	case len(in) == 1 && (in[0].kind == sqlNumber || in[0].kind == sqlString || in[0].is("NULL")):
		e.Lit = in[0].text
	case len(in) > 0 && in[0].is("SELECT") && len(in) != len(toks):
		sp := &sqlParser{toks: in}
		sub, err := sp.selectStmt()
		if err != nil {
			return e, fmt.Errorf("sub-select: %w", err)
		}
		if !sp.eof() {
			return e, fmt.Errorf("sub-select: trailing %q", sp.peek().text)
		}
		e.Sub = sub
	}
	if len(toks) == 0 {
		return e, fmt.Errorf("empty expression")
	}
	return e, nil
}

var sqlCmpOps = map[string]string{"=": "=", "==": "=", "!=": "!=", "<>": "!=", "<": "<", "<=": "<=", ">": ">", ">=": ">="}

func (p *sqlParser) where(s *SQLStmt) error {
	toks, err := p.until(func(t sqlTok) bool {
		return t.is("ORDER") || t.is("LIMIT") || t.is("GROUP") || t.is("HAVING") || t.punct(";") || t.is("RETURNING")
	})
	if err != nil {
		return err
	}
	if len(toks) == 0 {
		return fmt.Errorf("empty WHERE")
	}
	if len(sqlSplitTopKw(toks, "OR")) > 1 {
		e, err := sqlMkExpr(toks)
		if err != nil {
			return err
		}
		s.WhereComplex = true
		s.Where = append(s.Where, SQLPred{Val: e})
		return nil
	}
	for _, c := range sqlSplitTopKw(toks, "AND") {
		c = sqlStripParens(c)
		pred := SQLPred{}
		if len(c) >= 3 && c[0].kind == sqlIdent {
			op := ""
			rest := c[2:]
			if c[1].kind == sqlPunct {
				op = sqlCmpOps[c[1].text]
			} else if c[1].is("IN") || c[1].is("IS") || c[1].is("LIKE") {
				op = strings.ToLower(c[1].text)
			}
			if op != "" {
				e, err := sqlMkExpr(rest)
				if err != nil {
					return err
				}
				pred = SQLPred{Col: strings.ToLower(c[0].text), Op: op, Val: e}
			}
		}
		if pred.Col == "" {
			e, err := sqlMkExpr(c)
			if err != nil {
				return err
			}
			pred.Val = e
			s.WhereComplex = true
		}
		s.Where = append(s.Where, pred)
	}
	return nil
}

// sqlSplitTopKw splits at depth-0 occurrences of a keyword (BETWEEN … AND is not used by
// the repository's statements; a BETWEEN makes the conjunct complex).
func sqlSplitTopKw(toks []sqlTok, kw string) [][]sqlTok {
	return sqlSplitTop(toks, func(t sqlTok) bool { return t.is(kw) })
}

func (p *sqlParser) selectStmt() (*SQLStmt, error) {
	s := &SQLStmt{Verb: "SELECT"}
	if err := p.expect("SELECT"); err != nil {
		return nil, err
	}
	p.accept("DISTINCT")
	list, err := p.until(func(t sqlTok) bool { return t.is("FROM") || t.punct(";") })
	if err != nil {
		return nil, err
	}
	for _, it := range sqlSplitTop(list, sqlIsComma) {
		e, err := sqlMkExpr(it)
		if err != nil {
			return nil, err
		}
		s.SelExprs = append(s.SelExprs, e)
		in := sqlStripParens(it)
		if len(in) == 1 && in[0].kind == sqlIdent {
			s.Cols = append(s.Cols, strings.ToLower(in[0].text))
		} else {
			s.Cols = append(s.Cols, e.Norm())
		}
	}
	if p.accept("FROM") {
		if s.Table, err = p.ident(); err != nil {
			return nil, err
		}
		if t := p.peek(); t.kind == sqlIdent && !t.is("WHERE") && !t.is("ORDER") && !t.is("LIMIT") && !t.is("GROUP") {
			return nil, fmt.Errorf("unsupported FROM clause at %q (joins/aliases are not modelled)", t.text)
		}
		if p.peek().punct(",") {
			return nil, fmt.Errorf("unsupported FROM clause (several tables)")
		}
	}
	if p.accept("WHERE") {
		if err := p.where(s); err != nil {
			return nil, err
		}
	}
	if p.peek().is("GROUP") || p.peek().is("HAVING") {
		return nil, fmt.Errorf("unsupported clause %s", p.peek().up())
	}
	if p.accept("ORDER") {
		if err := p.expect("BY"); err != nil {
			return nil, err
		}
		toks, err := p.until(func(t sqlTok) bool { return t.is("LIMIT") || t.punct(";") })
		if err != nil {
			return nil, err
		}
		for _, it := range sqlSplitTop(toks, sqlIsComma) {
			o := SQLOrder{}
			if len(it) == 0 || it[0].kind != sqlIdent {
				return nil, fmt.Errorf("unsupported ORDER BY term")
			}
			o.Col = strings.ToLower(it[0].text)
			switch {
			case len(it) == 1:
			case len(it) == 2 && it[1].is("ASC"):
			case len(it) == 2 && it[1].is("DESC"):
				o.Desc = true
			default:
				return nil, fmt.Errorf("unsupported ORDER BY term")
			}
			s.OrderBy = append(s.OrderBy, o)
		}
	}
	if p.accept("LIMIT") {
		toks, err := p.until(func(t sqlTok) bool { return t.punct(";") })
		if err != nil {
			return nil, err
		}
		e, err := sqlMkExpr(toks)
		if err != nil {
			return nil, err
		}
		s.Limit = &e
	}
	return s, nil
}

func (p *sqlParser) colList() ([]string, error) {
	var cols []string
	if err := p.expectPunct("("); err != nil {
		return nil, err
	}
	for {
		c, err := p.ident()
		if err != nil {
			return nil, err
		}
		cols = append(cols, c)
		p.accept("ASC")
		p.accept("DESC")
		if p.acceptPunct(",") {
			continue
		}
		break
	}
	return cols, p.expectPunct(")")
}

func (p *sqlParser) insertStmt() (*SQLStmt, error) {
	s := &SQLStmt{Verb: "INSERT"}
	if p.accept("REPLACE") {
		s.Verb = "INSERT OR REPLACE"
	} else {
		if err := p.expect("INSERT"); err != nil {
			return nil, err
		}
		if p.accept("OR") {
			t := p.next()
			if !t.is("REPLACE") {
				return nil, fmt.Errorf("unsupported conflict clause OR %s", t.up())
			}
			s.Verb = "INSERT OR REPLACE"
		}
	}
	if err := p.expect("INTO"); err != nil {
		return nil, err
	}
	var err error
	if s.Table, err = p.ident(); err != nil {
		return nil, err
	}
	if !p.peek().punct("(") {
		return nil, fmt.Errorf("INSERT without a column list (positional insert is not modelled)")
	}
	if s.Cols, err = p.colList(); err != nil {
		return nil, err
	}
	if err := p.expect("VALUES"); err != nil {
		return nil, fmt.Errorf("%w (INSERT … SELECT is not modelled)", err)
	}
	if err := p.expectPunct("("); err != nil {
		return nil, err
	}
	toks, err := p.until(func(sqlTok) bool { return false })
	if err != nil {
		return nil, err
	}
	if err := p.expectPunct(")"); err != nil {
		return nil, err
	}
	for _, it := range sqlSplitTop(toks, sqlIsComma) {
		e, err := sqlMkExpr(it)
		if err != nil {
			return nil, err
		}
		s.Values = append(s.Values, e)
	}
	if len(s.Values) != len(s.Cols) {
		return nil, fmt.Errorf("%d columns but %d values", len(s.Cols), len(s.Values))
	}
	if p.peek().punct(",") {
		return nil, fmt.Errorf("multi-row VALUES is not modelled")
	}
	if p.peek().is("ON") || p.peek().is("RETURNING") {
		return nil, fmt.Errorf("unsupported clause %s", p.peek().up())
	}
	return s, nil
}

func (p *sqlParser) updateStmt() (*SQLStmt, error) {
	s := &SQLStmt{Verb: "UPDATE"}
	if err := p.expect("UPDATE"); err != nil {
		return nil, err
	}
	if p.peek().is("OR") {
		return nil, fmt.Errorf("unsupported UPDATE OR …")
	}
	var err error
	if s.Table, err = p.ident(); err != nil {
		return nil, err
	}
	if err := p.expect("SET"); err != nil {
		return nil, err
	}
	toks, err := p.until(func(t sqlTok) bool { return t.is("WHERE") || t.punct(";") || t.is("RETURNING") || t.is("FROM") })
	if err != nil {
		return nil, err
	}
	for _, it := range sqlSplitTop(toks, sqlIsComma) {
		if len(it) < 3 || it[0].kind != sqlIdent || !it[1].punct("=") {
			return nil, fmt.Errorf("unsupported SET term")
		}
		e, err := sqlMkExpr(it[2:])
		if err != nil {
			return nil, err
		}
		s.Set = append(s.Set, SQLAssign{Col: strings.ToLower(it[0].text), Val: e})
	}
	if p.accept("WHERE") {
		if err := p.where(s); err != nil {
			return nil, err
		}
	}
	return s, nil
}

func (p *sqlParser) deleteStmt() (*SQLStmt, error) {
	s := &SQLStmt{Verb: "DELETE"}
	if err := p.expect("DELETE"); err != nil {
		return nil, err
	}
	if err := p.expect("FROM"); err != nil {
		return nil, err
	}
	var err error
	if s.Table, err = p.ident(); err != nil {
		return nil, err
	}
	if p.accept("WHERE") {
		if err := p.where(s); err != nil {
			return nil, err
		}
	}
	return s, nil
}

var sqlColConstraintStart = map[string]bool{"PRIMARY": true, "NOT": true, "NULL": true, "UNIQUE": true, "DEFAULT": true, "CHECK": true,
	"REFERENCES": true, "COLLATE": true, "CONSTRAINT": true, "GENERATED": true, "AS": true, "AUTOINCREMENT": true}

func (p *sqlParser) createStmt() (*SQLStmt, error) {
	if err := p.expect("CREATE"); err != nil {
		return nil, err
	}
	unique := p.accept("UNIQUE")
	p.accept("TEMP")
	p.accept("TEMPORARY")
	switch {
	case p.accept("INDEX"):
		s := &SQLStmt{Verb: "CREATE INDEX", Unique: unique}
		if p.accept("IF") {
			p.accept("NOT")
			p.accept("EXISTS")
		}
		if _, err := p.ident(); err != nil {
			return nil, err
		}
		if err := p.expect("ON"); err != nil {
			return nil, err
		}
		var err error
		if s.Table, err = p.ident(); err != nil {
			return nil, err
		}
		if s.Cols, err = p.colList(); err != nil {
			return nil, err
		}
		if p.peek().is("WHERE") {
			return nil, fmt.Errorf("partial indexes are not modelled")
		}
		return s, nil
	case !unique && p.accept("TABLE"):
		s := &SQLStmt{Verb: "CREATE TABLE"}
		if p.accept("IF") {
			p.accept("NOT")
			p.accept("EXISTS")
		}
		name, err := p.ident()
		if err != nil {
			return nil, err
		}
		s.Table = name
		t := &SQLTable{Name: name}
		s.Def = t
		if err := p.expectPunct("("); err != nil {
			return nil, fmt.Errorf("%w (CREATE TABLE … AS is not modelled)", err)
		}
		body, err := p.until(func(sqlTok) bool { return false })
		if err != nil {
			return nil, err
		}
		if err := p.expectPunct(")"); err != nil {
			return nil, err
		}
		for _, it := range sqlSplitTop(body, sqlIsComma) {
			if err := sqlTableItem(t, it); err != nil {
				return nil, fmt.Errorf("table %s: %w", name, err)
			}
		}
		for !p.eof() && !p.peek().punct(";") {
			switch {
			case p.accept("STRICT"):
				t.Options = append(t.Options, "STRICT")
			case p.accept("WITHOUT"):
				if err := p.expect("ROWID"); err != nil {
					return nil, err
				}
				t.Options = append(t.Options, "WITHOUT ROWID")
			case p.acceptPunct(","):
			default:
				return nil, fmt.Errorf("table %s: unknown table option %q", name, p.peek().text)
			}
		}
		var pkCols []string
		for _, c := range t.Cols {
			if c.PrimaryKey {
				pkCols = append(pkCols, c.Name)
			}
		}
		if len(pkCols) > 1 || (len(pkCols) == 1 && len(t.PrimaryKey) > 0) {
			return nil, fmt.Errorf("table %s: more than one PRIMARY KEY", name)
		}
		if len(pkCols) == 1 {
			t.PrimaryKey = pkCols
		}
		for _, c := range s.Def.Cols {
			s.Cols = append(s.Cols, c.Name)
		}
		return s, nil
	}
	return nil, fmt.Errorf("unsupported CREATE %s", p.peek().up())
}

func sqlTableItem(t *SQLTable, it []sqlTok) error {
	if len(it) == 0 {
		return fmt.Errorf("empty item")
	}
	p := &sqlParser{toks: it}
	switch {
	case p.peek().is("UNIQUE") && len(it) > 1 && it[1].punct("("):
		p.next()
		cols, err := p.colList()
		if err != nil {
			return err
		}
		sort.Strings(cols)
		t.Uniques = append(t.Uniques, cols)
		return nil
	case p.peek().is("PRIMARY") && len(it) > 2 && it[1].is("KEY") && it[2].punct("("):
		p.next()
		p.next()
		cols, err := p.colList()
		if err != nil {
			return err
		}
		if len(t.PrimaryKey) > 0 {
			return fmt.Errorf("more than one PRIMARY KEY")
		}
		t.PrimaryKey = cols
		return nil
	case p.peek().is("CONSTRAINT") || p.peek().is("FOREIGN") || p.peek().is("CHECK"):
		return fmt.Errorf("table constraint %s is not modelled", p.peek().up())
	}
	name, err := p.ident()
	if err != nil {
		return err
	}
	c := SQLColumn{Name: name}
	var typ []string
	for !p.eof() && !sqlColConstraintStart[p.peek().up()] {
		t := p.next()
		typ = append(typ, strings.ToUpper(t.text))
	}
	c.Type = strings.Join(typ, " ")
	for !p.eof() {
		switch {
		case p.accept("PRIMARY"):
			if err := p.expect("KEY"); err != nil {
				return err
			}
			c.PrimaryKey = true
			p.accept("ASC")
			p.accept("DESC")
			if p.accept("AUTOINCREMENT") {
				c.AutoIncrement = true
			}
		case p.accept("NOT"):
			if err := p.expect("NULL"); err != nil {
				return err
			}
			c.NotNull = true
		case p.accept("NULL"):
		case p.accept("UNIQUE"):
			c.Unique = true
		case p.accept("DEFAULT"):
			if p.peek().punct("(") {
				// consume one balanced group
				depth := 0
				for !p.eof() {
					t := p.next()
					if t.punct("(") {
						depth++
					} else if t.punct(")") {
						depth--
						if depth == 0 {
							break
						}
					}
				}
			} else {
				p.acceptPunct("-")
				p.acceptPunct("+")
				p.next()
			}
		default:
			return fmt.Errorf("column %s: constraint %s is not modelled", name, p.peek().up())
		}
	}
	for _, o := range t.Cols {
		if o.Name == name {
			return fmt.Errorf("duplicate column %s", name)
		}
	}
	t.Cols = append(t.Cols, c)
	return nil
}

// ParseSQL parses one statement (a trailing ';' is allowed).
func ParseSQL(text string) (*SQLStmt, error) {
	toks, err := sqlLex(text)
	if err != nil {
		return nil, err
	}
	for len(toks) > 0 && toks[len(toks)-1].punct(";") {
		toks = toks[:len(toks)-1]
	}
	if len(toks) == 0 {
		return nil, fmt.Errorf("empty statement")
	}
	for _, t := range toks {
		if t.punct(";") {
			return nil, fmt.Errorf("several statements in one string")
		}
	}
	s, err := sqlParseStmtToks(toks)
	if err != nil {
		return nil, err
	}
	s.Text = text
	return s, nil
}

func sqlParseStmtToks(toks []sqlTok) (*SQLStmt, error) {
	p := &sqlParser{toks: toks}
	var s *SQLStmt
	var err error
	switch {
	case p.peek().is("SELECT"):
		s, err = p.selectStmt()
	case p.peek().is("INSERT"), p.peek().is("REPLACE"):
		s, err = p.insertStmt()
	case p.peek().is("UPDATE"):
		s, err = p.updateStmt()
	case p.peek().is("DELETE"):
		s, err = p.deleteStmt()
	case p.peek().is("CREATE"):
		s, err = p.createStmt()
	case p.peek().is("WITH"), p.peek().is("ALTER"), p.peek().is("DROP"):
		return nil, fmt.Errorf("statement %s is not modelled", p.peek().up())
	default:
		// transaction control / maintenance statements: only the verb is of interest
		v := p.next().up()
		if v == "" {
			return nil, fmt.Errorf("empty statement")
		}
		if p.peek().kind == sqlIdent && (v == "VACUUM" || v == "BEGIN" || v == "ROLLBACK") {
			v += " " + p.next().up()
		}
		return &SQLStmt{Verb: v}, nil
	}
	if err != nil {
		return nil, err
	}
	if !p.eof() {
		return nil, fmt.Errorf("unexpected %q after the statement", p.peek().text)
	}
	return s, nil
}

// ParseSchema parses a schema literal: a ';'-separated list of CREATE TABLE / CREATE
// INDEX statements. A table defined twice keeps its first definition (every statement
// of the literal is CREATE … IF NOT EXISTS).
func ParseSchema(text string) *SQLSchema {
	sc := &SQLSchema{Tables: map[string]*SQLTable{}}
	toks, err := sqlLex(text)
	if err != nil {
		sc.Errs = append(sc.Errs, err.Error())
		return sc
	}
	for _, st := range sqlSplitTop(toks, func(t sqlTok) bool { return t.punct(";") }) {
		if len(st) == 0 {
			continue
		}
		s, err := sqlParseStmtToks(st)
		if err != nil {
			sc.Errs = append(sc.Errs, err.Error())
			continue
		}
		sc.Stmts = append(sc.Stmts, s)
		switch s.Verb {
		case "CREATE TABLE":
			if _, dup := sc.Tables[s.Table]; dup {
				sc.Errs = append(sc.Errs, "table "+s.Table+" is defined twice")
				continue
			}
			sc.Tables[s.Table] = s.Def
		case "CREATE INDEX":
			if s.Unique {
				if t := sc.Tables[s.Table]; t != nil {
					cols := append([]string{}, s.Cols...)
					sort.Strings(cols)
					t.Uniques = append(t.Uniques, cols)
				} else {
					sc.Errs = append(sc.Errs, "unique index on unknown table "+s.Table)
				}
			}
		default:
			sc.Errs = append(sc.Errs, "statement "+s.Verb+" in a schema literal is not modelled")
		}
	}
	return sc
}

// ---- SQL call sites -------------------------------------------------------------------

// ConnType is the connection type whose methods take SQL text.
const ConnType = "internal/sqlite.Conn"

// sqlMethods: method of sqlite.Conn -> (index of the SQL string argument, index of the
// variadic bound arguments), counting the receiver as 0.
var sqlMethods = map[string][2]int{
	"Exec": {2, 3}, "Query": {2, 3}, "ExecUnsafe": {2, 3}, "ExecBytes": {2, 3}, "QueryBytes": {2, 3},
	"exec": {4, 5}, "query": {6, 7},
}

// SQLBind is one `sqlite.X("$name", value)` bound to a statement.
type SQLBind struct {
	Param string    // "$name"
	Ctor  string    // Int64, TextString, BlobString, Int64Slice, …
	Val   ssa.Value // the Go value bound
}

// SQLSite is a call of a SQL-taking method of sqlite.Conn.
type SQLSite struct {
	Site
	Method     string
	QueryName  string // the statistics name argument when constant
	SQL        string
	Const      bool // the SQL text is a compile-time constant
	Forwarded  bool // the SQL text is a parameter of the enclosing function (plumbing inside Conn)
	SQLValue   ssa.Value
	Stmt       *SQLStmt // nil when !Const or when the text does not parse
	ParseErr   error
	Binds      []SQLBind
	BindsKnown bool // every bound argument was resolved to a constant parameter name
}

// Bind returns the value bound to a parameter.
func (s *SQLSite) Bind(param string) (SQLBind, bool) {
	var found SQLBind
	n := 0
	for _, b := range s.Binds {
		if b.Param == param {
			found = b
			n++
		}
	}
	return found, n == 1
}

// IsWrite reports whether the statement may change the database (unknown text counts as a write).
func (s *SQLSite) IsWrite() bool {
	if s.Stmt == nil {
		return true
	}
	return s.Stmt.IsWrite()
}

// Desc renders the site for messages.
func (s *SQLSite) Desc() string {
	if s.Stmt != nil {
		return s.Stmt.Shape()
	}
	if s.Const {
		return fmt.Sprintf("unparsed %q", s.SQL)
	}
	return "non-constant SQL " + Expr(s.SQLValue)
}

func sqlConstString(v ssa.Value) (string, bool) {
	for {
		switch x := v.(type) {
		case *ssa.Convert: // []byte("…")
			v = x.X
			continue
		case *ssa.ChangeType:
			v = x.X
			continue
		}
		break
	}
	c, ok := v.(*ssa.Const)
	if !ok || c.Value == nil || c.Value.Kind() != constant.String {
		return "", false
	}
	return constant.StringVal(c.Value), true
}

// sqlConnMethod returns the method name when the call is a static call of a method of
// sqlite.Conn listed in sqlMethods.
func sqlConnMethod(c *ssa.CallCommon) (string, bool) {
	fn, ok := c.Value.(*ssa.Function)
	if !ok || c.IsInvoke() {
		return "", false
	}
	recv := fn.Signature.Recv()
	if recv == nil {
		return "", false
	}
	t := recv.Type()
	if p, ok := t.(*types.Pointer); ok {
		t = p.Elem()
	}
	if TypeName(t) != ConnType {
		return "", false
	}
	if _, ok := sqlMethods[fn.Name()]; !ok {
		return "", false
	}
	return fn.Name(), true
}

// SQLSiteOf classifies a call site.
func SQLSiteOf(s Site) (*SQLSite, bool) {
	m, ok := sqlConnMethod(s.Common())
	if !ok {
		return nil, false
	}
	idx := sqlMethods[m]
	out := &SQLSite{Site: s, Method: m}
	if v := s.Arg(idx[0] - 1); v != nil {
		if n, ok := sqlConstString(v); ok {
			out.QueryName = n
		}
	}
	sqlv := s.Arg(idx[0])
	if m == "exec" || m == "query" {
		// (sql []byte, sqlStr string): the string form is used unless bytes are given
		if b := s.Arg(idx[0] - 1); b != nil {
			if k, ok := b.(*ssa.Const); !ok || k.Value != nil {
				sqlv = b
			}
		}
		out.QueryName = ""
		if v := s.Arg(idx[0] - 2); v != nil {
			if n, ok := sqlConstString(v); ok {
				out.QueryName = n
			}
		}
	}
	out.SQLValue = sqlv
	if sqlv == nil {
		return out, true
	}
	if text, ok := sqlConstString(sqlv); ok {
		out.SQL, out.Const = text, true
		out.Stmt, out.ParseErr = ParseSQL(text)
	} else if _, isParam := sqlv.(*ssa.Parameter); isParam {
		out.Forwarded = true
	}
	out.Binds, out.BindsKnown = sqlBinds(s.Arg(idx[1]))
	return out, true
}

// sqlBinds resolves the variadic `args ...sqlite.Arg` of a call: go/ssa materialises
// them as `new [n]Arg`, one store per element, and a slice of the array.
func sqlBinds(v ssa.Value) ([]SQLBind, bool) {
	if v == nil {
		return nil, false
	}
	if c, ok := v.(*ssa.Const); ok && c.Value == nil {
		return nil, true // no arguments
	}
	sl, ok := v.(*ssa.Slice)
	if !ok {
		return nil, false
	}
	arr, ok := sl.X.(*ssa.Alloc)
	if !ok {
		return nil, false
	}
	at, ok := arr.Type().Underlying().(*types.Pointer).Elem().Underlying().(*types.Array)
	if !ok {
		return nil, false
	}
	byIdx := map[int64]ssa.Value{}
	for _, r := range Referrers(arr) {
		ia, ok := r.(*ssa.IndexAddr)
		if !ok {
			if r == ssa.Instruction(sl) {
				continue
			}
			return nil, false
		}
		k, ok := ia.Index.(*ssa.Const)
		if !ok {
			return nil, false
		}
		i, _ := constant.Int64Val(k.Value)
		for _, u := range Referrers(ia) {
			st, ok := u.(*ssa.Store)
			if !ok || st.Addr != ia {
				return nil, false
			}
			if _, dup := byIdx[i]; dup {
				return nil, false
			}
			byIdx[i] = st.Val
		}
	}
	if int64(len(byIdx)) != at.Len() {
		return nil, false
	}
	known := true
	var out []SQLBind
	for i := int64(0); i < at.Len(); i++ {
		call, ok := byIdx[i].(*ssa.Call)
		if !ok {
			known = false
			continue
		}
		fn, ok := call.Call.Value.(*ssa.Function)
		if !ok || fn.Pkg == nil || Rel(fn.Pkg.Pkg.Path()) != "internal/sqlite" || TypeName(call.Type()) != "internal/sqlite.Arg" || len(call.Call.Args) < 1 {
			known = false
			continue
		}
		name, ok := sqlConstString(call.Call.Args[0])
		if !ok {
			known = false
			continue
		}
		b := SQLBind{Param: name, Ctor: fn.Name()}
		if len(call.Call.Args) > 1 {
			b.Val = call.Call.Args[len(call.Call.Args)-1]
		}
		out = append(out, b)
	}
	return out, known
}

// SQLSites lists the SQL call sites of the given functions in function/block order.
func SQLSites(fns ...*ssa.Function) []*SQLSite {
	var out []*SQLSite
	for _, fn := range fns {
		for _, s := range Calls(fn) {
			if q, ok := SQLSiteOf(s); ok {
				out = append(out, q)
			}
		}
	}
	return out
}

// SQLKey gives the position-independent key of every site: function / verb table #ordinal
// (ordinal among the sites of that function with the same verb and table).
func SQLKeys(sites []*SQLSite) []string {
	cnt := map[string]int{}
	keys := make([]string, len(sites))
	for i, s := range sites {
		what := "sql:?"
		if s.Stmt != nil {
			what = "sql:" + s.Stmt.Verb + " " + s.Stmt.Table
		} else if !s.Const {
			what = "sql:non-constant"
		}
		k := FuncName(s.Fn) + "/" + strings.TrimSpace(what)
		cnt[k]++
		keys[i] = fmt.Sprintf("%s#%d", k, cnt[k])
	}
	return keys
}

// ---- may-write summaries ----------------------------------------------------------------

// SQLSummary holds, for a set of functions, which of them may execute a writing SQL
// statement directly or through static calls (closures are separate functions: a
// function does not inherit the statements of a closure it merely creates).
type SQLSummary struct {
	fns    map[*ssa.Function]bool
	direct map[*ssa.Function][]*SQLSite
	writes map[*ssa.Function]bool
}

// NewSQLSummary computes the summary over fns.
func NewSQLSummary(fns []*ssa.Function) *SQLSummary {
	s := &SQLSummary{fns: map[*ssa.Function]bool{}, direct: map[*ssa.Function][]*SQLSite{}, writes: map[*ssa.Function]bool{}}
	for _, fn := range fns {
		s.fns[fn] = true
		s.direct[fn] = SQLSites(fn)
		for _, q := range s.direct[fn] {
			if q.IsWrite() && !q.Forwarded {
				s.writes[fn] = true
			}
		}
	}
	for changed := true; changed; {
		changed = false
		for _, fn := range fns {
			if s.writes[fn] {
				continue
			}
			for _, c := range Calls(fn) {
				if callee, ok := c.Common().Value.(*ssa.Function); ok && !c.Common().IsInvoke() && s.writes[callee] {
					if _, isSQL := sqlConnMethod(c.Common()); isSQL {
						continue
					}
					s.writes[fn] = true
					changed = true
					break
				}
			}
		}
	}
	return s
}

// MayWrite reports whether fn may execute a writing statement.
func (s *SQLSummary) MayWrite(fn *ssa.Function) bool { return s.writes[fn] }

// WriteInstr classifies an instruction of a function: a writing SQL site (returned as
// site) or a static call of a may-write function (callee returned).
func (s *SQLSummary) WriteInstr(in ssa.Instruction) (site *SQLSite, callee *ssa.Function, ok bool) {
	ci, isCall := in.(ssa.CallInstruction)
	if !isCall {
		return nil, nil, false
	}
	cs := Site{Fn: in.Parent(), Instr: ci, Callee: CalleeName(ci.Common())}
	if q, isSQL := SQLSiteOf(cs); isSQL {
		if q.IsWrite() && !q.Forwarded {
			return q, nil, true
		}
		return nil, nil, false
	}
	if f, isFn := ci.Common().Value.(*ssa.Function); isFn && !ci.Common().IsInvoke() && s.writes[f] {
		return nil, f, true
	}
	return nil, nil, false
}

// IsWriteInstr is the predicate form of WriteInstr.
func (s *SQLSummary) IsWriteInstr(in ssa.Instruction) bool {
	_, _, ok := s.WriteInstr(in)
	return ok
}

// FlatStmt is a statement reachable from a function through static calls.
type FlatStmt struct {
	Site  *SQLSite
	Chain []ssa.Instruction // call instructions leading from the root function to the site's function (empty when direct)
}

// Top returns the instruction inside the root function through which the statement is reached.
func (f FlatStmt) Top() ssa.Instruction {
	if len(f.Chain) > 0 {
		return f.Chain[0]
	}
	return f.Site.Instr
}

// Flatten lists the SQL statements (reads and writes) that fn may execute itself or
// through static calls to functions of the summary, in call order.
func (s *SQLSummary) Flatten(fn *ssa.Function) []FlatStmt {
	var out []FlatStmt
	var walk func(f *ssa.Function, chain []ssa.Instruction, onPath map[*ssa.Function]bool)
	walk = func(f *ssa.Function, chain []ssa.Instruction, onPath map[*ssa.Function]bool) {
		if onPath[f] {
			return
		}
		onPath[f] = true
		defer delete(onPath, f)
		for _, c := range Calls(f) {
			if q, ok := SQLSiteOf(c); ok {
				if !q.Forwarded {
					out = append(out, FlatStmt{Site: q, Chain: append([]ssa.Instruction{}, chain...)})
				}
				continue
			}
			callee, ok := c.Common().Value.(*ssa.Function)
			if !ok || c.Common().IsInvoke() || !s.fns[callee] {
				continue
			}
			walk(callee, append(append([]ssa.Instruction{}, chain...), c.Instr), onPath)
		}
	}
	walk(fn, nil, map[*ssa.Function]bool{})
	return out
}

// ---- write-shape compatibility ------------------------------------------------------------

func sqlSetEq(a, b []string) bool {
	if len(a) != len(b) {
		return false
	}
	for i := range a {
		if a[i] != b[i] {
			return false
		}
	}
	return true
}

func sqlUnion(a, b []string) []string {
	m := map[string]bool{}
	for _, x := range a {
		m[x] = true
	}
	for _, x := range b {
		m[x] = true
	}
	return SortedKeys(m)
}

// sqlEqWhereCols returns the columns of an all-equality WHERE clause (ok=false otherwise).
func sqlEqWhereCols(s *SQLStmt) ([]string, bool) {
	if s.WhereComplex {
		return nil, false
	}
	var out []string
	for _, p := range s.Where {
		if p.Op != "=" {
			return nil, false
		}
		out = append(out, p.Col)
	}
	sort.Strings(out)
	return out, true
}

// WriteShapeCompatible decides whether the statement `replay` reproduces the effect of
// the statement `primary` on the same table, given the schema. The relation is the
// explicit table of DESIGN §4 C16-R1:
//
//	primary INSERT(C)            ≙ replay INSERT(C')             C' = C ∪ A, A ⊆ autoincrement key columns the primary leaves to SQLite;
//	                                                              every column the primary computes by a sub-select is bound by a parameter in the replay
//	primary INSERT(C)            ≙ replay INSERT OR REPLACE(C')  C' = C ∪ A as above
//	primary UPDATE(S) WHERE K    ≙ replay INSERT OR REPLACE(C')  C' = S ∪ K, K all-equality and a declared key (PRIMARY KEY / UNIQUE) of the table
//	primary UPDATE(S) WHERE K    ≙ replay UPDATE(S') WHERE K'    S = S', K = K' (columns and operators)
//	primary DELETE WHERE K       ≙ replay DELETE WHERE K'        K = K'
//	primary INSERT OR REPLACE(C) ≙ replay INSERT OR REPLACE(C')  C = C'
//
// Anything else is incompatible. why explains a negative answer.
func WriteShapeCompatible(primary, replay *SQLStmt, schema *SQLSchema) (ok bool, why string) {
	if primary.Table != replay.Table {
		return false, "different tables"
	}
	var tab *SQLTable
	if schema != nil {
		tab = schema.Tables[primary.Table]
	}
	insertCols := func() (bool, string) {
		pc, rc := primary.InsertCols(), replay.InsertCols()
		var auto []string
		if tab != nil {
			auto = tab.AutoIncrementCols()
		}
		extra := []string{}
		pm := map[string]bool{}
		for _, c := range pc {
			pm[c] = true
		}
		rm := map[string]bool{}
		for _, c := range rc {
			rm[c] = true
			if !pm[c] {
				extra = append(extra, c)
			}
		}
		for _, c := range pc {
			if !rm[c] {
				return false, fmt.Sprintf("column %s is written by the primary but not by the replay", c)
			}
		}
		for _, c := range extra {
			isAuto := false
			for _, a := range auto {
				if a == c {
					isAuto = true
				}
			}
			if !isAuto {
				return false, fmt.Sprintf("column %s is written by the replay only and is not an AUTOINCREMENT key the primary leaves to SQLite", c)
			}
		}
		// columns assigned by SQLite on the primary (autoincrement) must be replayed explicitly
		for _, a := range auto {
			if !rm[a] {
				return false, fmt.Sprintf("the replay does not bind the AUTOINCREMENT column %s explicitly: SQLite would assign a fresh value on replay", a)
			}
		}
		for _, c := range rc {
			rv, _ := replay.ValueOf(c)
			if rv.Param == "" {
				return false, fmt.Sprintf("the replay computes column %s (%s) instead of binding the logged value", c, rv.Norm())
			}
		}
		return true, ""
	}
	switch {
	case primary.Verb == "INSERT" && (replay.Verb == "INSERT" || replay.Verb == "INSERT OR REPLACE"):
		return insertCols()
	case primary.Verb == "INSERT OR REPLACE" && replay.Verb == "INSERT OR REPLACE":
		if !sqlSetEq(primary.InsertCols(), replay.InsertCols()) {
			return false, fmt.Sprintf("column lists differ: %v vs %v", primary.InsertCols(), replay.InsertCols())
		}
		return true, ""
	case primary.Verb == "UPDATE" && replay.Verb == "INSERT OR REPLACE":
		k, allEq := sqlEqWhereCols(primary)
		if !allEq || len(k) == 0 {
			return false, "the primary UPDATE is not keyed by an all-equality WHERE clause"
		}
		if tab == nil || !tab.HasUnique(k...) {
			return false, fmt.Sprintf("WHERE columns %v of the primary UPDATE are not a declared key of %s: REPLACE would not hit the same row", k, primary.Table)
		}
		if !sqlSetEq(sqlUnion(primary.SetCols(), k), replay.InsertCols()) {
			return false, fmt.Sprintf("SET ∪ WHERE columns %v differ from the replayed column list %v", sqlUnion(primary.SetCols(), k), replay.InsertCols())
		}
		for _, c := range replay.Cols {
			if rv, _ := replay.ValueOf(c); rv.Param == "" {
				return false, fmt.Sprintf("the replay computes column %s instead of binding the logged value", c)
			}
		}
		return true, ""
	case primary.Verb == "UPDATE" && replay.Verb == "UPDATE":
		if !sqlSetEq(primary.SetCols(), replay.SetCols()) {
			return false, fmt.Sprintf("SET columns differ: primary %v, replay %v", primary.SetCols(), replay.SetCols())
		}
		if primary.WhereComplex || replay.WhereComplex || !sqlSetEq(primary.WhereCols(), replay.WhereCols()) {
			return false, fmt.Sprintf("WHERE columns differ: primary %v, replay %v", primary.WhereCols(), replay.WhereCols())
		}
		for _, a := range replay.Set {
			if a.Val.Param == "" {
				return false, fmt.Sprintf("the replay computes column %s (%s) instead of binding the logged value", a.Col, a.Val.Norm())
			}
		}
		return true, ""
	case primary.Verb == "DELETE" && replay.Verb == "DELETE":
		if primary.WhereComplex || replay.WhereComplex || !sqlSetEq(primary.WhereCols(), replay.WhereCols()) {
			return false, fmt.Sprintf("WHERE columns differ: primary %v, replay %v", primary.WhereCols(), replay.WhereCols())
		}
		return true, ""
	}
	return false, fmt.Sprintf("effect classes %s (primary) and %s (replay) are not in the compatibility table", primary.Verb, replay.Verb)
}

// ---- constants and cells (helpers the SQL rules need) ---------------------------------------

// GlobalStringInit returns the constant string a package-level variable or constant is
// initialised with (through types.Info constant values), e.g. the schema literal.
func (p *Prog) GlobalStringInit(pkgRel, name string) (string, token.Pos, bool) {
	pk := p.AllPkgs[pkgRel]
	if pk == nil || pk.Types == nil {
		return "", token.NoPos, false
	}
	obj := pk.Types.Scope().Lookup(name)
	if obj == nil {
		return "", token.NoPos, false
	}
	if c, ok := obj.(*types.Const); ok {
		if c.Val().Kind() == constant.String {
			return constant.StringVal(c.Val()), obj.Pos(), true
		}
		return "", obj.Pos(), false
	}
	for _, f := range pk.Syntax {
		for _, d := range f.Decls {
			gd, ok := d.(*ast.GenDecl)
			if !ok || gd.Tok != token.VAR {
				continue
			}
			for _, sp := range gd.Specs {
				vs := sp.(*ast.ValueSpec)
				for i, id := range vs.Names {
					if pk.TypesInfo.Defs[id] != obj || i >= len(vs.Values) {
						continue
					}
					tv, ok := pk.TypesInfo.Types[vs.Values[i]]
					if !ok || tv.Value == nil || tv.Value.Kind() != constant.String {
						return "", obj.Pos(), false
					}
					return constant.StringVal(tv.Value), obj.Pos(), true
				}
			}
		}
	}
	return "", obj.Pos(), false
}

// GlobalStores lists the stores to a package-level variable in fns, except the one of
// the package initialiser.
func GlobalStores(fns []*ssa.Function, pkgRel, name string) []*ssa.Store {
	var out []*ssa.Store
	for _, fn := range fns {
		if fn.Name() == "init" && fn.Parent() == nil && fn.Signature.Recv() == nil {
			continue
		}
		for _, b := range fn.Blocks {
			for _, in := range b.Instrs {
				st, ok := in.(*ssa.Store)
				if !ok {
					continue
				}
				if g, ok := st.Addr.(*ssa.Global); ok && g.Name() == name && Rel(g.Pkg.Pkg.Path()) == pkgRel {
					out = append(out, st)
				}
			}
		}
	}
	return out
}

// CellOf returns the memory cell a value is loaded from: the Alloc / FreeVar / field
// address operand of a load, nil for values that are not loads.
func CellOf(v ssa.Value) ssa.Value {
	for {
		switch x := v.(type) {
		case *ssa.Convert:
			v = x.X
			continue
		case *ssa.ChangeType:
			v = x.X
			continue
		}
		break
	}
	if u, ok := v.(*ssa.UnOp); ok && u.Op == token.MUL {
		switch u.X.(type) {
		case *ssa.Alloc, *ssa.FreeVar:
			return u.X
		}
	}
	return nil
}

// SameValue reports whether two SSA values denote the same program variable or value:
// identical values, or loads of the same cell (go/ssa has no CSE: every read of a
// captured or address-taken variable is its own load).
func SameValue(a, b ssa.Value) bool {
	if a == nil || b == nil {
		return false
	}
	if a == b {
		return true
	}
	ca, cb := CellOf(a), CellOf(b)
	return ca != nil && ca == cb
}

// OuterCell resolves a free variable of a closure to the Alloc of the enclosing
// function it is bound to (following nested closures); an Alloc is returned as is.
func OuterCell(cell ssa.Value) *ssa.Alloc {
	for depth := 0; depth < 8; depth++ {
		switch c := cell.(type) {
		case *ssa.Alloc:
			return c
		case *ssa.FreeVar:
			fn := c.Parent()
			idx := -1
			for i, fv := range fn.FreeVars {
				if fv == c {
					idx = i
				}
			}
			parent := fn.Parent()
			if idx < 0 || parent == nil {
				return nil
			}
			var bound ssa.Value
			n := 0
			for _, b := range parent.Blocks {
				for _, in := range b.Instrs {
					if mc, ok := in.(*ssa.MakeClosure); ok && mc.Fn == ssa.Value(fn) && idx < len(mc.Bindings) {
						bound = mc.Bindings[idx]
						n++
					}
				}
			}
			if n != 1 {
				return nil
			}
			cell = bound
		default:
			return nil
		}
	}
	return nil
}

// ParamOfCell returns the parameter a variable cell is initialised from: go/ssa spills
// a captured / address-taken parameter p into `new T (p)` with one entry store `*cell = p`.
func ParamOfCell(cell ssa.Value) *ssa.Parameter {
	a := OuterCell(cell)
	if a == nil {
		return nil
	}
	var par *ssa.Parameter
	for _, st := range StoresTo(a) {
		p, ok := st.Val.(*ssa.Parameter)
		if !ok || st.Block() != a.Parent().Blocks[0] || par != nil {
			return nil // assigned in the enclosing function as well: not simply "the parameter"
		}
		par = p
	}
	return par
}

// ReachingStores lists the stores to the cell (including those made by closures sharing
// it, which are reported conservatively as reaching) that may define the value read at
// instruction `at` inside the function owning `cell`: stores from which `at` is
// reachable without passing another store to the same cell. entry reports whether `at`
// is also reachable from the function entry without any store.
func ReachingStores(cell ssa.Value, at ssa.Instruction) (stores []*ssa.Store, entry bool) {
	fn := at.Parent()
	var local []*ssa.Store
	for _, b := range fn.Blocks {
		for _, in := range b.Instrs {
			if st, ok := in.(*ssa.Store); ok && st.Addr == cell {
				local = append(local, st)
			}
		}
	}
	isStore := func(in ssa.Instruction) bool {
		st, ok := in.(*ssa.Store)
		return ok && st.Addr == cell
	}
	isAt := func(in ssa.Instruction) bool { return in == at }
	for _, st := range local {
		if st == at {
			continue
		}
		if ReachWithout(st, isAt, isStore) != nil {
			stores = append(stores, st)
		}
	}
	entry = ReachFromEntryWithout(fn, isAt, isStore) != nil
	return stores, entry
}

// IsConstInt reports whether v is the integer constant n.
func IsConstInt(v ssa.Value, n int64) bool {
	c, ok := v.(*ssa.Const)
	if !ok || c.Value == nil || c.Value.Kind() != constant.Int {
		return false
	}
	x, exact := constant.Int64Val(c.Value)
	return exact && x == n
}

// ConstIntOf returns the integer constant value of v.
func ConstIntOf(v ssa.Value) (int64, bool) {
	for {
		if cv, ok := v.(*ssa.Convert); ok {
			v = cv.X
			continue
		}
		break
	}
	c, ok := v.(*ssa.Const)
	if !ok || c.Value == nil || c.Value.Kind() != constant.Int {
		return 0, false
	}
	return constant.Int64Val(c.Value)
}


// ReachAssuming is ReachFromEntryWithout restricted to the paths on which none of the
// assumed literals is contradicted: an edge for whose branch literal `contradicted`
// answers true is not followed (the caller compares the literal's condition value and
// polarity with what it assumes).
func ReachAssuming(fn *ssa.Function, target, stop func(ssa.Instruction) bool, contradicted func(Lit) bool) *PathTo {
	if len(fn.Blocks) == 0 {
		return nil
	}
	type item struct {
		b    *ssa.BasicBlock
		path []int
	}
	seen := map[*ssa.BasicBlock]bool{fn.Blocks[0]: true}
	queue := []item{{fn.Blocks[0], []int{0}}}
	for len(queue) > 0 {
		it := queue[0]
		queue = queue[1:]
		blocked := false
		for _, in := range it.b.Instrs {
			if stop != nil && stop(in) {
				blocked = true
				break
			}
			if target(in) {
				return &PathTo{End: in, Blocks: it.path}
			}
		}
		if blocked {
			continue
		}
		for _, s := range it.b.Succs {
			if seen[s] {
				continue
			}
			if l, ok := edgeLit(it.b, s); ok && contradicted(l) {
				continue
			}
			seen[s] = true
			queue = append(queue, item{s, append(append([]int{}, it.path...), s.Index)})
		}
	}
	return nil
}
