package core

// Linear forms over SSA integer values: sum of coeff*atom + constant. Used by guard
// rules that must not depend on how an arithmetic bound is associated or ordered
// (`a+h+n > size` vs `size-a < h+n`).

import (
	"go/constant"
	"go/token"
	"go/types"
	"sort"
	"strings"

	"golang.org/x/tools/go/ssa"
)

// Lin is a linear form. Atoms are keyed by their canonical expression text; Rep keeps
// one representative SSA value per atom so that rules can classify atoms structurally
// (field load, result of a call, parameter) instead of by text.
type Lin struct {
	Coef  map[string]int64
	Rep   map[string]ssa.Value
	Const int64
}

func newLin() Lin { return Lin{Coef: map[string]int64{}, Rep: map[string]ssa.Value{}} }

func (l Lin) add(m Lin, k int64) Lin {
	out := newLin()
	out.Const = l.Const + k*m.Const
	for a, c := range l.Coef {
		out.Coef[a] = c
		out.Rep[a] = l.Rep[a]
	}
	for a, c := range m.Coef {
		out.Coef[a] += k * c
		if _, ok := out.Rep[a]; !ok {
			out.Rep[a] = m.Rep[a]
		}
	}
	for a, c := range out.Coef {
		if c == 0 {
			delete(out.Coef, a)
			delete(out.Rep, a)
		}
	}
	return out
}

func (l Lin) scale(k int64) Lin { return newLin().add(l, k) }

// Sub returns l - m.
func (l Lin) Sub(m Lin) Lin { return l.add(m, -1) }

// Add returns l + m.
func (l Lin) Add(m Lin) Lin { return l.add(m, 1) }

// IsConst reports whether the form has no atoms.
func (l Lin) IsConst() bool { return len(l.Coef) == 0 }

func (l Lin) String() string {
	var ks []string
	for a := range l.Coef {
		ks = append(ks, a)
	}
	sort.Strings(ks)
	var sb strings.Builder
	for _, a := range ks {
		c := l.Coef[a]
		switch {
		case c == 1:
			sb.WriteString(" + " + a)
		case c == -1:
			sb.WriteString(" - " + a)
		default:
			sb.WriteString(" + " + constant.MakeInt64(c).String() + "*" + a)
		}
	}
	sb.WriteString(" + " + constant.MakeInt64(l.Const).String())
	return strings.TrimPrefix(sb.String(), " + ")
}

func intSize(t types.Type) (bits int, signed, ok bool) {
	b, isB := t.Underlying().(*types.Basic)
	if !isB || b.Info()&types.IsInteger == 0 {
		return 0, false, false
	}
	switch b.Kind() {
	case types.Int8:
		return 8, true, true
	case types.Int16:
		return 16, true, true
	case types.Int32:
		return 32, true, true
	case types.Int64, types.Int:
		return 64, true, true
	case types.Uint8:
		return 8, false, true
	case types.Uint16:
		return 16, false, true
	case types.Uint32:
		return 32, false, true
	case types.Uint64, types.Uint, types.Uintptr:
		return 64, false, true
	}
	return 0, false, false
}

// LinOf normalises an integer SSA value (overflow is not modelled, as everywhere in
// the guard matcher).
func LinOf(v ssa.Value) Lin { return linear(v, 0) }

func atom(v ssa.Value) Lin {
	l := newLin()
	t := Expr(v)
	l.Coef[t] = 1
	l.Rep[t] = v
	return l
}

func linear(v ssa.Value, d int) Lin {
	if d > 24 {
		return atom(v)
	}
	switch x := v.(type) {
	case *ssa.Const:
		if x.Value != nil {
			if iv := constant.ToInt(x.Value); iv.Kind() == constant.Int {
				if n, ok := constant.Int64Val(iv); ok {
					l := newLin()
					l.Const = n
					return l
				}
			}
		}
	case *ssa.BinOp:
		switch x.Op {
		case token.ADD:
			return linear(x.X, d+1).Add(linear(x.Y, d+1))
		case token.SUB:
			return linear(x.X, d+1).Sub(linear(x.Y, d+1))
		case token.MUL:
			a, b := linear(x.X, d+1), linear(x.Y, d+1)
			if a.IsConst() {
				return b.scale(a.Const)
			}
			if b.IsConst() {
				return a.scale(b.Const)
			}
		}
	case *ssa.Convert:
		sb, _, sok := intSize(x.X.Type())
		db, _, dok := intSize(x.Type())
		if sok && dok {
			in := linear(x.X, d+1)
			if in.IsConst() {
				return in
			}
			// a conversion of a single atom stays part of the atom (uint64 -> int64
			// re-interpretation matters for sign tests); a widening conversion of an
			// arithmetic expression is transparent
			if len(in.Coef) == 1 && in.Const == 0 {
				for _, c := range in.Coef {
					if c == 1 {
						return atom(v)
					}
				}
			}
			if db >= sb {
				return in
			}
		}
	}
	return atom(v)
}

// LitGE turns a guard literal into a form E with the meaning "E >= 0 holds":
//
//	 (x < y)  ->  y - x - 1 >= 0
//	!(x < y)  ->  x - y     >= 0
//
// ok is false for literals that are not order comparisons of integers.
func LitGE(l Lit) (Lin, bool) {
	if l.Op != token.LSS || l.X == nil || l.Y == nil {
		return Lin{}, false
	}
	if _, _, ok := intSize(l.X.Type()); !ok {
		return Lin{}, false
	}
	x, y := LinOf(l.X), LinOf(l.Y)
	if l.Pol {
		e := y.Sub(x)
		e.Const--
		return e, true
	}
	return x.Sub(y), true
}

// GEFacts lists, for every single-alternative order guard that dominates block b, the
// form E with "E >= 0 holds at b".
func GEFacts(b *ssa.BasicBlock) []Lin {
	var out []Lin
	for _, g := range Facts(b) {
		if len(g.Alts) != 1 {
			continue
		}
		if e, ok := LitGE(g.Alts[0]); ok {
			out = append(out, e)
		}
	}
	return out
}
