package core

// K12 missed-signal for sync.Cond.
//
// For every `for pred { cond.Wait() }` on the condition variable held in field
// CondField of struct Type the memory locations read by the loop's branch conditions are
// collected (fields of Type, local variables captured by closures). Every store to one of
// them made by code other than the waiting function itself must
//   - happen with the mutex of the condition variable held (otherwise the store can slip
//     between the waiter's test of the predicate and its Wait), and
//   - be followed on every path to the function's return by Signal/Broadcast on the same
//     condition variable (before or after the unlock).
// The rule is meant for condition variables whose writers signal unconditionally; it has
// no arithmetic to decide "this new value cannot release a waiter".

import (
	"fmt"
	"go/token"
	"sort"

	"golang.org/x/tools/go/ssa"
)

// CondSpec is the rule table of one missed-signal check.
type CondSpec struct {
	Rule      string
	Type      string // struct type holding the condition variable
	CondField string // field of type *sync.Cond
	Mutex     string // field with the mutex the Cond was created on
	Funcs     []*ssa.Function
}

// CondReport gives the counts for min-instance bookkeeping.
type CondReport struct {
	Waits  int
	Vars   []string
	Stores int
}

type condVar struct {
	field string     // field of Type ("" for a cell)
	cell  *ssa.Alloc // captured local
}

func isCondCall(in ssa.Instruction, s *CondSpec, names ...string) (cond *ssa.FieldAddr, ok bool) {
	ci, isCall := in.(ssa.CallInstruction)
	if !isCall {
		return nil, false
	}
	if _, isGo := in.(*ssa.Go); isGo {
		return nil, false
	}
	com := ci.Common()
	if com.IsInvoke() || len(com.Args) == 0 {
		return nil, false
	}
	n := CalleeName(com)
	hit := false
	for _, want := range names {
		if n == "sync.(*Cond)."+want {
			hit = true
		}
	}
	if !hit {
		return nil, false
	}
	u, isLoad := com.Args[0].(*ssa.UnOp)
	if !isLoad || u.Op != token.MUL || !IsField(u.X, s.Type, s.CondField) {
		return nil, false
	}
	return u.X.(*ssa.FieldAddr), true
}

// freeBinding resolves a free variable of a closure to the value bound to it in the
// parent function (nil when the closure is created at more than one place).
func freeBinding(fv *ssa.FreeVar) ssa.Value {
	fn := fv.Parent()
	if fn == nil || fn.Parent() == nil {
		return nil
	}
	idx := -1
	for i, x := range fn.FreeVars {
		if x == fv {
			idx = i
		}
	}
	var found ssa.Value
	n := 0
	for _, b := range fn.Parent().Blocks {
		for _, in := range b.Instrs {
			if mc, ok := in.(*ssa.MakeClosure); ok && mc.Fn == fn && idx >= 0 && idx < len(mc.Bindings) {
				found = mc.Bindings[idx]
				n++
			}
		}
	}
	if n != 1 {
		return nil
	}
	return found
}

// objKeyIn renders the object a pointer denotes, resolving a closure's captured
// variables to the paths they have in the enclosing function, so that keys of a closure
// and of its parent can be compared.
func objKeyIn(ptr ssa.Value) string {
	if u, ok := ptr.(*ssa.UnOp); ok && u.Op == token.MUL {
		if fv, isFree := u.X.(*ssa.FreeVar); isFree {
			if b := freeBinding(fv); b != nil {
				return ObjKey(b)
			}
		}
	}
	return ObjKey(ptr)
}

// RunMissedSignal evaluates the spec.
func RunMissedSignal(c *Check, s *CondSpec, an *LockAnalyzer) CondReport {
	var rep CondReport
	if an == nil {
		an = &LockAnalyzer{}
	}
	type waitSite struct {
		site Site
		cond *ssa.FieldAddr
	}
	var waits []waitSite
	for _, fn := range s.Funcs {
		for _, site := range Calls(fn) {
			if fa, ok := isCondCall(site.Instr, s, "Wait"); ok {
				waits = append(waits, waitSite{site, fa})
			}
		}
	}
	var sites []Site
	for _, w := range waits {
		sites = append(sites, w.site)
	}
	wkeys := Ordinals(sites)
	for wi, w := range waits {
		rep.Waits++
		c.CallSites++
		fn := w.site.Fn
		c.Seen(FuncName(fn))
		condBase := objKeyIn(w.cond.X)
		mutexKey := condBase + "." + s.Mutex
		// the waiter holds the mutex at Wait
		held := an.Info(fn).HeldAt(w.site.Instr, ObjKey(w.cond.X)+"."+s.Mutex) == HeldWrite
		c.Require(held, s.Rule, wkeys[wi]+"/mutex", w.site.Pos(), "Wait is called with "+mutexKey+" held",
			"Wait is reached on a path that does not hold "+mutexKey+" (Wait unlocks the mutex: it must be locked)")
		// the loop around the wait
		cyc := cycleOf(w.site.Block())
		if cyc == nil {
			c.Fail(s.Rule, wkeys[wi]+"/loop", w.site.Pos(), "Wait is not inside a loop that re-tests its predicate (spurious and stolen wakeups)")
			continue
		}
		vars := map[string]condVar{}
		undec := ""
		for _, b := range fn.Blocks {
			if !cyc[b] || len(b.Instrs) == 0 {
				continue
			}
			ifi, ok := b.Instrs[len(b.Instrs)-1].(*ssa.If)
			if !ok {
				continue
			}
			// only conditions that can leave the loop are part of the predicate
			leaves := false
			for _, su := range b.Succs {
				if !cyc[su] {
					leaves = true
				}
			}
			if !leaves {
				continue
			}
			predicateReads(ifi.Cond, s, vars, &undec, map[ssa.Value]bool{})
		}
		if undec != "" {
			c.Undecided(s.Rule, wkeys[wi]+"/predicate", w.site.Pos(), "cannot classify a read in the wait predicate: "+undec)
		}
		names := make([]string, 0, len(vars))
		for n := range vars {
			names = append(names, n)
		}
		sort.Strings(names)
		rep.Vars = append(rep.Vars, names...)
		if len(names) == 0 {
			c.Fail(s.Rule, wkeys[wi]+"/predicate", w.site.Pos(), "the loop around Wait tests no shared variable")
			continue
		}
		c.Pass(s.Rule, wkeys[wi]+"/predicate", w.site.Pos(), fmt.Sprintf("wait predicate reads %v", names))

		for _, n := range names {
			v := vars[n]
			type wr struct {
				fn    *ssa.Function
				instr ssa.Instruction
				base  string // object whose field is stored ("" for cells)
			}
			var wrs []wr
			if v.cell != nil {
				for _, st := range CellStores(v.cell) {
					wrs = append(wrs, wr{st.Parent(), st, ""})
				}
			} else {
				for _, fw := range FieldWrites(s.Funcs, s.Type, v.field) {
					base := ""
					switch a := fw.Addr.(type) {
					case *ssa.FieldAddr:
						if underConstruction(a.X) {
							continue
						}
						base = objKeyIn(a.X)
					case *ssa.IndexAddr:
						base = "?"
					}
					wrs = append(wrs, wr{fw.Fn, fw.Instr, base})
				}
			}
			cnt := map[string]int{}
			for _, x := range wrs {
				if x.fn == fn {
					continue // the waiter's own stores (initialisation, consumption after the loop)
				}
				rep.Stores++
				c.Seen(FuncName(x.fn))
				cnt[FuncName(x.fn)]++
				key := fmt.Sprintf("%s/store:%s#%d", FuncName(x.fn), n, cnt[FuncName(x.fn)])
				// the condition variable this writer must signal
				wantBase := x.base
				if wantBase == "" {
					wantBase = condBase
				}
				isSignal := func(in ssa.Instruction) bool {
					fa, ok := isCondCall(in, s, "Signal", "Broadcast")
					return ok && objKeyIn(fa.X) == wantBase
				}
				li := an.Info(x.fn)
				mk := wantBase + "." + s.Mutex
				// inside a closure the mutex is named through the captured variable
				heldHere := false
				for _, k := range li.HeldKeys(x.instr) {
					if k == mk {
						heldHere = true
					}
					if ref, ok := li.Refs[k]; ok && ref.Field == s.Mutex && ref.Owner == s.Type && keyResolves(x.fn, k, mk, li) {
						heldHere = true
					}
				}
				c.Require(heldHere, s.Rule, key+"/mutex", x.instr.Pos(), "store to the wait predicate under "+mk,
					fmt.Sprintf("%s is part of the predicate of %s but is stored here without holding %s: the store can fall between the waiter's test and its Wait (lost wakeup); held: %v", n, wkeys[wi], mk, li.HeldKeys(x.instr)))
				// a deferred signal registered before the store also covers it
				deferred := false
				for _, b := range x.fn.Blocks {
					for _, in := range b.Instrs {
						if d, ok := in.(*ssa.Defer); ok && isSignal(d) && Dominates(d, x.instr) {
							deferred = true
						}
					}
				}
				var p *PathTo
				if !deferred {
					p = ReachWithout(x.instr, IsReturn, isSignal)
				}
				c.Require(p == nil, s.Rule, key+"/signal", x.instr.Pos(), "every path from the store to the return signals the condition variable",
					fmt.Sprintf("%s is part of the predicate of %s; after this store a path reaches the return without Signal/Broadcast on %s.%s, so a waiter sleeps until some other event: blocks %v",
						n, wkeys[wi], wantBase, s.CondField, pathBlocks(p)))
			}
		}
	}
	return rep
}

// keyResolves reports whether mutex key k of closure fn denotes want once captured
// variables are resolved to the enclosing function.
func keyResolves(fn *ssa.Function, k, want string, li *LockInfo) bool {
	for _, op := range li.Ops {
		if op.Mutex.Key != k {
			continue
		}
		ci := op.Instr.(ssa.CallInstruction)
		if fa, ok := ci.Common().Args[0].(*ssa.FieldAddr); ok {
			if objKeyIn(fa.X)+"."+op.Mutex.Field == want {
				return true
			}
		}
	}
	return false
}

func pathBlocks(p *PathTo) []int {
	if p == nil {
		return nil
	}
	return p.Blocks
}

// cycleOf returns the set of blocks lying on a CFG cycle through b (nil if none).
func cycleOf(b *ssa.BasicBlock) map[*ssa.BasicBlock]bool {
	fwd := map[*ssa.BasicBlock]bool{}
	var walk func(x *ssa.BasicBlock, m map[*ssa.BasicBlock]bool, next func(*ssa.BasicBlock) []*ssa.BasicBlock)
	walk = func(x *ssa.BasicBlock, m map[*ssa.BasicBlock]bool, next func(*ssa.BasicBlock) []*ssa.BasicBlock) {
		for _, y := range next(x) {
			if !m[y] {
				m[y] = true
				walk(y, m, next)
			}
		}
	}
	walk(b, fwd, func(x *ssa.BasicBlock) []*ssa.BasicBlock { return x.Succs })
	if !fwd[b] {
		return nil
	}
	bwd := map[*ssa.BasicBlock]bool{}
	walk(b, bwd, func(x *ssa.BasicBlock) []*ssa.BasicBlock { return x.Preds })
	out := map[*ssa.BasicBlock]bool{}
	for x := range fwd {
		if bwd[x] {
			out[x] = true
		}
	}
	return out
}

// OnCycle reports whether the instruction's block lies on a CFG cycle.
func OnCycle(in ssa.Instruction) bool { return cycleOf(in.Block()) != nil }

// predicateReads collects the memory locations a branch condition reads.
func predicateReads(v ssa.Value, s *CondSpec, vars map[string]condVar, undec *string, seen map[ssa.Value]bool) {
	if v == nil || seen[v] {
		return
	}
	seen[v] = true
	rec := func(x ssa.Value) { predicateReads(x, s, vars, undec, seen) }
	switch x := v.(type) {
	case *ssa.Const, *ssa.Parameter, *ssa.Global, *ssa.Function, *ssa.Builtin:
	case *ssa.UnOp:
		if x.Op != token.MUL {
			rec(x.X)
			return
		}
		switch a := x.X.(type) {
		case *ssa.FieldAddr:
			if n, ok := namedStruct(a.X.Type()); ok && TypeName(n.Origin()) == s.Type {
				f := fieldName(a.X.Type(), a.Field)
				vars[s.Type+"."+f] = condVar{field: f}
			} else {
				*undec = "field read " + Expr(x)
			}
			rec(a.X)
		case *ssa.Alloc:
			if cellParam(a) != nil {
				return // a captured parameter: never reassigned
			}
			vars[fmt.Sprintf("local#%d:%s", allocOrdinal(a), ShortType(x.Type()))] = condVar{cell: a}
		case *ssa.IndexAddr:
			rec(a.X)
			rec(a.Index)
		default:
			*undec = "read through " + Expr(x.X)
		}
	case *ssa.BinOp:
		rec(x.X)
		rec(x.Y)
	case *ssa.Phi:
		for _, e := range x.Edges {
			rec(e)
		}
	case *ssa.Convert:
		rec(x.X)
	case *ssa.ChangeType:
		rec(x.X)
	case *ssa.Field:
		rec(x.X)
	case *ssa.Extract:
		rec(x.Tuple)
	case *ssa.Call:
		if bi, ok := x.Call.Value.(*ssa.Builtin); ok && (bi.Name() == "len" || bi.Name() == "cap") {
			for _, a := range x.Call.Args {
				rec(a)
			}
			return
		}
		*undec = "call " + CalleeName(&x.Call)
	default:
		*undec = fmt.Sprintf("%T %s", v, Expr(v))
	}
}
