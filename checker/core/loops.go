package core

import (
	"fmt"
	"go/token"

	"golang.org/x/tools/go/ssa"
)

// Loop is a natural loop of the CFG: Header dominates every block of Body, and
// Latches are the predecessors of Header inside the body (sources of back edges).
type Loop struct {
	Header  *ssa.BasicBlock
	Latches []*ssa.BasicBlock
	Body    map[*ssa.BasicBlock]bool // includes Header
}

// LoopOf returns the natural loop with the given header (nil if h is not a loop header).
func LoopOf(h *ssa.BasicBlock) *Loop {
	l := &Loop{Header: h, Body: map[*ssa.BasicBlock]bool{h: true}}
	var stack []*ssa.BasicBlock
	for _, p := range h.Preds {
		if h.Dominates(p) {
			l.Latches = append(l.Latches, p)
			if !l.Body[p] {
				l.Body[p] = true
				stack = append(stack, p)
			}
		}
	}
	if len(l.Latches) == 0 {
		return nil
	}
	for len(stack) > 0 {
		b := stack[len(stack)-1]
		stack = stack[:len(stack)-1]
		for _, p := range b.Preds {
			if !l.Body[p] {
				l.Body[p] = true
				stack = append(stack, p)
			}
		}
	}
	return l
}

// InnermostLoop returns the innermost natural loop containing block b (nil if none).
func InnermostLoop(b *ssa.BasicBlock) *Loop {
	for d := b; d != nil; d = d.Idom() {
		if l := LoopOf(d); l != nil && l.Body[b] {
			return l
		}
	}
	return nil
}

// Phis returns the phi nodes of a block.
func Phis(b *ssa.BasicBlock) []*ssa.Phi {
	var out []*ssa.Phi
	for _, in := range b.Instrs {
		p, ok := in.(*ssa.Phi)
		if !ok {
			break
		}
		out = append(out, p)
	}
	return out
}

// CounterPhi reports whether phi is the loop counter of l: the condition that
// decides whether the loop continues (the If ending the header, or for rotated
// loops the If ending a latch) compares phi, or phi plus a constant.
func (l *Loop) CounterPhi(phi *ssa.Phi) bool {
	conds := []*ssa.BasicBlock{l.Header}
	conds = append(conds, l.Latches...)
	for _, b := range conds {
		if len(b.Instrs) == 0 {
			continue
		}
		ifi, ok := b.Instrs[len(b.Instrs)-1].(*ssa.If)
		if !ok {
			continue
		}
		cmp, ok := ifi.Cond.(*ssa.BinOp)
		if !ok {
			continue
		}
		for _, op := range []ssa.Value{cmp.X, cmp.Y} {
			if op == ssa.Value(phi) {
				return true
			}
			if bo, ok := op.(*ssa.BinOp); ok && bo.Op == token.ADD && bo.X == ssa.Value(phi) {
				if _, isConst := bo.Y.(*ssa.Const); isConst {
					return true
				}
			}
		}
	}
	return false
}

// CarriedOnPaths walks every path inside loop l from block start (entered from
// block from) back to the loop header and returns, for every header phi, the values
// it receives on those paths with the phis met on the way resolved by the edge
// taken. It fails if a path leaves the loop or meets an inner cycle.
func (l *Loop) CarriedOnPaths(from, start *ssa.BasicBlock, max int) (map[*ssa.Phi][]ssa.Value, error) {
	out := map[*ssa.Phi][]ssa.Value{}
	paths := 0
	var err error
	onPath := map[*ssa.BasicBlock]bool{}
	resolve := func(v ssa.Value, env map[*ssa.Phi]ssa.Value) ssa.Value {
		for i := 0; i < 8; i++ {
			p, ok := v.(*ssa.Phi)
			if !ok {
				return v
			}
			x, ok := env[p]
			if !ok || x == v {
				return v
			}
			v = x
		}
		return v
	}
	var walk func(prev, b *ssa.BasicBlock, env map[*ssa.Phi]ssa.Value)
	walk = func(prev, b *ssa.BasicBlock, env map[*ssa.Phi]ssa.Value) {
		if err != nil {
			return
		}
		idx := -1
		for i, p := range b.Preds {
			if p == prev {
				idx = i
			}
		}
		if b == l.Header {
			paths++
			if paths > max {
				err = fmt.Errorf("more than %d paths", max)
				return
			}
			for _, phi := range Phis(b) {
				if idx >= 0 && idx < len(phi.Edges) {
					out[phi] = append(out[phi], resolve(phi.Edges[idx], env))
				}
			}
			return
		}
		if !l.Body[b] {
			err = fmt.Errorf("a path leaves the loop at block %d", b.Index)
			return
		}
		if onPath[b] {
			err = fmt.Errorf("inner cycle at block %d", b.Index)
			return
		}
		onPath[b] = true
		defer delete(onPath, b)
		nenv := make(map[*ssa.Phi]ssa.Value, len(env)+2)
		for k, v := range env {
			nenv[k] = v
		}
		for _, phi := range Phis(b) {
			if idx >= 0 && idx < len(phi.Edges) {
				nenv[phi] = resolve(phi.Edges[idx], env)
			}
		}
		for _, s := range b.Succs {
			walk(b, s, nenv)
		}
	}
	walk(from, start, map[*ssa.Phi]ssa.Value{})
	if err != nil {
		return nil, err
	}
	return out, nil
}
