package core

import (
	"fmt"
	"go/ast"
	"go/constant"
	"go/token"
	"go/types"
	"strings"

	"golang.org/x/tools/go/packages"
)

// K3 (sequential codec shape) for generated TL code: a function body is reduced to
// the ordered list of codec calls it makes, each with the value it transfers, the
// extra (nat) arguments, and the conditions / loops enclosing it. A reader and the
// writer of the same type must produce the same list.

// CodecTok is one codec call of a reader or writer.
type CodecTok struct {
	Family  string // callee with Read/Write unified, e.g. "basictl.Double", "(StatshouseCentroidFloat).TL1"
	Operand string // canonical transferred value: "item.X", "p1[]", "$len", "#0x0c803e06"
	Extra   string // canonical remaining arguments
	Cond    string // canonical enclosing conditions (mask bits, union cases), "&&"-joined
	Loop    int    // loop nesting depth
	Pos     token.Pos
}

func (t CodecTok) String() string {
	s := t.Family + "(" + t.Operand
	if t.Extra != "" {
		s += "; " + t.Extra
	}
	s += ")"
	if t.Cond != "" {
		s += " if " + t.Cond
	}
	if t.Loop > 0 {
		s += fmt.Sprintf(" loop%d", t.Loop)
	}
	return s
}

// Key is the comparison key (everything but the position).
func (t CodecTok) Key() string { return t.String() }

// CodecShape is the result of analysing one function.
type CodecShape struct {
	Toks      []CodecTok
	Undecided []string          // constructs the extractor does not understand
	Zeroing   map[string]string // for readers: cond -> fields zeroed in the else branch ("item.A,item.B")
	ReadUnder map[string]string // for readers: cond -> fields read in the then branch
	NoElse    []string          // conds of reader ifs that read fields but have no else branch
}

type shapeCtx struct {
	info   *types.Info
	recv   types.Object
	params map[types.Object]int
	rng    map[types.Object]string // range value/index variables -> canonical of the ranged expression + "[]"
	locals map[types.Object]bool   // local scalar variables (length temporaries)
	out    *CodecShape
	reader bool
}

// ExtractCodecShape analyses the body of a generated reader/writer.
func ExtractCodecShape(pk *packages.Package, fd *ast.FuncDecl, reader bool) *CodecShape {
	cx := &shapeCtx{info: pk.TypesInfo, params: map[types.Object]int{}, rng: map[types.Object]string{}, locals: map[types.Object]bool{},
		out: &CodecShape{Zeroing: map[string]string{}, ReadUnder: map[string]string{}}, reader: reader}
	if fd.Recv != nil && len(fd.Recv.List) == 1 && len(fd.Recv.List[0].Names) == 1 {
		cx.recv = pk.TypesInfo.Defs[fd.Recv.List[0].Names[0]]
	}
	i := 0
	for _, f := range fd.Type.Params.List {
		for _, n := range f.Names {
			cx.params[pk.TypesInfo.Defs[n]] = i
			i++
		}
		if len(f.Names) == 0 {
			i++
		}
	}
	if fd.Body != nil {
		cx.block(fd.Body.List, nil, 0)
	}
	return cx.out
}

func (cx *shapeCtx) undecided(n ast.Node, what string) {
	cx.out.Undecided = append(cx.out.Undecided, what)
}

func (cx *shapeCtx) block(stmts []ast.Stmt, conds []string, loop int) {
	for _, s := range stmts {
		cx.stmt(s, conds, loop)
	}
}

func isErrCheck(e ast.Expr) bool {
	b, ok := e.(*ast.BinaryExpr)
	if !ok || (b.Op != token.NEQ && b.Op != token.EQL) {
		return false
	}
	x, okx := b.X.(*ast.Ident)
	y, oky := b.Y.(*ast.Ident)
	return okx && oky && x.Name == "err" && y.Name == "nil"
}

func (cx *shapeCtx) stmt(s ast.Stmt, conds []string, loop int) {
	switch s := s.(type) {
	case *ast.IfStmt:
		if s.Init != nil {
			cx.stmt(s.Init, conds, loop)
		}
		if isErrCheck(s.Cond) {
			// error propagation: body must only return / wrap; no codec calls inside
			if s.Else != nil {
				cx.stmt(s.Else, conds, loop)
			}
			return
		}
		cond := cx.canon(s.Cond)
		before := len(cx.out.Toks)
		cx.block(s.Body.List, append(append([]string{}, conds...), cond), loop)
		var read []string
		for _, t := range cx.out.Toks[before:] {
			if strings.HasPrefix(t.Operand, "item.") {
				read = append(read, t.Operand)
			}
		}
		if cx.reader && len(read) > 0 && strings.Contains(cond, "&#0x") {
			cx.out.ReadUnder[cond] = joinUniq(cx.out.ReadUnder[cond], read)
			if s.Else == nil {
				cx.out.NoElse = append(cx.out.NoElse, cond)
			}
		}
		if s.Else != nil {
			if cx.reader {
				zs := cx.zeroed(s.Else)
				if len(zs) > 0 {
					cx.out.Zeroing[cond] = joinUniq(cx.out.Zeroing[cond], zs)
				}
			}
			neg := "!(" + cond + ")"
			switch e := s.Else.(type) {
			case *ast.BlockStmt:
				cx.block(e.List, append(append([]string{}, conds...), neg), loop)
			default:
				cx.stmt(e, append(append([]string{}, conds...), neg), loop)
			}
		}
	case *ast.BlockStmt:
		cx.block(s.List, conds, loop)
	case *ast.ExprStmt:
		cx.expr(s.X, conds, loop)
	case *ast.AssignStmt:
		for _, r := range s.Rhs {
			cx.expr(r, conds, loop)
		}
		if s.Tok == token.DEFINE {
			for _, l := range s.Lhs {
				if id, ok := l.(*ast.Ident); ok {
					if o := cx.info.Defs[id]; o != nil {
						if b, ok := o.Type().Underlying().(*types.Basic); ok && b.Info()&types.IsInteger != 0 {
							cx.locals[o] = true
						}
					}
				}
			}
		}
	case *ast.ReturnStmt:
		for _, r := range s.Results {
			cx.expr(r, conds, loop)
		}
	case *ast.DeclStmt:
		if gd, ok := s.Decl.(*ast.GenDecl); ok {
			for _, sp := range gd.Specs {
				if vs, ok := sp.(*ast.ValueSpec); ok {
					for _, n := range vs.Names {
						if o := cx.info.Defs[n]; o != nil {
							if b, ok := o.Type().Underlying().(*types.Basic); ok && b.Info()&types.IsInteger != 0 {
								cx.locals[o] = true
							}
						}
					}
					for _, v := range vs.Values {
						cx.expr(v, conds, loop)
					}
				}
			}
		}
	case *ast.RangeStmt:
		base := cx.canon(s.X)
		if id, ok := s.Value.(*ast.Ident); ok && id.Name != "_" {
			if o := cx.info.Defs[id]; o != nil {
				cx.rng[o] = base + "[]"
			}
		}
		if id, ok := s.Key.(*ast.Ident); ok && id.Name != "_" {
			if o := cx.info.Defs[id]; o != nil {
				cx.rng[o] = "$i"
			}
		}
		cx.block(s.Body.List, conds, loop+1)
	case *ast.ForStmt:
		if s.Init != nil {
			cx.stmt(s.Init, conds, loop)
			if as, ok := s.Init.(*ast.AssignStmt); ok {
				for _, l := range as.Lhs {
					if id, ok := l.(*ast.Ident); ok {
						if o := cx.info.Defs[id]; o != nil {
							cx.rng[o] = "$i"
						}
					}
				}
			}
		}
		cx.block(s.Body.List, conds, loop+1)
	case *ast.SwitchStmt:
		tag := ""
		if s.Tag != nil {
			tag = cx.canon(s.Tag)
		}
		for _, cl := range s.Body.List {
			cc := cl.(*ast.CaseClause)
			var vals []string
			for _, e := range cc.List {
				vals = append(vals, cx.canon(e))
			}
			c := "case " + tag + ":" + strings.Join(vals, ",")
			if cc.List == nil {
				c = "default " + tag
			}
			cx.block(cc.Body, append(append([]string{}, conds...), c), loop)
		}
	case *ast.IncDecStmt, *ast.BranchStmt, *ast.EmptyStmt:
	default:
		cx.undecided(s, fmt.Sprintf("statement %T", s))
	}
}

func joinUniq(prev string, add []string) string {
	seen := map[string]bool{}
	var out []string
	for _, p := range strings.Split(prev, ",") {
		if p != "" && !seen[p] {
			seen[p] = true
			out = append(out, p)
		}
	}
	for _, a := range add {
		if !seen[a] {
			seen[a] = true
			out = append(out, a)
		}
	}
	return strings.Join(out, ",")
}

// zeroed lists the item fields reset in an else branch: `item.X = zero`,
// `item.X = item.X[:0]`, `item.X.Reset()`, `clear(item.X)`.
func (cx *shapeCtx) zeroed(s ast.Stmt) []string {
	var out []string
	ast.Inspect(s, func(n ast.Node) bool {
		switch n := n.(type) {
		case *ast.AssignStmt:
			for _, l := range n.Lhs {
				c := cx.canon(l)
				if strings.HasPrefix(c, "item.") {
					out = append(out, c)
				}
			}
		case *ast.CallExpr:
			if sel, ok := n.Fun.(*ast.SelectorExpr); ok && (sel.Sel.Name == "Reset" || strings.HasPrefix(sel.Sel.Name, "Reset")) {
				c := cx.canon(sel.X)
				if strings.HasPrefix(c, "item.") {
					out = append(out, c)
				}
			}
			if id, ok := n.Fun.(*ast.Ident); ok && strings.HasSuffix(id.Name, "Reset") && len(n.Args) >= 1 {
				// function-style reset: BuiltinDictXReset(item.F)
				c := cx.canon(n.Args[0])
				if strings.HasPrefix(c, "item.") {
					out = append(out, c)
				}
			}
			if id, ok := n.Fun.(*ast.Ident); ok && id.Name == "clear" && len(n.Args) == 1 {
				c := cx.canon(n.Args[0])
				if strings.HasPrefix(c, "item.") {
					out = append(out, c)
				}
			}
		}
		return true
	})
	return out
}

// expr finds codec calls inside an expression (outermost first).
func (cx *shapeCtx) expr(e ast.Expr, conds []string, loop int) {
	ast.Inspect(e, func(n ast.Node) bool {
		call, ok := n.(*ast.CallExpr)
		if !ok {
			return true
		}
		if cx.codecCall(call, conds, loop) {
			return false
		}
		return true
	})
}

func firstParamIsBytes(sig *types.Signature) bool {
	if sig.Params().Len() == 0 {
		return false
	}
	sl, ok := sig.Params().At(0).Type().Underlying().(*types.Slice)
	if !ok {
		return false
	}
	b, ok := sl.Elem().(*types.Basic)
	return ok && b.Kind() == types.Byte
}

func unifyRW(name string) (string, bool) {
	for _, k := range []string{"ReadExactTag", "Read", "Write"} {
		if i := strings.Index(name, k); i >= 0 {
			return name[:i] + name[i+len(k):], true
		}
	}
	return name, false
}

func (cx *shapeCtx) codecCall(call *ast.CallExpr, conds []string, loop int) bool {
	var fn *types.Func
	var recvExpr ast.Expr
	switch f := call.Fun.(type) {
	case *ast.Ident:
		fn, _ = cx.info.Uses[f].(*types.Func)
	case *ast.SelectorExpr:
		fn, _ = cx.info.Uses[f.Sel].(*types.Func)
		if fn != nil && fn.Type().(*types.Signature).Recv() != nil {
			recvExpr = f.X
		}
	}
	if fn == nil {
		return false
	}
	sig := fn.Type().(*types.Signature)
	if !firstParamIsBytes(sig) {
		return false
	}
	uname, isRW := unifyRW(fn.Name())
	if !isRW {
		return false
	}
	tok := CodecTok{Cond: strings.Join(conds, " && "), Loop: loop, Pos: call.Pos()}
	args := call.Args[1:]
	if recvExpr != nil {
		rt := sig.Recv().Type()
		if p, ok := rt.(*types.Pointer); ok {
			rt = p.Elem()
		}
		tn := types.TypeString(rt, func(*types.Package) string { return "" })
		tok.Family = "(" + tn + ")." + uname
		tok.Operand = cx.canon(recvExpr)
	} else {
		pkg := ""
		if fn.Pkg() != nil {
			pkg = fn.Pkg().Name() + "."
		}
		tok.Family = pkg + uname
		if len(args) > 0 {
			tok.Operand = cx.canon(args[0])
			args = args[1:]
		}
	}
	var ex []string
	for _, a := range args {
		ex = append(ex, cx.canon(a))
	}
	tok.Extra = strings.Join(ex, ", ")
	cx.out.Toks = append(cx.out.Toks, tok)
	return true
}

// canon renders an expression with receiver -> "item", parameters -> "p<i>", range
// variables -> "<ranged>[]", local integer temporaries -> "$len", constants -> "#value".
func (cx *shapeCtx) canon(e ast.Expr) string {
	if tv, ok := cx.info.Types[e]; ok && tv.Value != nil {
		if tv.Value.Kind() == constant.Int {
			if v, ok := constant.Uint64Val(tv.Value); ok {
				return fmt.Sprintf("#0x%x", v)
			}
		}
		return "#" + tv.Value.ExactString()
	}
	switch e := e.(type) {
	case *ast.Ident:
		o := cx.info.Uses[e]
		if o == nil {
			o = cx.info.Defs[e]
		}
		if o != nil {
			if o == cx.recv {
				return "item"
			}
			if i, ok := cx.params[o]; ok {
				return fmt.Sprintf("p%d", i)
			}
			if r, ok := cx.rng[o]; ok {
				return r
			}
			if cx.locals[o] {
				return "$len"
			}
			if _, ok := o.(*types.Var); ok && o.Parent() != nil && o.Parent() != o.Pkg().Scope() {
				return "$local:" + types.TypeString(o.Type(), func(p *types.Package) string { return p.Name() })
			}
		}
		return e.Name
	case *ast.ParenExpr:
		return cx.canon(e.X)
	case *ast.StarExpr:
		return cx.canon(e.X)
	case *ast.UnaryExpr:
		if e.Op == token.AND {
			return cx.canon(e.X)
		}
		return e.Op.String() + cx.canon(e.X)
	case *ast.SelectorExpr:
		return cx.canon(e.X) + "." + e.Sel.Name
	case *ast.IndexExpr:
		idx := cx.canon(e.Index)
		if idx == "$i" {
			return cx.canon(e.X) + "[]"
		}
		return cx.canon(e.X) + "[" + idx + "]"
	case *ast.BinaryExpr:
		return cx.canon(e.X) + e.Op.String() + cx.canon(e.Y)
	case *ast.BasicLit:
		return "#" + e.Value
	case *ast.CallExpr:
		// conversions and len()
		if len(e.Args) == 1 {
			if tv, ok := cx.info.Types[e.Fun]; ok && tv.IsType() {
				inner := cx.canon(e.Args[0])
				return inner
			}
			if id, ok := e.Fun.(*ast.Ident); ok && id.Name == "len" {
				return "$len"
			}
		}
		var as []string
		for _, a := range e.Args {
			as = append(as, cx.canon(a))
		}
		return cx.canon(e.Fun) + "(" + strings.Join(as, ",") + ")"
	case *ast.SliceExpr:
		return cx.canon(e.X) + "[:]"
	case *ast.CompositeLit:
		return "lit"
	case *ast.FuncLit:
		return "func"
	case *ast.TypeAssertExpr:
		return cx.canon(e.X)
	}
	return fmt.Sprintf("?%T", e)
}
