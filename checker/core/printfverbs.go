package core

import (
	"fmt"
	"strconv"
	"strings"
	"unicode/utf8"

	"golang.org/x/tools/go/ssa"
)

// K13c: pairing of printf format verbs with the arguments they print (the analysis
// go vet's printf check performs), so that a rule can ask "with which verb, and
// followed by which literal text, is this value printed?".

// Verb is one formatting directive of a format string.
type Verb struct {
	Verb     rune   // 'd', 's', 'v', … ('%' for a literal %%)
	Flags    string // flags, width and precision as written ("-08.3")
	Arg      int    // index of the operand printed (0-based among the variadic operands); -1 for %%
	Extra    []int  // operands consumed by '*' width/precision
	Start    int    // byte offset of '%' in the format
	End      int    // byte offset just after the verb
	Trailing string // literal text between this directive and the next one (or the end)
	Leading  string // literal text between the previous directive (or the start) and this one
}

// ParseFormat splits a printf format string into directives. It implements the
// syntax of package fmt: %[flags][width][.precision][argument index]verb, with '*'
// for width/precision and explicit argument indexes "[n]".
func ParseFormat(format string) ([]Verb, error) {
	var out []Verb
	argNum := 0
	lastEnd := 0
	for i := 0; i < len(format); {
		if format[i] != '%' {
			i++
			continue
		}
		v := Verb{Start: i, Arg: -1, Leading: format[lastEnd:i]}
		j := i + 1
		flagStart := j
		// flags
		for j < len(format) && strings.IndexByte("+-# 0", format[j]) >= 0 {
			j++
		}
		parseIndex := func() (bool, error) {
			if j < len(format) && format[j] == '[' {
				k := strings.IndexByte(format[j:], ']')
				if k < 0 {
					return false, fmt.Errorf("bad argument index in %q", format)
				}
				n, err := strconv.Atoi(format[j+1 : j+k])
				if err != nil || n < 1 {
					return false, fmt.Errorf("bad argument index in %q", format)
				}
				argNum = n - 1
				j += k + 1
				return true, nil
			}
			return false, nil
		}
		parseNum := func() error {
			if _, err := parseIndex(); err != nil {
				return err
			}
			if j < len(format) && format[j] == '*' {
				v.Extra = append(v.Extra, argNum)
				argNum++
				j++
				return nil
			}
			for j < len(format) && format[j] >= '0' && format[j] <= '9' {
				j++
			}
			return nil
		}
		if err := parseNum(); err != nil { // width
			return nil, err
		}
		if j < len(format) && format[j] == '.' {
			j++
			if err := parseNum(); err != nil { // precision
				return nil, err
			}
		}
		flagEnd := j
		if _, err := parseIndex(); err != nil {
			return nil, err
		}
		if j >= len(format) {
			return nil, fmt.Errorf("format %q ends in an incomplete directive", format)
		}
		r, w := utf8.DecodeRuneInString(format[j:])
		v.Verb = r
		v.Flags = format[flagStart:flagEnd]
		j += w
		v.End = j
		if r != '%' {
			v.Arg = argNum
			argNum++
		}
		out = append(out, v)
		lastEnd = j
		i = j
	}
	for k := range out {
		end := len(format)
		if k+1 < len(out) {
			end = out[k+1].Start
		}
		out[k].Trailing = format[out[k].End:end]
	}
	return out, nil
}

// PrintfFuncs maps printf-like functions (canonical callee names) to the position
// of the format argument; the variadic operands follow it.
var PrintfFuncs = map[string]int{
	"fmt.Sprintf": 0, "fmt.Printf": 0, "fmt.Errorf": 0,
	"fmt.Fprintf": 1, "fmt.Appendf": 1,
}

// PrintfCall is a resolved call of a printf-like function.
type PrintfCall struct {
	Site    Site
	Format  string
	Verbs   []Verb
	Args    []ssa.Value // the variadic operands, interface conversions stripped
	RawArgs []ssa.Value
}

// AsPrintf resolves a call site as a printf-like call with a constant format and a
// literal operand list. ok=false with err==nil means "not a printf-like call";
// err != nil means it is one but cannot be resolved (non-constant format, operands
// passed as an existing slice).
func AsPrintf(s Site, extra map[string]int) (pc *PrintfCall, ok bool, err error) {
	idx, known := PrintfFuncs[s.Callee]
	if !known && extra != nil {
		idx, known = extra[s.Callee]
	}
	if !known {
		return nil, false, nil
	}
	args := s.Common().Args
	if idx+1 >= len(args) {
		return nil, true, fmt.Errorf("%s: unexpected arity", s.Callee)
	}
	format, isConst := ConstString(args[idx])
	if !isConst {
		return nil, true, fmt.Errorf("%s: format %s is not a constant", s.Callee, Expr(args[idx]))
	}
	verbs, perr := ParseFormat(format)
	if perr != nil {
		return nil, true, perr
	}
	pc = &PrintfCall{Site: s, Format: format, Verbs: verbs}
	va := args[idx+1]
	if IsNil(va) {
		return pc, true, nil // no operands
	}
	elems, lit := SliceLitElems(va)
	if !lit {
		return nil, true, fmt.Errorf("%s: operands are not a literal argument list", s.Callee)
	}
	pc.RawArgs = elems
	for _, e := range elems {
		if mi, isMI := e.(*ssa.MakeInterface); isMI {
			pc.Args = append(pc.Args, mi.X)
		} else {
			pc.Args = append(pc.Args, e)
		}
	}
	return pc, true, nil
}

// VerbsOf returns the directives that print operand i.
func (pc *PrintfCall) VerbsOf(i int) []Verb {
	var out []Verb
	for _, v := range pc.Verbs {
		if v.Arg == i {
			out = append(out, v)
		}
	}
	return out
}

// OperandSlot describes where a value stored into a variadic operand array ends up:
// the call that receives the array and the operand index. It follows
// `*(&arr[i]) = v; f(..., arr[:])`.
func OperandSlot(st *ssa.Store) (call ssa.CallInstruction, argPos int, elem int, ok bool) {
	ia, isIA := st.Addr.(*ssa.IndexAddr)
	if !isIA {
		return nil, 0, 0, false
	}
	a, isAlloc := ia.X.(*ssa.Alloc)
	if !isAlloc {
		return nil, 0, 0, false
	}
	k, isConst := ConstInt(ia.Index)
	if !isConst {
		return nil, 0, 0, false
	}
	for _, r := range Referrers(a) {
		sl, isSlice := r.(*ssa.Slice)
		if !isSlice {
			continue
		}
		for _, u := range Referrers(sl) {
			ci, isCall := u.(ssa.CallInstruction)
			if !isCall {
				continue
			}
			for p, arg := range ci.Common().Args {
				if arg == sl {
					return ci, p, int(k), true
				}
			}
		}
	}
	return nil, 0, 0, false
}
