package core

import (
	"fmt"
	"go/token"
	"go/types"
	"sort"
	"strings"

	"golang.org/x/tools/go/ssa"
)

// Site is a call site.
type Site struct {
	Fn     *ssa.Function
	Instr  ssa.CallInstruction
	Callee string // canonical callee name
}

// Common returns the call's common part.
func (s Site) Common() *ssa.CallCommon { return s.Instr.Common() }

// Block returns the block the call is in.
func (s Site) Block() *ssa.BasicBlock { return s.Instr.Block() }

// Pos returns the call position.
func (s Site) Pos() token.Pos { return s.Instr.Pos() }

// Arg returns the i-th argument counting the receiver of a static method call as 0.
func (s Site) Arg(i int) ssa.Value {
	c := s.Common()
	if c.IsInvoke() {
		if i == 0 {
			return c.Value
		}
		i--
	}
	if i < len(c.Args) {
		return c.Args[i]
	}
	return nil
}

// Value returns the call's result value (nil for go/defer).
func (s Site) Value() ssa.Value {
	if c, ok := s.Instr.(*ssa.Call); ok {
		return c
	}
	return nil
}

// Calls lists the call sites (call, go, defer) of a function in block order.
func Calls(fn *ssa.Function) []Site {
	var out []Site
	for _, b := range fn.Blocks {
		for _, in := range b.Instrs {
			if ci, ok := in.(ssa.CallInstruction); ok {
				out = append(out, Site{Fn: fn, Instr: ci, Callee: CalleeName(ci.Common())})
			}
		}
	}
	return out
}

// CallsTo lists the call sites in fn whose canonical callee matches one of the globs.
func CallsTo(fn *ssa.Function, callees ...string) []Site {
	var out []Site
	for _, s := range Calls(fn) {
		if GlobAny(callees, s.Callee) {
			out = append(out, s)
		}
	}
	return out
}

// Callers lists every call site in the given functions whose callee matches.
// Method values (x.M used as a value) are reported as sites whose Instr is nil-free
// MakeClosure is not a call; they are returned separately by MethodValueUses.
func Callers(fns []*ssa.Function, callees ...string) []Site {
	var out []Site
	for _, fn := range fns {
		out = append(out, CallsTo(fn, callees...)...)
	}
	return out
}

// FuncValueUses lists the instructions in fns that use the named function as a
// value (not as the callee of a static call): stored, passed, bound.
func FuncValueUses(fns []*ssa.Function, name string) []ssa.Instruction {
	var out []ssa.Instruction
	for _, fn := range fns {
		for _, b := range fn.Blocks {
			for _, in := range b.Instrs {
				var ops []*ssa.Value
				ops = in.Operands(ops)
				for i, op := range ops {
					if *op == nil {
						continue
					}
					f, ok := (*op).(*ssa.Function)
					if !ok {
						continue
					}
					fname := FuncName(f)
					if fname != name && !(strings.HasPrefix(fname, name+"$bound")) && !(strings.HasPrefix(fname, name+"$thunk")) {
						if f.Synthetic == "" || !strings.Contains(f.Name(), "$") {
							continue
						}
						// bound method wrapper: name is like (*T).M$bound
						base := strings.TrimSuffix(strings.TrimSuffix(fname, "$bound"), "$thunk")
						if base != name {
							continue
						}
					}
					if ci, isCall := in.(ssa.CallInstruction); isCall && i == 0 && !ci.Common().IsInvoke() && ci.Common().Value == f {
						continue // static callee position
					}
					out = append(out, in)
				}
			}
		}
	}
	return out
}

// SiteKey builds the position-independent key of the n-th call to callee in fn.
func SiteKey(fn *ssa.Function, what string, ordinal int) string {
	return fmt.Sprintf("%s/%s#%d", FuncName(fn), what, ordinal)
}

// Ordinals assigns to each site its ordinal among the sites with the same
// function and callee (in block/instruction order), producing stable keys.
func Ordinals(sites []Site) []string {
	cnt := map[string]int{}
	keys := make([]string, len(sites))
	for i, s := range sites {
		k := FuncName(s.Fn) + "/" + s.Callee
		cnt[k]++
		keys[i] = fmt.Sprintf("%s#%d", k, cnt[k])
	}
	return keys
}

// ---- stores -----------------------------------------------------------------------

// FieldWrite is a store to a struct field (or a map update / delete / append through it).
type FieldWrite struct {
	Fn    *ssa.Function
	Instr ssa.Instruction
	Kind  string    // "store", "mapupdate", "delete", "zero" (whole-struct store)
	Addr  ssa.Value // address stored to (FieldAddr) or map value
	Val   ssa.Value // value stored (nil for delete)
}

func namedStruct(t types.Type) (*types.Named, bool) {
	if p, ok := t.Underlying().(*types.Pointer); ok {
		t = p.Elem()
	}
	if p, ok := t.(*types.Pointer); ok {
		t = p.Elem()
	}
	n, ok := t.(*types.Named)
	return n, ok
}

// IsField reports whether v is the address (FieldAddr) or value (Field) of the
// field `field` of the named struct type `typ` ("internal/agent.Shard").
func IsField(v ssa.Value, typ, field string) bool {
	switch v := v.(type) {
	case *ssa.FieldAddr:
		n, ok := namedStruct(v.X.Type())
		return ok && TypeName(n.Origin()) == typ && fieldName(v.X.Type(), v.Field) == field
	case *ssa.Field:
		n, ok := v.X.Type().(*types.Named)
		return ok && TypeName(n.Origin()) == typ && fieldName(v.X.Type(), v.Field) == field
	}
	return false
}

// LoadsField reports whether v is a load of (or the address of) the field, looking
// through one dereference.
func LoadsField(v ssa.Value, typ, field string) bool {
	if u, ok := v.(*ssa.UnOp); ok && u.Op == token.MUL {
		return IsField(u.X, typ, field)
	}
	return IsField(v, typ, field)
}

// FieldWrites lists the stores to typ.field in the given functions: direct stores,
// map updates and deletes on the map held in the field, and stores through an
// index of the slice/array held in the field.
func FieldWrites(fns []*ssa.Function, typ, field string) []FieldWrite {
	var out []FieldWrite
	for _, fn := range fns {
		for _, b := range fn.Blocks {
			for _, in := range b.Instrs {
				switch in := in.(type) {
				case *ssa.Store:
					if IsField(in.Addr, typ, field) {
						out = append(out, FieldWrite{fn, in, "store", in.Addr, in.Val})
					} else if ia, ok := in.Addr.(*ssa.IndexAddr); ok && (LoadsField(ia.X, typ, field) || IsField(ia.X, typ, field)) {
						out = append(out, FieldWrite{fn, in, "indexstore", in.Addr, in.Val})
					}
				case *ssa.MapUpdate:
					if LoadsField(in.Map, typ, field) {
						out = append(out, FieldWrite{fn, in, "mapupdate", in.Map, in.Value})
					}
				case *ssa.Call:
					if bi, ok := in.Call.Value.(*ssa.Builtin); ok && bi.Name() == "delete" && len(in.Call.Args) == 2 {
						if LoadsField(in.Call.Args[0], typ, field) {
							out = append(out, FieldWrite{fn, in, "delete", in.Call.Args[0], nil})
						}
					}
				}
			}
		}
	}
	return out
}

// FieldReads lists the instructions in fns that read typ.field (load of FieldAddr or Field).
func FieldReads(fns []*ssa.Function, typ, field string) []ssa.Instruction {
	var out []ssa.Instruction
	for _, fn := range fns {
		for _, b := range fn.Blocks {
			for _, in := range b.Instrs {
				switch in := in.(type) {
				case *ssa.UnOp:
					if in.Op == token.MUL && IsField(in.X, typ, field) {
						out = append(out, in)
					}
				case *ssa.Field:
					if IsField(in, typ, field) {
						out = append(out, in)
					}
				}
			}
		}
	}
	return out
}

// FieldAddrUses lists all FieldAddr/Field instructions for typ.field in fns.
func FieldAddrUses(fns []*ssa.Function, typ, field string) []ssa.Instruction {
	var out []ssa.Instruction
	for _, fn := range fns {
		for _, b := range fn.Blocks {
			for _, in := range b.Instrs {
				if v, ok := in.(ssa.Value); ok && IsField(v, typ, field) {
					out = append(out, in)
				}
			}
		}
	}
	return out
}

// ---- order / reachability ---------------------------------------------------------

// InstrIndex returns the index of an instruction in its block.
func InstrIndex(in ssa.Instruction) int {
	for i, x := range in.Block().Instrs {
		if x == in {
			return i
		}
	}
	return -1
}

// Dominates reports whether instruction a is executed before b on every path to b.
func Dominates(a, b ssa.Instruction) bool {
	if a.Block() == b.Block() {
		return InstrIndex(a) < InstrIndex(b)
	}
	return a.Block().Dominates(b.Block())
}

// Returns lists the return instructions of a function.
func Returns(fn *ssa.Function) []*ssa.Return {
	var out []*ssa.Return
	for _, b := range fn.Blocks {
		if len(b.Instrs) > 0 {
			if r, ok := b.Instrs[len(b.Instrs)-1].(*ssa.Return); ok {
				out = append(out, r)
			}
		}
	}
	return out
}

// PathTo describes a path found by the reachability searches.
type PathTo struct {
	End    ssa.Instruction
	Blocks []int
}

// ReachWithout searches, starting right after instruction `from`, for an instruction
// satisfying `target` that can be reached without executing any instruction
// satisfying `stop`. It returns the first such target (nil if none).
func ReachWithout(from ssa.Instruction, target, stop func(ssa.Instruction) bool) *PathTo {
	type item struct {
		b     *ssa.BasicBlock
		start int
		path  []int
	}
	startBlock := from.Block()
	seen := map[*ssa.BasicBlock]bool{}
	queue := []item{{startBlock, InstrIndex(from) + 1, []int{startBlock.Index}}}
	for len(queue) > 0 {
		it := queue[0]
		queue = queue[1:]
		blocked := false
		for i := it.start; i < len(it.b.Instrs); i++ {
			in := it.b.Instrs[i]
			if stop != nil && stop(in) {
				blocked = true
				break
			}
			if target(in) {
				return &PathTo{End: in, Blocks: it.path}
			}
		}
		if blocked {
			continue
		}
		for _, s := range it.b.Succs {
			if !seen[s] {
				seen[s] = true
				np := append(append([]int{}, it.path...), s.Index)
				queue = append(queue, item{s, 0, np})
			}
		}
	}
	return nil
}

// ReachFromEntryWithout is ReachWithout starting at function entry.
func ReachFromEntryWithout(fn *ssa.Function, target, stop func(ssa.Instruction) bool) *PathTo {
	if len(fn.Blocks) == 0 {
		return nil
	}
	type item struct {
		b    *ssa.BasicBlock
		path []int
	}
	seen := map[*ssa.BasicBlock]bool{fn.Blocks[0]: true}
	queue := []item{{fn.Blocks[0], []int{0}}}
	for len(queue) > 0 {
		it := queue[0]
		queue = queue[1:]
		blocked := false
		for _, in := range it.b.Instrs {
			if stop != nil && stop(in) {
				blocked = true
				break
			}
			if target(in) {
				return &PathTo{End: in, Blocks: it.path}
			}
		}
		if blocked {
			continue
		}
		for _, s := range it.b.Succs {
			if !seen[s] {
				seen[s] = true
				queue = append(queue, item{s, append(append([]int{}, it.path...), s.Index)})
			}
		}
	}
	return nil
}

// IsReturn matches return instructions.
func IsReturn(in ssa.Instruction) bool { _, ok := in.(*ssa.Return); return ok }

// IsCallTo builds a predicate matching calls (call/go/defer) to the given callees.
func IsCallTo(callees ...string) func(ssa.Instruction) bool {
	return func(in ssa.Instruction) bool {
		ci, ok := in.(ssa.CallInstruction)
		return ok && GlobAny(callees, CalleeName(ci.Common()))
	}
}

// ---- def-use ----------------------------------------------------------------------

// Derives reports whether v is computed from src using only "transparent"
// operations (conversions, phi, arithmetic, field/index selection, slicing, extract,
// loads of local cells that are only stored from derived values when deep).
func Derives(v, src ssa.Value) bool { return derives(v, src, map[ssa.Value]bool{}) }

func derives(v, src ssa.Value, seen map[ssa.Value]bool) bool {
	if v == src {
		return true
	}
	if v == nil || seen[v] {
		return false
	}
	seen[v] = true
	switch v := v.(type) {
	case *ssa.Phi:
		for _, e := range v.Edges {
			if derives(e, src, seen) {
				return true
			}
		}
	case *ssa.Convert:
		return derives(v.X, src, seen)
	case *ssa.ChangeType:
		return derives(v.X, src, seen)
	case *ssa.MakeInterface:
		return derives(v.X, src, seen)
	case *ssa.ChangeInterface:
		return derives(v.X, src, seen)
	case *ssa.BinOp:
		return derives(v.X, src, seen) || derives(v.Y, src, seen)
	case *ssa.UnOp:
		return derives(v.X, src, seen)
	case *ssa.Extract:
		return derives(v.Tuple, src, seen)
	case *ssa.Field:
		return derives(v.X, src, seen)
	case *ssa.FieldAddr:
		return derives(v.X, src, seen)
	case *ssa.Index:
		return derives(v.X, src, seen)
	case *ssa.IndexAddr:
		return derives(v.X, src, seen)
	case *ssa.Slice:
		return derives(v.X, src, seen)
	case *ssa.Alloc:
		// cell: derived if some store into it is derived
		for _, ref := range *v.Referrers() {
			if st, ok := ref.(*ssa.Store); ok && st.Addr == v && derives(st.Val, src, seen) {
				return true
			}
		}
	}
	return false
}

// Referrers returns the instructions using v.
func Referrers(v ssa.Value) []ssa.Instruction {
	if r := v.Referrers(); r != nil {
		return *r
	}
	return nil
}

// StoresTo lists the stores into an Alloc cell (including from closures via FreeVar is
// not tracked: use CellStores for captured variables).
func StoresTo(a *ssa.Alloc) []*ssa.Store {
	var out []*ssa.Store
	for _, r := range Referrers(a) {
		if st, ok := r.(*ssa.Store); ok && st.Addr == a {
			out = append(out, st)
		}
	}
	return out
}

// CellStores lists all stores to the variable held in cell `a` of fn, including the
// stores made by closures that capture it (followed through MakeClosure bindings).
func CellStores(a *ssa.Alloc) []*ssa.Store {
	out := StoresTo(a)
	for _, r := range Referrers(a) {
		mc, ok := r.(*ssa.MakeClosure)
		if !ok {
			continue
		}
		fn := mc.Fn.(*ssa.Function)
		for i, b := range mc.Bindings {
			if b == a && i < len(fn.FreeVars) {
				out = append(out, freeVarStores(fn, fn.FreeVars[i])...)
			}
		}
	}
	return out
}

func freeVarStores(fn *ssa.Function, fv *ssa.FreeVar) []*ssa.Store {
	var out []*ssa.Store
	for _, r := range Referrers(fv) {
		switch r := r.(type) {
		case *ssa.Store:
			if r.Addr == fv {
				out = append(out, r)
			}
		case *ssa.MakeClosure:
			inner := r.Fn.(*ssa.Function)
			for i, b := range r.Bindings {
				if b == fv && i < len(inner.FreeVars) {
					out = append(out, freeVarStores(inner, inner.FreeVars[i])...)
				}
			}
		}
	}
	return out
}

// SortedKeys returns the sorted keys of a string-keyed map.
func SortedKeys[V any](m map[string]V) []string {
	ks := make([]string, 0, len(m))
	for k := range m {
		ks = append(ks, k)
	}
	sort.Strings(ks)
	return ks
}

// AnonFuncs returns fn and all functions nested in it.
func WithAnon(fn *ssa.Function) []*ssa.Function {
	out := []*ssa.Function{fn}
	for _, a := range fn.AnonFuncs {
		out = append(out, WithAnon(a)...)
	}
	return out
}

// ReturnedValues resolves the values a return instruction yields. In functions with
// defer, go/ssa spills named/anonymous results into cells ("store &alloc <- v;
// return *alloc"); the store preceding the return in the same block is looked up.
func ReturnedValues(ret *ssa.Return) []ssa.Value {
	out := make([]ssa.Value, len(ret.Results))
	b := ret.Block()
	for i, r := range ret.Results {
		out[i] = r
		u, ok := r.(*ssa.UnOp)
		if !ok || u.Op != token.MUL {
			continue
		}
		a, ok := u.X.(*ssa.Alloc)
		if !ok {
			continue
		}
		idx := InstrIndex(u)
		if u.Block() != b {
			idx = len(b.Instrs)
		}
		for j := idx - 1; j >= 0; j-- {
			if st, ok := b.Instrs[j].(*ssa.Store); ok && st.Addr == a {
				out[i] = st.Val
				break
			}
		}
	}
	return out
}

// ConstBool reports whether v is the boolean constant want.
func ConstBool(v ssa.Value, want bool) bool {
	c, ok := v.(*ssa.Const)
	if !ok || c.Value == nil {
		return false
	}
	return c.Value.String() == fmt.Sprint(want)
}
