package core

import (
	"fmt"
	"go/constant"
	"go/token"
	"go/types"
	"strings"

	"golang.org/x/tools/go/ssa"
)

// TypeName renders a type with module-relative package paths.
func TypeName(t types.Type) string {
	return types.TypeString(t, func(p *types.Package) string { return Rel(p.Path()) })
}

// ShortType renders a type with package names (not paths) as qualifiers.
func ShortType(t types.Type) string {
	return types.TypeString(t, func(p *types.Package) string { return p.Name() })
}

// CalleeName gives the canonical name of the callee of a call instruction:
// a static function ("internal/x.(*T).M"), an interface method
// ("invoke internal/x.Iface.M"), a builtin ("builtin len") or "dynamic".
func CalleeName(c *ssa.CallCommon) string {
	if c.IsInvoke() {
		return "invoke " + TypeName(c.Value.Type()) + "." + c.Method.Name()
	}
	switch v := c.Value.(type) {
	case *ssa.Function:
		return FuncName(v)
	case *ssa.Builtin:
		return "builtin " + v.Name()
	case *ssa.MakeClosure:
		if fn, ok := v.Fn.(*ssa.Function); ok {
			return FuncName(fn)
		}
	}
	return "dynamic"
}

// Expr renders an SSA value as a canonical expression string over resolved
// callees, fields, constants, parameters and locals. It is used by the guard and
// provenance matchers; it never contains positions.
func Expr(v ssa.Value) string { return exprDepth(v, 0, map[ssa.Value]bool{}) }

const maxExprDepth = 12

func exprDepth(v ssa.Value, d int, seen map[ssa.Value]bool) string {
	if v == nil {
		return "<nil>"
	}
	if d > maxExprDepth {
		return "…"
	}
	r := func(x ssa.Value) string { return exprDepth(x, d+1, seen) }
	switch v := v.(type) {
	case *ssa.Const:
		if v.Value == nil {
			return "nil"
		}
		if v.Value.Kind() == constant.String {
			return v.Value.ExactString()
		}
		return v.Value.String()
	case *ssa.Parameter:
		// parameters, captured variables and address-taken locals are rendered by
		// position/type, never by name: renaming a local must not change a verdict
		idx := -1
		if v.Parent() != nil {
			for i, p := range v.Parent().Params {
				if p == v {
					idx = i
				}
			}
		}
		return fmt.Sprintf("{%d:%s}", idx, ShortType(v.Type()))
	case *ssa.FreeVar:
		return "{free:" + ShortType(v.Type()) + "}"
	case *ssa.Global:
		return Rel(v.Pkg.Pkg.Path()) + "." + v.Name()
	case *ssa.Function:
		return FuncName(v)
	case *ssa.Builtin:
		return "builtin " + v.Name()
	case *ssa.Alloc:
		t := v.Type()
		if p, ok := t.Underlying().(*types.Pointer); ok {
			t = p.Elem()
		}
		return "&{" + ShortType(t) + "}"
	case *ssa.FieldAddr:
		return "&" + fieldBase(r(v.X)) + "." + fieldName(v.X.Type(), v.Field)
	case *ssa.Field:
		return r(v.X) + "." + fieldName(v.X.Type(), v.Field)
	case *ssa.IndexAddr:
		return "&" + fieldBase(r(v.X)) + "[" + r(v.Index) + "]"
	case *ssa.Index:
		return r(v.X) + "[" + r(v.Index) + "]"
	case *ssa.Lookup:
		return r(v.X) + "[" + r(v.Index) + "]"
	case *ssa.UnOp:
		switch v.Op {
		case token.MUL:
			s := r(v.X)
			if strings.HasPrefix(s, "&") {
				return s[1:]
			}
			return "*" + s
		case token.NOT:
			return "!" + r(v.X)
		case token.ARROW:
			return "<-" + r(v.X)
		default:
			return v.Op.String() + r(v.X)
		}
	case *ssa.BinOp:
		return "(" + r(v.X) + " " + v.Op.String() + " " + r(v.Y) + ")"
	case *ssa.Call:
		if d >= 3 {
			return CalleeName(&v.Call) + "(…)"
		}
		return callExpr(&v.Call, d, seen)
	case *ssa.Extract:
		return r(v.Tuple) + "#" + fmt.Sprint(v.Index)
	case *ssa.Phi:
		if seen[v] {
			return "phi…"
		}
		seen[v] = true
		parts := make([]string, 0, len(v.Edges))
		uniq := map[string]bool{}
		for _, e := range v.Edges {
			s := r(e)
			if !uniq[s] {
				uniq[s] = true
				parts = append(parts, s)
			}
		}
		delete(seen, v)
		return "phi(" + strings.Join(parts, " | ") + ")"
	case *ssa.Convert:
		return TypeName(v.Type()) + "(" + r(v.X) + ")"
	case *ssa.ChangeType:
		return r(v.X)
	case *ssa.ChangeInterface:
		return r(v.X)
	case *ssa.MakeInterface:
		return r(v.X)
	case *ssa.SliceToArrayPointer:
		return r(v.X)
	case *ssa.Slice:
		lo, hi := "", ""
		if v.Low != nil {
			lo = r(v.Low)
		}
		if v.High != nil {
			hi = r(v.High)
		}
		return fieldBase(r(v.X)) + "[" + lo + ":" + hi + "]"
	case *ssa.MakeClosure:
		if fn, ok := v.Fn.(*ssa.Function); ok {
			return "closure " + FuncName(fn)
		}
		return "closure"
	case *ssa.MakeSlice:
		return "make(" + TypeName(v.Type()) + ", " + r(v.Len) + ")"
	case *ssa.MakeMap:
		return "make(" + TypeName(v.Type()) + ")"
	case *ssa.MakeChan:
		return "make(" + TypeName(v.Type()) + ")"
	case *ssa.TypeAssert:
		return r(v.X) + ".(" + TypeName(v.AssertedType) + ")"
	case *ssa.Range:
		return "range " + r(v.X)
	case *ssa.Next:
		return "next " + r(v.Iter)
	case *ssa.Select:
		return "select"
	}
	return fmt.Sprintf("<%T>", v)
}

func fieldBase(s string) string {
	// "&x.f" as base of a further field means x.f (auto-deref of the address)
	if strings.HasPrefix(s, "&") {
		return s[1:]
	}
	// pointer loaded from somewhere: (*p).f is written p.f
	return s
}

func fieldName(t types.Type, idx int) string {
	t = t.Underlying()
	if p, ok := t.(*types.Pointer); ok {
		t = p.Elem().Underlying()
	}
	if st, ok := t.(*types.Struct); ok && idx < st.NumFields() {
		return st.Field(idx).Name()
	}
	return fmt.Sprintf("f%d", idx)
}

func callExpr(c *ssa.CallCommon, d int, seen map[ssa.Value]bool) string {
	args := make([]string, 0, len(c.Args)+1)
	if c.IsInvoke() {
		args = append(args, exprDepth(c.Value, d+1, seen))
	}
	for _, a := range c.Args {
		args = append(args, exprDepth(a, d+1, seen))
	}
	name := CalleeName(c)
	if name == "dynamic" {
		name = "dyn " + exprDepth(c.Value, d+1, seen)
	}
	return name + "(" + strings.Join(args, ", ") + ")"
}

// Glob matches s against a pattern where '*' matches any (possibly empty) substring.
func Glob(pat, s string) bool {
	parts := strings.Split(pat, "*")
	if len(parts) == 1 {
		return pat == s
	}
	if !strings.HasPrefix(s, parts[0]) {
		return false
	}
	s = s[len(parts[0]):]
	for i := 1; i < len(parts)-1; i++ {
		j := strings.Index(s, parts[i])
		if j < 0 {
			return false
		}
		s = s[j+len(parts[i]):]
	}
	return strings.HasSuffix(s, parts[len(parts)-1])
}

// GlobAny reports whether any pattern matches.
func GlobAny(pats []string, s string) bool {
	for _, p := range pats {
		if Glob(p, s) {
			return true
		}
	}
	return false
}
