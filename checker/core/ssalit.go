package core

import (
	"go/constant"
	"go/token"
	"go/types"

	"golang.org/x/tools/go/ssa"
)

// SliceLitElems returns the element values of a slice built from a literal or from
// variadic arguments: go/ssa lowers `[]T{a, b}` and `f(a, b)` (variadic) to
// `t = new [n]T; *(&t[0]) = a; *(&t[1]) = b; slice t[:]`. ok is false when v is not
// of that form or when the backing array is used in any other way (then the
// contents are not known).
func SliceLitElems(v ssa.Value) (elems []ssa.Value, ok bool) {
	sl, isSlice := v.(*ssa.Slice)
	if !isSlice || sl.Low != nil || sl.High != nil {
		return nil, false
	}
	a, isAlloc := sl.X.(*ssa.Alloc)
	if !isAlloc {
		return nil, false
	}
	pt, _ := a.Type().Underlying().(*types.Pointer)
	if pt == nil {
		return nil, false
	}
	arr, _ := pt.Elem().Underlying().(*types.Array)
	if arr == nil {
		return nil, false
	}
	elems = make([]ssa.Value, arr.Len())
	for _, r := range Referrers(a) {
		switch r := r.(type) {
		case *ssa.Slice:
			if r != sl {
				return nil, false
			}
		case *ssa.IndexAddr:
			k, isConst := r.Index.(*ssa.Const)
			if !isConst || k.Value == nil {
				return nil, false
			}
			i, exact := constant.Int64Val(k.Value)
			if !exact || i < 0 || i >= arr.Len() {
				return nil, false
			}
			for _, rr := range Referrers(r) {
				st, isStore := rr.(*ssa.Store)
				if !isStore || st.Addr != r || elems[i] != nil {
					return nil, false
				}
				elems[i] = st.Val
			}
		default:
			return nil, false
		}
	}
	for _, e := range elems {
		if e == nil {
			return nil, false
		}
	}
	return elems, true
}

// ConstString returns the value of a string constant.
func ConstString(v ssa.Value) (string, bool) {
	k, ok := v.(*ssa.Const)
	if !ok || k.Value == nil || k.Value.Kind() != constant.String {
		return "", false
	}
	return constant.StringVal(k.Value), true
}

// ConstInt returns the value of an integer constant.
func ConstInt(v ssa.Value) (int64, bool) {
	k, ok := v.(*ssa.Const)
	if !ok || k.Value == nil || k.Value.Kind() != constant.Int {
		return 0, false
	}
	return constant.Int64Val(k.Value)
}

// ConstNum returns the value of a numeric (integer or float) constant.
func ConstNum(v ssa.Value) (float64, bool) {
	k, ok := v.(*ssa.Const)
	if !ok || k.Value == nil {
		return 0, false
	}
	switch k.Value.Kind() {
	case constant.Int, constant.Float:
		f, _ := constant.Float64Val(k.Value)
		return f, true
	}
	return 0, false
}

// IsNil reports whether v is the nil constant.
func IsNil(v ssa.Value) bool {
	k, ok := v.(*ssa.Const)
	return ok && k.Value == nil
}

// Unwrap strips interface/type conversions.
func Unwrap(v ssa.Value) ssa.Value {
	for {
		switch x := v.(type) {
		case *ssa.MakeInterface:
			v = x.X
		case *ssa.ChangeInterface:
			v = x.X
		case *ssa.ChangeType:
			v = x.X
		case *ssa.Convert:
			v = x.X
		default:
			return v
		}
	}
}

// LoadAddr returns the address loaded by v (v = *addr), or nil.
func LoadAddr(v ssa.Value) ssa.Value {
	if u, ok := v.(*ssa.UnOp); ok && u.Op == token.MUL {
		return u.X
	}
	return nil
}

// GuardLits returns the single-alternative guard literals that hold at b.
func GuardLits(b *ssa.BasicBlock) []Lit {
	var out []Lit
	for _, g := range Facts(b) {
		if len(g.Alts) == 1 {
			out = append(out, g.Alts[0])
		}
	}
	return out
}

// GuardedTrue reports whether the boolean value cond is known to be true (pol) at b
// by SSA value identity (not by text).
func GuardedBool(b *ssa.BasicBlock, cond ssa.Value, pol bool) bool {
	for _, l := range GuardLits(b) {
		if l.Op == 0 && l.Cond == cond && l.Pol == pol {
			return true
		}
	}
	return false
}

// GuardedEq reports whether `x == y` is known with polarity pol at b, where x is
// matched by identity and y by the predicate.
func GuardedEq(b *ssa.BasicBlock, x ssa.Value, y func(ssa.Value) bool, pol bool) bool {
	for _, l := range GuardLits(b) {
		if l.Op == token.EQL && l.Pol == pol {
			if (l.X == x && y(l.Y)) || (l.Y == x && y(l.X)) {
				return true
			}
		}
	}
	return false
}
