package core

import (
	"fmt"
	"go/constant"
	"go/token"

	"golang.org/x/tools/go/ssa"
)

// NatLoop is a natural loop (one header, the blocks that can reach a back edge
// without passing the header).
type NatLoop struct {
	Fn      *ssa.Function
	Header  *ssa.BasicBlock
	Latches []*ssa.BasicBlock // sources of back edges
	Blocks  map[*ssa.BasicBlock]bool
}

// NatLoops finds the natural loops of fn (loops sharing a header are merged).
func NatLoops(fn *ssa.Function) []*NatLoop {
	var out []*NatLoop
	byHeader := map[*ssa.BasicBlock]*NatLoop{}
	for _, b := range fn.Blocks {
		for _, s := range b.Succs {
			if s.Dominates(b) { // back edge b -> s
				l := byHeader[s]
				if l == nil {
					l = &NatLoop{Fn: fn, Header: s, Blocks: map[*ssa.BasicBlock]bool{s: true}}
					byHeader[s] = l
					out = append(out, l)
				}
				l.Latches = append(l.Latches, b)
				// blocks reaching b without passing s
				stack := []*ssa.BasicBlock{b}
				for len(stack) > 0 {
					x := stack[len(stack)-1]
					stack = stack[:len(stack)-1]
					if l.Blocks[x] {
						continue
					}
					l.Blocks[x] = true
					stack = append(stack, x.Preds...)
				}
			}
		}
	}
	return out
}

// InnermostNatLoop returns the smallest loop containing b (nil if none).
func InnermostNatLoop(loops []*NatLoop, b *ssa.BasicBlock) *NatLoop {
	var best *NatLoop
	for _, l := range loops {
		if l.Blocks[b] && (best == nil || len(l.Blocks) < len(best.Blocks)) {
			best = l
		}
	}
	return best
}

// Range is a [Min,Max] count.
type Range struct{ Min, Max int }

func (r Range) String() string {
	if r.Min == r.Max {
		return fmt.Sprint(r.Min)
	}
	return fmt.Sprintf("%d..%d", r.Min, r.Max)
}

// NatLoopEdge is an edge leaving the loop body: back to the header (Back) or out of the loop.
type NatLoopEdge struct {
	From, To *ssa.BasicBlock
	Back     bool
	Count    Range // number of counted instructions executed in this iteration before taking the edge
}

// IterationCounts counts, for every acyclic path through one iteration of the loop
// (from the header), the instructions satisfying pred, and reports the count range
// at every back edge and at every edge leaving the loop. Edges to blocks that only
// panic are ignored. It fails when the body contains an inner cycle.
func (l *NatLoop) IterationCounts(pred func(ssa.Instruction) bool) ([]NatLoopEdge, error) {
	// inner cycle detection (ignoring edges into the header)
	color := map[*ssa.BasicBlock]int{}
	var cyc bool
	var dfs func(b *ssa.BasicBlock)
	dfs = func(b *ssa.BasicBlock) {
		color[b] = 1
		for _, s := range b.Succs {
			if s == l.Header || !l.Blocks[s] {
				continue
			}
			switch color[s] {
			case 0:
				dfs(s)
			case 1:
				cyc = true
			}
		}
		color[b] = 2
	}
	dfs(l.Header)
	if cyc {
		return nil, fmt.Errorf("the loop body contains an inner loop")
	}
	own := func(b *ssa.BasicBlock) int {
		n := 0
		for _, in := range b.Instrs {
			if pred(in) {
				n++
			}
		}
		return n
	}
	in := map[*ssa.BasicBlock]*Range{l.Header: {0, 0}}
	// topological order by repeated relaxation (body is a DAG, small)
	changed := true
	for changed {
		changed = false
		for _, b := range l.Fn.Blocks {
			if !l.Blocks[b] || in[b] == nil {
				continue
			}
			o := own(b)
			for _, s := range b.Succs {
				if s == l.Header || !l.Blocks[s] {
					continue
				}
				nr := Range{in[b].Min + o, in[b].Max + o}
				if cur := in[s]; cur == nil {
					in[s] = &nr
					changed = true
				} else {
					if nr.Min < cur.Min {
						cur.Min = nr.Min
						changed = true
					}
					if nr.Max > cur.Max {
						cur.Max = nr.Max
						changed = true
					}
				}
			}
		}
	}
	var edges []NatLoopEdge
	for _, b := range l.Fn.Blocks {
		if !l.Blocks[b] || in[b] == nil {
			continue
		}
		o := own(b)
		for _, s := range b.Succs {
			r := Range{in[b].Min + o, in[b].Max + o}
			if s == l.Header {
				edges = append(edges, NatLoopEdge{From: b, To: s, Back: true, Count: r})
			} else if !l.Blocks[s] {
				if onlyPanics(s) {
					continue
				}
				edges = append(edges, NatLoopEdge{From: b, To: s, Count: r})
			}
		}
		if len(b.Succs) == 0 && !endsInPanic(b) {
			// return inside the loop
			edges = append(edges, NatLoopEdge{From: b, To: nil, Count: Range{in[b].Min + o, in[b].Max + o}})
		}
	}
	return edges, nil
}

func endsInPanic(b *ssa.BasicBlock) bool {
	if len(b.Instrs) == 0 {
		return false
	}
	_, ok := b.Instrs[len(b.Instrs)-1].(*ssa.Panic)
	return ok
}

func onlyPanics(b *ssa.BasicBlock) bool { return endsInPanic(b) && len(b.Succs) == 0 }

// IndexNatLoop is a counted loop `for i := init; i < bound; i++` (for form) or the
// lowering of `for i := range x` (range form: phi starts at -1, the index is phi+1).
type IndexNatLoop struct {
	*NatLoop
	Phi   *ssa.Phi
	Index ssa.Value // the value compared with the bound and used as index in the body
	Bound ssa.Value
	Incl  bool // condition is `index <= bound`
	Range bool
	Inits map[*ssa.BasicBlock]ssa.Value // edge values from outside the loop, by predecessor
	Body  *ssa.BasicBlock
	Exit  *ssa.BasicBlock
}

// IntConstIs reports whether v is the integer constant n.
func IntConstIs(v ssa.Value, n int64) bool {
	c, ok := v.(*ssa.Const)
	if !ok || c.Value == nil || c.Value.Kind() != constant.Int {
		return false
	}
	x, exact := constant.Int64Val(c.Value)
	return exact && x == n
}

func isPlusOne(v ssa.Value, base ssa.Value) bool {
	b, ok := v.(*ssa.BinOp)
	if !ok || b.Op != token.ADD {
		return false
	}
	return (b.X == base && IntConstIs(b.Y, 1)) || (b.Y == base && IntConstIs(b.X, 1))
}

// AsIndexNatLoop classifies a loop as a counted index loop; the error names the reason
// when it is not one.
func (l *NatLoop) AsIndexNatLoop() (*IndexNatLoop, error) {
	h := l.Header
	ifi, ok := h.Instrs[len(h.Instrs)-1].(*ssa.If)
	if !ok {
		return nil, fmt.Errorf("loop header does not end in a condition")
	}
	cmp, ok := ifi.Cond.(*ssa.BinOp)
	if !ok {
		return nil, fmt.Errorf("loop condition %s is not a comparison", Expr(ifi.Cond))
	}
	il := &IndexNatLoop{NatLoop: l, Inits: map[*ssa.BasicBlock]ssa.Value{}}
	var idx, bound ssa.Value
	switch cmp.Op {
	case token.LSS:
		idx, bound = cmp.X, cmp.Y
	case token.LEQ:
		idx, bound, il.Incl = cmp.X, cmp.Y, true
	case token.GTR:
		idx, bound = cmp.Y, cmp.X
	case token.GEQ:
		idx, bound, il.Incl = cmp.Y, cmp.X, true
	default:
		return nil, fmt.Errorf("loop condition %s is not of the form index < bound", Expr(ifi.Cond))
	}
	if !l.Blocks[h.Succs[0]] || l.Blocks[h.Succs[1]] {
		return nil, fmt.Errorf("loop condition %s does not continue the loop on true and leave it on false", Expr(ifi.Cond))
	}
	il.Body, il.Exit = h.Succs[0], h.Succs[1]
	if p, ok := idx.(*ssa.Phi); ok && p.Block() == h {
		il.Phi, il.Index = p, p
	} else if b, ok := idx.(*ssa.BinOp); ok && b.Block() == h {
		if p, ok := b.X.(*ssa.Phi); ok && p.Block() == h && isPlusOne(b, p) {
			il.Phi, il.Index, il.Range = p, b, true
		}
	}
	if il.Phi == nil {
		return nil, fmt.Errorf("the compared value %s is not the loop's induction variable", Expr(idx))
	}
	il.Bound = bound
	for i, e := range il.Phi.Edges {
		p := h.Preds[i]
		if l.Blocks[p] {
			if !isPlusOne(e, il.Phi) {
				return nil, fmt.Errorf("the induction variable is advanced by %s, not by +1", Expr(e))
			}
		} else {
			il.Inits[p] = e
		}
	}
	if il.Range {
		for _, e := range il.Inits {
			if !IntConstIs(e, -1) {
				return nil, fmt.Errorf("range-form loop does not start at the first element")
			}
		}
	}
	// the bound must not change inside the loop: it is defined outside or is len() of something
	return il, nil
}
