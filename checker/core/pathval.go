package core

// Path-sensitive value resolution (K7 along a path): enumerate the acyclic paths that
// start at a block and resolve phi nodes by the edge the path took.

import (
	"golang.org/x/tools/go/ssa"
)

// Path is a sequence of blocks, each a successor of the previous one.
type Path []*ssa.BasicBlock

// AcyclicPaths calls visit for every path from `from` that ends in a block without
// successors (return / panic) and visits no block twice. The walk stops after limit paths
// (returns false when the limit was hit, i.e. the enumeration is incomplete).
func AcyclicPaths(from *ssa.BasicBlock, limit int, visit func(Path)) bool {
	n := 0
	complete := true
	on := map[*ssa.BasicBlock]bool{}
	var path Path
	var walk func(b *ssa.BasicBlock)
	walk = func(b *ssa.BasicBlock) {
		if !complete {
			return
		}
		on[b] = true
		path = append(path, b)
		if len(b.Succs) == 0 {
			n++
			if n > limit {
				complete = false
			} else {
				visit(append(Path(nil), path...))
			}
		} else {
			for _, s := range b.Succs {
				if !on[s] {
					walk(s)
				}
			}
		}
		path = path[:len(path)-1]
		on[b] = false
	}
	walk(from)
	return complete
}

// ResolveOnPath resolves v for an execution that followed path: a phi located in a block
// of the path (not the first one) is replaced by the operand of the edge taken, repeatedly.
// Phis of blocks outside the path, or of the first block, are returned unchanged.
func ResolveOnPath(v ssa.Value, path Path) ssa.Value {
	for i := 0; i < 64; i++ {
		phi, ok := v.(*ssa.Phi)
		if !ok {
			return v
		}
		idx := -1
		for j := len(path) - 1; j >= 1; j-- { // latest occurrence
			if path[j] == phi.Block() {
				idx = j
				break
			}
		}
		if idx < 1 {
			return v
		}
		pred := path[idx-1]
		found := false
		for k, p := range phi.Block().Preds {
			if p == pred && k < len(phi.Edges) {
				v = phi.Edges[k]
				found = true
				break
			}
		}
		if !found {
			return v
		}
		// the operand is evaluated at the end of pred: continue with the prefix of the path
		path = path[:idx]
	}
	return v
}

