package core

import (
	"fmt"
	"go/constant"
	"go/token"
	"go/types"

	"golang.org/x/tools/go/ssa"
)

// Small arithmetic evaluators over SSA expressions (K13 family). They never execute
// repo code: they fold the integer expression DAG of one function over an abstract
// domain and refuse (error) on any operator outside the stated fragment.

// LinForm is c + Σ coef[leaf]·leaf over the mathematical integers.
type LinForm struct {
	Coef  map[string]int64
	Const int64
}

func (l LinForm) String() string {
	s := ""
	for _, k := range SortedKeys(l.Coef) {
		if l.Coef[k] != 0 {
			s += fmt.Sprintf("%+d·%s ", l.Coef[k], k)
		}
	}
	return s + fmt.Sprintf("%+d", l.Const)
}

func intKind(t types.Type) (bits int, signed, ok bool) {
	b, isB := t.Underlying().(*types.Basic)
	if !isB {
		return 0, false, false
	}
	switch b.Kind() {
	case types.Int8:
		return 8, true, true
	case types.Int16:
		return 16, true, true
	case types.Int32:
		return 32, true, true
	case types.Int64, types.Int:
		return 64, true, true
	case types.Uint8:
		return 8, false, true
	case types.Uint16:
		return 16, false, true
	case types.Uint32:
		return 32, false, true
	case types.Uint64, types.Uint, types.Uintptr:
		return 64, false, true
	}
	return 0, false, false
}

// IntKind classifies a basic integer type.
func IntKind(t types.Type) (bits int, signed, ok bool) { return intKind(t) }

// widening reports whether converting from→to preserves every value of `from`.
func widening(from, to types.Type) bool {
	fb, fs, ok1 := intKind(from)
	tb, ts, ok2 := intKind(to)
	if !ok1 || !ok2 {
		return false
	}
	switch {
	case fs == ts:
		return tb >= fb
	case !fs && ts:
		return tb > fb
	}
	return false
}

// Linear folds v into a linear form over the leaves named by leaf. Only constants,
// leaves, + and − and value-preserving (widening) integer conversions are accepted,
// and + / − only in a 64-bit signed type where, for leaves that are 32-bit values
// and small constants, no wrap-around is possible.
func Linear(v ssa.Value, leaf func(ssa.Value) (string, bool)) (LinForm, error) {
	if name, ok := leaf(v); ok {
		return LinForm{Coef: map[string]int64{name: 1}}, nil
	}
	switch x := v.(type) {
	case *ssa.Const:
		if x.Value != nil && x.Value.Kind() == constant.Int {
			if n, ok := constant.Int64Val(x.Value); ok {
				return LinForm{Coef: map[string]int64{}, Const: n}, nil
			}
		}
	case *ssa.Convert:
		if widening(x.X.Type(), x.Type()) {
			return Linear(x.X, leaf)
		}
		return LinForm{}, fmt.Errorf("non value-preserving conversion %s", Expr(x))
	case *ssa.ChangeType:
		return Linear(x.X, leaf)
	case *ssa.BinOp:
		if x.Op != token.ADD && x.Op != token.SUB {
			break
		}
		if bits, signed, ok := intKind(x.Type()); !ok || bits != 64 || !signed {
			return LinForm{}, fmt.Errorf("+/- in a type that can wrap around: %s", Expr(x))
		}
		a, err := Linear(x.X, leaf)
		if err != nil {
			return a, err
		}
		b, err := Linear(x.Y, leaf)
		if err != nil {
			return b, err
		}
		sign := int64(1)
		if x.Op == token.SUB {
			sign = -1
		}
		out := LinForm{Coef: map[string]int64{}, Const: a.Const + sign*b.Const}
		for k, c := range a.Coef {
			out.Coef[k] += c
		}
		for k, c := range b.Coef {
			out.Coef[k] += sign * c
		}
		return out, nil
	}
	return LinForm{}, fmt.Errorf("not a linear expression: %s", Expr(v))
}

// UB is an upper bound K·base + C with K ∈ {0,1} (base is one symbolic non-negative
// quantity chosen by the caller).
type UB struct {
	K int
	C uint64
}

// MonoUpper computes an upper bound of a non-negative integer expression built from
// constants, leaves (bounded by leaf), +, *, `& const`, `>> const` and widening
// conversions. Every accepted operator is monotone non-decreasing in each
// non-negative operand, so the bound is attained when every leaf attains its own
// bound (the caller is responsible for the leaves being independent). Anything
// else is refused.
func MonoUpper(v ssa.Value, leaf func(ssa.Value) (UB, bool)) (UB, error) {
	if b, ok := leaf(v); ok {
		return b, nil
	}
	const lim = uint64(1) << 62
	switch x := v.(type) {
	case *ssa.Const:
		if x.Value != nil && x.Value.Kind() == constant.Int {
			if n, ok := constant.Uint64Val(x.Value); ok {
				return UB{C: n}, nil
			}
		}
	case *ssa.Convert:
		fb, _, ok1 := intKind(x.X.Type())
		tb, _, ok2 := intKind(x.Type())
		if !ok1 || !ok2 {
			break
		}
		b, err := MonoUpper(x.X, leaf)
		if err != nil {
			return b, err
		}
		if tb < fb && (b.K != 0 || (tb < 64 && b.C >= uint64(1)<<uint(tb))) {
			return b, fmt.Errorf("narrowing conversion may truncate: %s", Expr(x))
		}
		return b, nil
	case *ssa.ChangeType:
		return MonoUpper(x.X, leaf)
	case *ssa.BinOp:
		a, err := MonoUpper(x.X, leaf)
		if err != nil {
			return a, err
		}
		switch x.Op {
		case token.ADD, token.MUL:
			b, err := MonoUpper(x.Y, leaf)
			if err != nil {
				return b, err
			}
			if x.Op == token.ADD {
				if a.K+b.K > 1 || a.C >= lim || b.C >= lim {
					return a, fmt.Errorf("bound out of the domain at %s", Expr(x))
				}
				return UB{K: a.K + b.K, C: a.C + b.C}, nil
			}
			if a.K != 0 || b.K != 0 || (a.C != 0 && b.C > (^uint64(0))/a.C) {
				return a, fmt.Errorf("product out of the domain at %s", Expr(x))
			}
			return UB{C: a.C * b.C}, nil
		case token.AND:
			if c, ok := x.Y.(*ssa.Const); ok && c.Value != nil && c.Value.Kind() == constant.Int && a.K == 0 {
				if m, ok := constant.Uint64Val(c.Value); ok {
					if a.C < m {
						m = a.C
					}
					return UB{C: m}, nil
				}
			}
		case token.SHR:
			if c, ok := x.Y.(*ssa.Const); ok && c.Value != nil && c.Value.Kind() == constant.Int && a.K == 0 {
				if s, ok := constant.Uint64Val(c.Value); ok && s < 64 {
					return UB{C: a.C >> s}, nil
				}
			}
		}
	}
	return UB{}, fmt.Errorf("outside the monotone fragment: %s", Expr(v))
}

// MaxIntReturn computes the maximum integer a function can return when every return
// value is a constant, a byte of a constant string (table lookup) converted to an
// integer, or the result of a static call to another such function of the program.
func MaxIntReturn(fn *ssa.Function, depth int) (int64, error) {
	if fn == nil || len(fn.Blocks) == 0 {
		return 0, fmt.Errorf("no body for %s (list its package in Pkgs)", FuncName(fn))
	}
	if depth > 4 {
		return 0, fmt.Errorf("call chain too deep at %s", FuncName(fn))
	}
	have := false
	var max int64
	for _, r := range Returns(fn) {
		if len(r.Results) != 1 {
			return 0, fmt.Errorf("%s does not return a single value", FuncName(fn))
		}
		m, err := maxOfValue(ReturnedValues(r)[0], depth)
		if err != nil {
			return 0, fmt.Errorf("%s: %w", FuncName(fn), err)
		}
		if !have || m > max {
			have, max = true, m
		}
	}
	if !have {
		return 0, fmt.Errorf("%s has no return", FuncName(fn))
	}
	return max, nil
}

func maxOfValue(v ssa.Value, depth int) (int64, error) {
	switch x := v.(type) {
	case *ssa.Const:
		if x.Value != nil && x.Value.Kind() == constant.Int {
			if n, ok := constant.Int64Val(x.Value); ok {
				return n, nil
			}
		}
	case *ssa.Convert:
		return maxOfValue(x.X, depth)
	case *ssa.ChangeType:
		return maxOfValue(x.X, depth)
	case *ssa.Phi:
		var max int64
		for i, e := range x.Edges {
			m, err := maxOfValue(e, depth)
			if err != nil {
				return 0, err
			}
			if i == 0 || m > max {
				max = m
			}
		}
		return max, nil
	case *ssa.Lookup:
		if m, ok := maxByteOfConstString(x.X); ok {
			return m, nil
		}
	case *ssa.Index: // go/ssa emits Index for indexing a constant string
		if m, ok := maxByteOfConstString(x.X); ok {
			return m, nil
		}
	case *ssa.Call:
		if callee, ok := x.Call.Value.(*ssa.Function); ok && !x.Call.IsInvoke() {
			return MaxIntReturn(callee, depth+1)
		}
	}
	return 0, fmt.Errorf("return value %s (%T) is not a constant, a constant-table byte or a call of such a function", Expr(v), v)
}

func maxByteOfConstString(v ssa.Value) (int64, bool) {
	c, ok := v.(*ssa.Const)
	if !ok || c.Value == nil || c.Value.Kind() != constant.String {
		return 0, false
	}
	s := constant.StringVal(c.Value)
	var max int64
	for i := 0; i < len(s); i++ {
		if int64(s[i]) > max {
			max = int64(s[i])
		}
	}
	return max, len(s) > 0
}
