package core

import (
	"go/constant"
	"go/token"
	"go/types"
	"strings"

	"golang.org/x/tools/go/ssa"
)

// K10: string-sink allow-list. A string is "safe" (cannot carry user-controlled text)
// when it is built only from constants, formatted numbers, results of functions all
// of whose returns are safe, and enumerated trusted sources. The analysis is an
// optimistic fixpoint over function summaries (a function's string results are
// assumed safe until a return value is found that is not).

// SafeStrings is the analysis state.
type SafeStrings struct {
	Prog *Prog
	// Trusted reports enumerated trusted sources (configuration, constant tables);
	// it returns a reason or "".
	Trusted func(v ssa.Value) string
	// Escaped recognises the repository's escaping call; such a value is not "safe"
	// by itself — the caller checks that it is written between quote constants.
	Escaped    func(v ssa.Value) bool
	unsafeFn   map[*ssa.Function]bool
	inProgress map[ssa.Value]bool
	callers    map[*ssa.Function][]Site
	escapes    map[*ssa.Function]bool
	Why        map[ssa.Value]string // first reason a value was found unsafe
}

// NewSafeStrings creates the analysis.
func NewSafeStrings(p *Prog) *SafeStrings {
	return &SafeStrings{Prog: p, unsafeFn: map[*ssa.Function]bool{}, Why: map[ssa.Value]string{}}
}

// Solve iterates function summaries for the given functions to a fixpoint.
func (s *SafeStrings) Solve(fns []*ssa.Function) {
	s.callers = map[*ssa.Function][]Site{}
	s.escapes = map[*ssa.Function]bool{}
	for _, fn := range fns {
		for _, b := range fn.Blocks {
			for _, in := range b.Instrs {
				if ci, ok := in.(ssa.CallInstruction); ok {
					if cal := ci.Common().StaticCallee(); cal != nil {
						s.callers[cal] = append(s.callers[cal], Site{Fn: fn, Instr: ci, Callee: FuncName(cal)})
					}
				}
				var ops []*ssa.Value
				for i, op := range in.Operands(ops) {
					if f, ok := (*op).(*ssa.Function); ok {
						if ci, isCall := in.(ssa.CallInstruction); isCall && i == 0 && ci.Common().Value == f {
							continue
						}
						s.escapes[f] = true
					}
				}
			}
		}
	}
	for changed := true; changed; {
		changed = false
		for _, fn := range fns {
			if s.unsafeFn[fn] {
				continue
			}
			if !s.returnsSafe(fn) {
				s.unsafeFn[fn] = true
				changed = true
			}
		}
	}
}

func isStringType(t types.Type) bool {
	b, ok := t.Underlying().(*types.Basic)
	return ok && b.Info()&types.IsString != 0
}

func isNumericOrBool(t types.Type) bool {
	b, ok := t.Underlying().(*types.Basic)
	return ok && b.Info()&(types.IsNumeric|types.IsBoolean) != 0
}

func (s *SafeStrings) returnsSafe(fn *ssa.Function) bool {
	if len(fn.Blocks) == 0 {
		return false
	}
	for _, r := range Returns(fn) {
		for _, v := range ReturnedValues(r) {
			if isStringType(v.Type()) && !s.Safe(v) {
				return false
			}
		}
	}
	return true
}

// Safe reports whether a string-typed (or formatted) value is safe.
func (s *SafeStrings) Safe(v ssa.Value) bool {
	if s.inProgress == nil {
		s.inProgress = map[ssa.Value]bool{}
	}
	if s.inProgress[v] {
		return true // optimistic on cycles (loop-carried phi)
	}
	s.inProgress[v] = true
	defer delete(s.inProgress, v)
	ok, why := s.safe(v)
	if !ok {
		if _, has := s.Why[v]; !has {
			s.Why[v] = why
		}
	}
	return ok
}

func (s *SafeStrings) safe(v ssa.Value) (bool, string) {
	if s.Trusted != nil {
		if r := s.Trusted(v); r != "" {
			return true, ""
		}
	}
	if isNumericOrBool(v.Type()) {
		return true, ""
	}
	switch x := v.(type) {
	case *ssa.Const:
		return true, ""
	case *ssa.Parameter:
		// a string parameter is safe when every static call site passes a safe value
		// and the function never escapes as a value (then all its callers are known)
		fn := x.Parent()
		if fn == nil || s.callers == nil {
			break
		}
		idx := -1
		for i, p := range fn.Params {
			if p == x {
				idx = i
			}
		}
		if s.escapes[fn] || idx < 0 || len(s.callers[fn]) == 0 {
			return false, "parameter of " + FuncName(fn) + " whose callers are not all known"
		}
		for _, site := range s.callers[fn] {
			a := site.Arg(idx)
			if a == nil || !s.Safe(a) {
				return false, "parameter of " + FuncName(fn) + " receives " + Expr(a) + " in " + FuncName(site.Fn) + ": " + s.Why[a]
			}
		}
		return true, ""
	case *ssa.Phi:
		for _, e := range x.Edges {
			if !s.Safe(e) {
				return false, "phi edge " + Expr(e) + ": " + s.Why[e]
			}
		}
		return true, ""
	case *ssa.BinOp:
		if x.Op == token.ADD {
			if !s.Safe(x.X) {
				return false, s.Why[x.X]
			}
			if !s.Safe(x.Y) {
				return false, s.Why[x.Y]
			}
			return true, ""
		}
	case *ssa.MakeInterface:
		return s.safeWrap(x.X)
	case *ssa.ChangeType:
		return s.safeWrap(x.X)
	case *ssa.Convert:
		// string(int) / string([]byte): numbers are fine, byte slices are not tracked
		if isNumericOrBool(x.X.Type()) {
			return true, ""
		}
		if isStringType(x.X.Type()) {
			return s.safeWrap(x.X)
		}
		return false, "conversion from " + x.X.Type().String()
	case *ssa.Extract:
		if call, ok := x.Tuple.(*ssa.Call); ok {
			return s.safeCall(call, x.Index)
		}
	case *ssa.Call:
		return s.safeCall(x, 0)
	case *ssa.UnOp:
		if x.Op == token.MUL {
			// load of a local cell: every store must be safe
			if a, ok := x.X.(*ssa.Alloc); ok {
				for _, st := range CellStores(a) {
					if !s.Safe(st.Val) {
						return false, "local assigned " + Expr(st.Val) + ": " + s.Why[st.Val]
					}
				}
				return true, ""
			}
			if g, ok := x.X.(*ssa.Global); ok {
				return false, "global " + g.Name() + " is not an enumerated trusted source"
			}
		}
	}
	return false, "value " + Expr(v) + " is not a constant, a formatted number, a safe producer or a trusted source"
}

func (s *SafeStrings) safeWrap(v ssa.Value) (bool, string) {
	if s.Safe(v) {
		return true, ""
	}
	return false, s.Why[v]
}

// VarargValues returns the values stored into a variadic `[]any` argument slice.
func VarargValues(slice ssa.Value) ([]ssa.Value, bool) {
	sl, ok := slice.(*ssa.Slice)
	if !ok {
		if c, isC := slice.(*ssa.Const); isC && c.Value == nil {
			return nil, true // no variadic arguments
		}
		return nil, false
	}
	arr, ok := sl.X.(*ssa.Alloc)
	if !ok {
		return nil, false
	}
	var out []ssa.Value
	for _, r := range Referrers(arr) {
		ia, ok := r.(*ssa.IndexAddr)
		if !ok {
			continue
		}
		for _, rr := range Referrers(ia) {
			if st, ok := rr.(*ssa.Store); ok && st.Addr == ia {
				out = append(out, st.Val)
			}
		}
	}
	return out, true
}

func (s *SafeStrings) safeCall(call *ssa.Call, result int) (bool, string) {
	name := CalleeName(&call.Call)
	switch name {
	case "fmt.Sprint", "fmt.Sprintf", "fmt.Sprintln":
		args := call.Call.Args
		if name == "fmt.Sprintf" {
			if k, ok := args[0].(*ssa.Const); !ok || k.Value == nil || k.Value.Kind() != constant.String {
				return false, "non-constant format string"
			}
			args = args[1:]
		}
		vals, ok := VarargValues(args[len(args)-1])
		if !ok {
			return false, "cannot resolve variadic arguments of " + name
		}
		for _, a := range vals {
			if !s.Safe(a) {
				return false, name + " argument " + Expr(a) + ": " + s.Why[a]
			}
		}
		return true, ""
	case "strconv.Itoa", "strconv.FormatInt", "strconv.FormatUint", "strconv.FormatFloat", "strconv.FormatBool", "strconv.Quote":
		if name == "strconv.Quote" {
			return false, "strconv.Quote is Go quoting, not the storage's"
		}
		return true, ""
	case "strings.Join":
		// safe when the joined slice is built only from safe elements: not tracked
		return false, "strings.Join of an untracked slice"
	}
	if fn := call.Call.StaticCallee(); fn != nil && len(fn.Blocks) > 0 {
		if s.unsafeFn[fn] {
			return false, "callee " + FuncName(fn) + " may return a string that is not safe"
		}
		// optimistic: summary not refuted (Solve iterates to the fixpoint)
		return true, ""
	}
	if strings.HasPrefix(name, "invoke ") {
		return false, "dynamic call " + name
	}
	return false, "result of " + name + " (no body available / not an enumerated safe producer)"
}
