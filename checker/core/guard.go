package core

import (
	"go/token"
	"strings"

	"golang.org/x/tools/go/ssa"
)

// Lit is a branch condition with the polarity under which an edge is taken,
// normalised so that only the operators == and < occur:
//
//	a != b  true   ≡  (a == b) false
//	a >= b  true   ≡  (a < b)  false
//	a >  b  true   ≡  (b < a)  true
//	a <= b  true   ≡  (b < a)  false
//	!x      true   ≡  x        false
type Lit struct {
	Cond ssa.Value // original condition value
	Text string    // canonical text after normalisation
	Pol  bool
	// For normalised comparisons: operands after normalisation (nil otherwise).
	Op   token.Token
	X, Y ssa.Value
}

// Guard is a disjunction of literals that is known to hold on entry to Block
// (one literal per incoming edge).
type Guard struct {
	Alts  []Lit
	Block *ssa.BasicBlock
}

func (g Guard) String() string {
	parts := make([]string, len(g.Alts))
	for i, l := range g.Alts {
		parts[i] = l.String()
	}
	return strings.Join(parts, " || ")
}

func (l Lit) String() string {
	if l.Pol {
		return l.Text
	}
	return "!" + l.Text
}

// NormLit normalises a condition value taken with the given polarity.
func NormLit(cond ssa.Value, pol bool) Lit {
	for {
		if u, ok := cond.(*ssa.UnOp); ok && u.Op == token.NOT {
			cond = u.X
			pol = !pol
			continue
		}
		break
	}
	l := Lit{Cond: cond, Pol: pol}
	if b, ok := cond.(*ssa.BinOp); ok {
		x, y, op := b.X, b.Y, b.Op
		switch op {
		case token.NEQ:
			op, l.Pol = token.EQL, !l.Pol
		case token.GEQ:
			op, l.Pol = token.LSS, !l.Pol
		case token.GTR:
			op, x, y = token.LSS, y, x
		case token.LEQ:
			op, x, y, l.Pol = token.LSS, y, x, !l.Pol
		}
		if op == token.EQL {
			if _, xc := x.(*ssa.Const); xc {
				if _, yc := y.(*ssa.Const); !yc {
					x, y = y, x
				}
			}
		}
		if op == token.EQL || op == token.LSS {
			l.Op, l.X, l.Y = op, x, y
			l.Text = "(" + Expr(x) + " " + op.String() + " " + Expr(y) + ")"
			return l
		}
	}
	l.Text = Expr(cond)
	return l
}

// edgeLit returns the literal that holds when control goes from pred to b.
func edgeLit(pred, b *ssa.BasicBlock) (Lit, bool) {
	if len(pred.Instrs) == 0 {
		return Lit{}, false
	}
	ifi, ok := pred.Instrs[len(pred.Instrs)-1].(*ssa.If)
	if !ok || len(pred.Succs) != 2 || pred.Succs[0] == pred.Succs[1] {
		return Lit{}, false
	}
	if pred.Succs[0] == b {
		return NormLit(ifi.Cond, true), true
	}
	if pred.Succs[1] == b {
		return NormLit(ifi.Cond, false), true
	}
	return Lit{}, false
}

// Facts returns the guards known to hold whenever block b executes: for b and
// every dominator D of b whose incoming edges are all branch edges, the disjunction
// of the edge conditions.
func Facts(b *ssa.BasicBlock) []Guard {
	var out []Guard
	for d := b; d != nil; d = d.Idom() {
		if len(d.Preds) == 0 {
			continue
		}
		g := Guard{Block: d}
		ok := true
		for _, p := range d.Preds {
			l, has := edgeLit(p, d)
			if !has {
				ok = false
				break
			}
			g.Alts = append(g.Alts, l)
		}
		if ok {
			out = append(out, g)
		}
	}
	return out
}

// Cond is a (pattern, polarity) requirement on a guard literal.
type Cond struct {
	Pat string // glob over Lit.Text
	Pol bool
}

// T and F build conditions.
func T(pat string) Cond { return Cond{pat, true} }
func F(pat string) Cond { return Cond{pat, false} }

func (c Cond) String() string {
	if c.Pol {
		return c.Pat
	}
	return "!" + c.Pat
}

func (c Cond) matches(l Lit) bool { return l.Pol == c.Pol && Glob(c.Pat, l.Text) }

// Holds reports whether the condition is established at block b: some guard on
// the dominator chain has all its alternatives matching it.
func Holds(b *ssa.BasicBlock, c Cond) bool {
	for _, g := range Facts(b) {
		all := len(g.Alts) > 0
		for _, l := range g.Alts {
			if !c.matches(l) {
				all = false
				break
			}
		}
		if all {
			return true
		}
	}
	return false
}

// HoldsAnyOf reports whether some guard has every alternative matching at least
// one of the conditions (a disjunctive requirement).
func HoldsAnyOf(b *ssa.BasicBlock, cs ...Cond) bool {
	for _, g := range Facts(b) {
		all := len(g.Alts) > 0
		for _, l := range g.Alts {
			m := false
			for _, c := range cs {
				if c.matches(l) {
					m = true
					break
				}
			}
			if !m {
				all = false
				break
			}
		}
		if all {
			return true
		}
	}
	return false
}

// HoldsAll reports whether every condition is established at b; missing lists the others.
func HoldsAll(b *ssa.BasicBlock, cs ...Cond) (missing []Cond) {
	for _, c := range cs {
		if !Holds(b, c) {
			missing = append(missing, c)
		}
	}
	return missing
}

// FactsString renders the facts at a block for diagnostics.
func FactsString(b *ssa.BasicBlock) string {
	fs := Facts(b)
	parts := make([]string, len(fs))
	for i, g := range fs {
		parts[i] = g.String()
	}
	return strings.Join(parts, " && ")
}

// FindLit returns the first literal on the dominator chain (single-alternative
// guards only) matching the condition; used when the rule needs the SSA operands.
func FindLit(b *ssa.BasicBlock, c Cond) (Lit, bool) {
	for _, g := range Facts(b) {
		if len(g.Alts) == 1 && c.matches(g.Alts[0]) {
			return g.Alts[0], true
		}
	}
	return Lit{}, false
}
