package core

// Extractor of sequential codec shapes (K3 sequential). It walks a codec function's AST
// in statement order, resolving callees, variables and constants through types.Info
// (never by name or text), and emits the token string defined in codecshape.go.
// Anything that touches the stream and is not in the idiom table below is reported as
// an issue (the caller turns it into an "undecided" obligation).
//
// Idiom table
//
//	writers over a []byte stream S (append style):
//	  S = append(S, b...)                    U8 / K8(c) per byte argument
//	  S = append(S, scratch[lo:hi]...)       the tokens last put into the scratch array
//	  S = append(S, x...)                    RAW (x string or []byte that is not a scratch array)
//	  S = binary.LittleEndian.AppendUintN(S, v), binary.AppendUvarint(S, v)
//	  S = f(S, …) / S = x.M(S, …) / S = closureVar(S, …)   inlined (module function with source)
//	  return <any of the above> / return S
//	writers over an io.Writer-like stream: S.Write(scratch[lo:hi])
//	scratch arrays ([N]byte locals): binary.LittleEndian.PutUintN(scratch[a:], v),
//	  n := binary.PutUvarint(scratch[:], v), scratch[c] = b;  math.Float32bits/Float64bits
//	  as the value turn U32/U64 into F32/F64
//	readers over S: S.ReadByte(), binary.ReadUvarint(S), S.Read(scratch[:]) /
//	  S.ReadFull(scratch[:]) / io.ReadFull(S, scratch[:]) followed by
//	  binary.LittleEndian.UintN(scratch[a:b]) pieces (optionally inside math.FloatNNfrombits),
//	  helper(S) / x.M(S, …) inlined; a helper made of k ReadByte calls whose result is the
//	  little-endian composition of them collapses to U(8k); FloatNNfrombits(helper) to FNN
//	control flow: if → OPT/ALT (continuation duplicated when a branch returns/continues),
//	  `if err != nil { return …err }`, `return fmt.Errorf/errors.New` are reject exits and
//	  not part of the shape, constant conditions are folded, for/range → STAR,
//	  `for i := 0; i < conv(v); i++` with v a decoded, never reassigned value → counted STAR.

import (
	"fmt"
	"go/ast"
	"go/constant"
	"go/token"
	"go/types"
	"sort"

	"golang.org/x/tools/go/packages"
	"golang.org/x/tools/go/types/typeutil"
)

// ShapeMode selects the direction of the codec.
type ShapeMode int

const (
	ShapeWriter ShapeMode = iota
	ShapeReader
)

type shapeDecl struct {
	pkg  *packages.Package
	typ  *ast.FuncType
	body *ast.BlockStmt
	name string
}

// ShapeExtractor extracts codec shapes from the loaded program.
type ShapeExtractor struct {
	prog   *Prog
	decls  map[string]*shapeDecl
	Issues []ShapeIssue
	active map[string]bool
	// Inlined lists the module functions whose shapes were spliced into the last result.
	Inlined map[string]bool
}

// NewShapeExtractor indexes the function declarations of the root packages.
func NewShapeExtractor(p *Prog) *ShapeExtractor {
	x := &ShapeExtractor{prog: p, decls: map[string]*shapeDecl{}, active: map[string]bool{}, Inlined: map[string]bool{}}
	for _, pk := range p.AllPkgs {
		if pk.TypesInfo == nil {
			continue
		}
		for _, f := range pk.Syntax {
			for _, d := range f.Decls {
				fd, ok := d.(*ast.FuncDecl)
				if !ok || fd.Body == nil {
					continue
				}
				if fn, ok := pk.TypesInfo.Defs[fd.Name].(*types.Func); ok {
					x.decls[fn.FullName()] = &shapeDecl{pkg: pk, typ: fd.Type, body: fd.Body, name: fn.FullName()}
				}
			}
		}
	}
	return x
}

// Extract computes the normalised shape of the function pkgRel.name ("(*T).M" or "F").
// param is the index of the stream parameter (receiver not counted), -1 = the first
// parameter. ok=false when the function does not resolve.
func (x *ShapeExtractor) Extract(pkgRel, name string, mode ShapeMode, param int) (ShapeSeq, bool) {
	fd, pk := x.prog.FuncDecl(pkgRel, name)
	if fd == nil || pk == nil || fd.Body == nil {
		return nil, false
	}
	fn, _ := pk.TypesInfo.Defs[fd.Name].(*types.Func)
	if fn == nil {
		return nil, false
	}
	d := x.decls[fn.FullName()]
	if d == nil {
		return nil, false
	}
	if param < 0 {
		param = 0
	}
	s := x.inline(d, d.body, param, mode, fd.Pos())
	return Normalize(s, &x.Issues), true
}

func (x *ShapeExtractor) issue(pos token.Pos, format string, a ...any) {
	x.Issues = append(x.Issues, ShapeIssue{Pos: pos, Msg: fmt.Sprintf(format, a...)})
}

func paramObj(info *types.Info, ft *ast.FuncType, idx int) types.Object {
	i := 0
	for _, f := range ft.Params.List {
		if len(f.Names) == 0 {
			i++
			continue
		}
		for _, n := range f.Names {
			if i == idx {
				return info.Defs[n]
			}
			i++
		}
	}
	return nil
}

// inline extracts the shape of one function body with the given stream parameter.
func (x *ShapeExtractor) inline(d *shapeDecl, outer *ast.BlockStmt, param int, mode ShapeMode, at token.Pos) ShapeSeq {
	key := fmt.Sprintf("%s/%d/%p", d.name, param, d.body)
	if x.active[key] {
		x.issue(at, "recursive codec function %s", d.name)
		return nil
	}
	x.active[key] = true
	defer delete(x.active, key)
	info := d.pkg.TypesInfo
	stream := paramObj(info, d.typ, param)
	if stream == nil {
		x.issue(at, "stream parameter #%d of %s has no name/object", param, d.name)
		return nil
	}
	f := &fnCtx{x: x, pkg: d.pkg, info: info, mode: mode, stream: stream, outer: outer, name: d.name}
	if _, isSlice := stream.Type().Underlying().(*types.Slice); !isSlice && mode == ShapeWriter {
		f.ioW = true
	}
	if d.typ.Results != nil && len(d.typ.Results.List) > 0 {
		last := d.typ.Results.List[len(d.typ.Results.List)-1]
		if isErrorType(info.TypeOf(last.Type)) {
			f.errRes = true
		}
	}
	end := func(*st) sres { return sres{} }
	r := f.seq(d.body.List, newSt(), false, end)
	seq := r.seq
	if mode == ShapeReader {
		seq = f.collapse(Normalize(seq, &x.Issues))
	}
	return seq
}

func isErrorType(t types.Type) bool {
	return t != nil && types.Identical(t, types.Universe.Lookup("error").Type())
}

// ---- per-function context ------------------------------------------------------------

type fnCtx struct {
	x      *ShapeExtractor
	pkg    *packages.Package
	info   *types.Info
	mode   ShapeMode
	ioW    bool
	stream types.Object
	errRes bool
	outer  *ast.BlockStmt // body of the enclosing declared function (closure lookup, reassignment scans)
	name   string
	rets   []ast.Expr // first result of the accepting returns (readers)
	exits  int        // accepting returns / continues evaluated so far
}

type fill struct {
	off, width int
	kind       string       // U8 K8 U16 U32 U64 F32 F64 UVARINT
	n          int          // K8 value
	lenObj     types.Object // UVARINT: variable holding the encoded length
}

type st struct {
	fills  map[types.Object][]fill
	pend   map[types.Object]*ShapeNode
	vals   map[types.Object]*ShapeNode
	nonNil map[types.Object]bool
}

func newSt() *st {
	return &st{fills: map[types.Object][]fill{}, pend: map[types.Object]*ShapeNode{}, vals: map[types.Object]*ShapeNode{}, nonNil: map[types.Object]bool{}}
}

func (s *st) copy() *st {
	n := newSt()
	for k, v := range s.fills {
		n.fills[k] = append([]fill{}, v...)
	}
	for k, v := range s.pend {
		n.pend[k] = v
	}
	for k, v := range s.vals {
		n.vals[k] = v
	}
	for k, v := range s.nonNil {
		n.nonNil[k] = v
	}
	return n
}

type sres struct {
	seq  ShapeSeq
	dead bool
}

func cat(a ShapeSeq, b sres) sres {
	if b.dead {
		return b
	}
	return sres{seq: append(append(ShapeSeq{}, a...), b.seq...)}
}

func (f *fnCtx) obj(id *ast.Ident) types.Object {
	if o := f.info.Uses[id]; o != nil {
		return o
	}
	return f.info.Defs[id]
}

func (f *fnCtx) isStream(e ast.Expr) (*ast.Ident, bool) {
	for {
		p, ok := e.(*ast.ParenExpr)
		if !ok {
			break
		}
		e = p.X
	}
	id, ok := e.(*ast.Ident)
	if ok && f.obj(id) == f.stream {
		return id, true
	}
	return nil, false
}

// mentions lists the identifiers in n that refer to the stream (function literals are
// not entered: they have their own parameters; a captured stream is reported).
func (f *fnCtx) mentions(n ast.Node) []*ast.Ident {
	var out []*ast.Ident
	if n == nil {
		return nil
	}
	ast.Inspect(n, func(m ast.Node) bool {
		if id, ok := m.(*ast.Ident); ok && f.obj(id) == f.stream {
			out = append(out, id)
		}
		return true
	})
	return out
}

func containsJump(n ast.Node) bool {
	found := false
	if n == nil {
		return false
	}
	ast.Inspect(n, func(m ast.Node) bool {
		switch m.(type) {
		case *ast.FuncLit:
			return false
		case *ast.ReturnStmt, *ast.BranchStmt:
			found = true
		}
		return !found
	})
	return found
}

// invalidate forgets the scratch state of every array mentioned inside n.
func (f *fnCtx) invalidate(s *st, n ast.Node) *st {
	c := s.copy()
	ast.Inspect(n, func(m ast.Node) bool {
		if id, ok := m.(*ast.Ident); ok {
			if o := f.obj(id); o != nil {
				delete(c.fills, o)
				delete(c.pend, o)
			}
		}
		return true
	})
	return c
}

// ---- statements ----------------------------------------------------------------------

func (f *fnCtx) seq(stmts []ast.Stmt, s *st, inLoop bool, k func(*st) sres) sres {
	if len(stmts) == 0 {
		return k(s)
	}
	head, rest := stmts[0], stmts[1:]
	next := func(s2 *st) sres { return f.seq(rest, s2, inLoop, k) }
	switch h := head.(type) {
	case *ast.BlockStmt:
		return f.seq(append(append([]ast.Stmt{}, h.List...), rest...), s, inLoop, k)
	case *ast.EmptyStmt:
		return next(s)
	case *ast.ReturnStmt:
		return f.ret(h, s, inLoop)
	case *ast.BranchStmt:
		if h.Tok == token.CONTINUE && h.Label == nil && inLoop {
			f.exits++
			return sres{}
		}
		f.x.issue(h.Pos(), "%s: `%s` in a codec function is not in the idiom table", f.name, h.Tok)
		return sres{dead: true}
	case *ast.IfStmt:
		return f.ifStmt(h, s, inLoop, next)
	case *ast.ForStmt:
		if len(f.mentions(h)) == 0 && !containsReturn(h) {
			return next(f.invalidate(s, h))
		}
		var pre ShapeSeq
		s1 := s
		if h.Init != nil {
			pre, s1 = f.simple(h.Init, s)
		}
		if len(f.mentions(h.Cond)) > 0 || len(f.mentions(h.Post)) > 0 {
			f.x.issue(h.Pos(), "%s: loop condition/post statement touches the stream", f.name)
		}
		body := f.seq(h.Body.List, s1.copy(), true, func(*st) sres { return sres{} })
		star := &ShapeNode{Kind: "STAR", Sub: []ShapeSeq{body.seq}}
		f.loopCount(h, s1, star)
		return cat(append(pre, star), next(f.invalidate(s1, h)))
	case *ast.RangeStmt:
		if len(f.mentions(h)) == 0 && !containsReturn(h) {
			return next(f.invalidate(s, h))
		}
		if len(f.mentions(h.X)) > 0 {
			f.x.issue(h.Pos(), "%s: range expression touches the stream", f.name)
		}
		body := f.seq(h.Body.List, s.copy(), true, func(*st) sres { return sres{} })
		star := &ShapeNode{Kind: "STAR", Sub: []ShapeSeq{body.seq}, Ext: true}
		return cat(ShapeSeq{star}, next(f.invalidate(s, h)))
	case *ast.ExprStmt, *ast.AssignStmt, *ast.DeclStmt, *ast.IncDecStmt:
		toks, s2 := f.simple(head, s)
		return cat(toks, next(s2))
	default:
		if len(f.mentions(head)) > 0 || containsJump(head) {
			f.x.issue(head.Pos(), "%s: %T touches the stream or leaves the function and is not in the idiom table", f.name, head)
		}
		return next(f.invalidate(s, head))
	}
}

func containsReturn(n ast.Node) bool {
	found := false
	ast.Inspect(n, func(m ast.Node) bool {
		switch m.(type) {
		case *ast.FuncLit:
			return false
		case *ast.ReturnStmt:
			found = true
		}
		return !found
	})
	return found
}

func (f *fnCtx) constBool(e ast.Expr) (val, isConst bool) {
	tv, ok := f.info.Types[e]
	if ok && tv.Value != nil && tv.Value.Kind() == constant.Bool {
		return constant.BoolVal(tv.Value), true
	}
	return false, false
}

// errNonNil recognises `x != nil` with x an identifier of type error.
func (f *fnCtx) errNonNil(e ast.Expr) types.Object {
	b, ok := e.(*ast.BinaryExpr)
	if !ok || b.Op != token.NEQ {
		return nil
	}
	x, y := b.X, b.Y
	if id, ok := x.(*ast.Ident); ok && id.Name == "nil" && f.info.Types[x].IsNil() {
		x, y = y, x
	}
	if tv, ok := f.info.Types[y]; !ok || !tv.IsNil() {
		return nil
	}
	id, ok := x.(*ast.Ident)
	if !ok || !isErrorType(f.info.TypeOf(id)) {
		return nil
	}
	return f.obj(id)
}

func (f *fnCtx) ifStmt(h *ast.IfStmt, s *st, inLoop bool, next func(*st) sres) sres {
	var pre ShapeSeq
	s1 := s
	if h.Init != nil {
		pre, s1 = f.simple(h.Init, s)
	}
	if len(f.mentions(h.Cond)) > 0 {
		f.x.issue(h.Cond.Pos(), "%s: if-condition touches the stream", f.name)
	} else if f.mode == ShapeReader {
		_, s1 = f.simpleOps(h.Cond, s1) // typed views of a scratch array inside the condition
	}
	elseList := func() []ast.Stmt {
		if h.Else == nil {
			return nil
		}
		return []ast.Stmt{h.Else}
	}
	if v, isConst := f.constBool(h.Cond); isConst {
		if v {
			return cat(pre, f.seq(h.Body.List, s1, inLoop, next))
		}
		return cat(pre, f.seq(elseList(), s1, inLoop, next))
	}
	bodySt := s1.copy()
	if o := f.errNonNil(h.Cond); o != nil {
		bodySt.nonNil[o] = true
	}
	// Probe the branches on their own: when no path inside them accepts early (accepting
	// return / continue) the statement composes as OPT/ALT followed by the rest, and
	// branches all of whose paths reject contribute nothing.
	{
		inval := func() *st {
			c := f.invalidate(s1, h.Body)
			if h.Else != nil {
				c = f.invalidate(c, h.Else)
			}
			return c
		}
		end := func(*st) sres { return sres{} }
		exits0, issues0, rets0 := f.exits, len(f.x.Issues), len(f.rets)
		a := f.seq(h.Body.List, bodySt.copy(), inLoop, end)
		b := sres{}
		if h.Else != nil {
			b = f.seq(elseList(), s1.copy(), inLoop, end)
		}
		if f.exits == exits0 {
			var node *ShapeNode
			switch {
			case a.dead && b.dead:
				return sres{dead: true}
			case a.dead:
				return cat(append(pre, b.seq...), next(inval()))
			case b.dead:
				return cat(append(pre, a.seq...), next(inval()))
			case h.Else == nil:
				node = &ShapeNode{Kind: "OPT", Sub: []ShapeSeq{a.seq}}
			default:
				node = &ShapeNode{Kind: "ALT", Sub: []ShapeSeq{a.seq, b.seq}}
			}
			return cat(append(pre, node), next(inval()))
		}
		f.exits = exits0
		f.x.Issues = f.x.Issues[:issues0] // the branches are evaluated again below
		f.rets = f.rets[:rets0]
	}
	after := func(s2 *st) sres {
		c := s2.copy()
		c.nonNil = map[types.Object]bool{}
		return next(c)
	}
	a := f.seq(h.Body.List, bodySt, inLoop, after)
	var b sres
	if h.Else != nil {
		b = f.seq(elseList(), s1.copy(), inLoop, next)
	} else {
		b = next(s1.copy())
	}
	switch {
	case a.dead && b.dead:
		return sres{dead: true}
	case a.dead:
		return cat(pre, b)
	case b.dead:
		return cat(pre, a)
	}
	return sres{seq: append(pre, &ShapeNode{Kind: "ALT", Sub: []ShapeSeq{a.seq, b.seq}})}
}

// ret classifies a return statement: reject exits are dead paths, accepting returns end
// the path with the tokens of their result expressions.
func (f *fnCtx) ret(h *ast.ReturnStmt, s *st, inLoop bool) sres {
	reject := false
	if f.errRes {
		if len(h.Results) == 0 {
			f.x.issue(h.Pos(), "%s: bare return in a function with an error result cannot be classified", f.name)
			return sres{dead: true}
		}
		last := h.Results[len(h.Results)-1]
		for {
			p, ok := last.(*ast.ParenExpr)
			if !ok {
				break
			}
			last = p.X
		}
		switch e := last.(type) {
		case *ast.Ident:
			if tv := f.info.Types[e]; tv.IsNil() {
				break
			}
			if o := f.obj(e); o != nil && s.nonNil[o] {
				reject = true
			}
		case *ast.CallExpr:
			if fn, ok := typeutil.Callee(f.info, e).(*types.Func); ok && (fn.FullName() == "fmt.Errorf" || fn.FullName() == "errors.New") {
				reject = true
			}
		}
	}
	if reject {
		for _, r := range h.Results {
			if len(f.mentions(r)) > 0 {
				f.x.issue(h.Pos(), "%s: a rejecting return touches the stream", f.name)
			}
		}
		return sres{dead: true}
	}
	var toks ShapeSeq
	if f.mode == ShapeWriter && !f.ioW {
		found := false
		for _, r := range h.Results {
			if t := f.info.TypeOf(r); t != nil && types.Identical(t.Underlying(), f.stream.Type().Underlying()) && len(f.mentions(r)) > 0 {
				consumed := map[*ast.Ident]bool{}
				toks = append(toks, f.streamExpr(r, s, consumed)...)
				found = true
			} else if len(f.mentions(r)) > 0 {
				f.x.issue(r.Pos(), "%s: return value touches the stream in an unknown way", f.name)
			}
		}
		if !found {
			f.x.issue(h.Pos(), "%s: return does not yield the stream", f.name)
		}
	} else {
		t, _ := f.simpleOps(h, s)
		toks = t
		if f.mode == ShapeReader && len(h.Results) >= 1 {
			dup := false
			for _, r := range f.rets {
				if r == h.Results[0] {
					dup = true
				}
			}
			if !dup {
				f.rets = append(f.rets, h.Results[0])
			}
		}
	}
	f.exits++
	if inLoop {
		f.x.issue(h.Pos(), "%s: accepting return inside a loop (early exit of a repetition) is not in the idiom table", f.name)
		return sres{dead: true}
	}
	return sres{seq: toks}
}

// loopCount recognises `for i := 0; i < conv(v); i++` with v bound to a decoded token.
func (f *fnCtx) loopCount(h *ast.ForStmt, s *st, star *ShapeNode) {
	star.Ext = true
	if h.Cond != nil {
		ast.Inspect(h.Cond, func(m ast.Node) bool {
			if id, ok := m.(*ast.Ident); ok {
				if o := f.obj(id); o != nil && s.vals[o] != nil {
					star.Ext = false
				}
			}
			return true
		})
	}
	init, ok := h.Init.(*ast.AssignStmt)
	if !ok || init.Tok != token.DEFINE || len(init.Lhs) != 1 || len(init.Rhs) != 1 {
		return
	}
	iv, ok := init.Lhs[0].(*ast.Ident)
	if !ok {
		return
	}
	iobj := f.info.Defs[iv]
	if tv := f.info.Types[init.Rhs[0]]; tv.Value == nil || constant.Sign(tv.Value) != 0 {
		return
	}
	cond, ok := h.Cond.(*ast.BinaryExpr)
	if !ok || cond.Op != token.LSS {
		return
	}
	if id, ok := cond.X.(*ast.Ident); !ok || f.obj(id) != iobj {
		return
	}
	post, ok := h.Post.(*ast.IncDecStmt)
	if !ok || post.Tok != token.INC {
		return
	}
	if id, ok := post.X.(*ast.Ident); !ok || f.obj(id) != iobj {
		return
	}
	bound := cond.Y
	for {
		switch b := bound.(type) {
		case *ast.ParenExpr:
			bound = b.X
			continue
		case *ast.CallExpr:
			if tv := f.info.Types[b.Fun]; tv.IsType() && len(b.Args) == 1 {
				bound = b.Args[0]
				continue
			}
		}
		break
	}
	id, ok := bound.(*ast.Ident)
	if !ok {
		return
	}
	vobj := f.obj(id)
	tok := s.vals[vobj]
	if tok == nil {
		return
	}
	if f.assignments(vobj) > 1 || f.assignmentsIn(h.Body, iobj) > 0 {
		return
	}
	star.Count = tok
}

// assignments counts the statements of the enclosing function that assign to obj.
func (f *fnCtx) assignments(o types.Object) int { return f.assignmentsIn(f.outer, o) }

func (f *fnCtx) assignmentsIn(n ast.Node, o types.Object) int {
	cnt := 0
	ast.Inspect(n, func(m ast.Node) bool {
		switch a := m.(type) {
		case *ast.AssignStmt:
			for _, l := range a.Lhs {
				if id, ok := l.(*ast.Ident); ok && f.obj(id) == o {
					cnt++
				}
			}
		case *ast.IncDecStmt:
			if id, ok := a.X.(*ast.Ident); ok && f.obj(id) == o {
				cnt++
			}
		case *ast.RangeStmt:
			for _, l := range []ast.Expr{a.Key, a.Value} {
				if id, ok := l.(*ast.Ident); ok && f.obj(id) == o {
					cnt++
				}
			}
		case *ast.UnaryExpr:
			if a.Op == token.AND {
				if id, ok := a.X.(*ast.Ident); ok && f.obj(id) == o {
					cnt += 2 // address taken: may be written elsewhere
				}
			}
		}
		return true
	})
	return cnt
}

// ---- simple statements ---------------------------------------------------------------

func (f *fnCtx) scratchOf(e ast.Expr) (types.Object, int) {
	id, ok := e.(*ast.Ident)
	if !ok {
		return nil, 0
	}
	o := f.obj(id)
	if o == nil {
		return nil, 0
	}
	arr, ok := o.Type().Underlying().(*types.Array)
	if !ok {
		return nil, 0
	}
	if b, ok := arr.Elem().Underlying().(*types.Basic); !ok || b.Kind() != types.Uint8 {
		return nil, 0
	}
	return o, int(arr.Len())
}

func (f *fnCtx) constInt(e ast.Expr) (int, bool) {
	if e == nil {
		return 0, false
	}
	tv, ok := f.info.Types[e]
	if !ok || tv.Value == nil {
		return 0, false
	}
	v, exact := constant.Int64Val(constant.ToInt(tv.Value))
	return int(v), exact
}

func (f *fnCtx) callee(c *ast.CallExpr) string {
	if fn, ok := typeutil.Callee(f.info, c).(*types.Func); ok {
		return fn.FullName()
	}
	return ""
}

func (f *fnCtx) valueKind(base string, v ast.Expr) string {
	for {
		p, ok := v.(*ast.ParenExpr)
		if !ok {
			break
		}
		v = p.X
	}
	if c, ok := v.(*ast.CallExpr); ok {
		switch f.callee(c) {
		case "math.Float32bits":
			if base == "U32" {
				return "F32"
			}
		case "math.Float64bits":
			if base == "U64" {
				return "F64"
			}
		}
	}
	return base
}

var putKinds = map[string]string{
	"(encoding/binary.littleEndian).PutUint16": "U16",
	"(encoding/binary.littleEndian).PutUint32": "U32",
	"(encoding/binary.littleEndian).PutUint64": "U64",
}
var appendKinds = map[string]string{
	"(encoding/binary.littleEndian).AppendUint16": "U16",
	"(encoding/binary.littleEndian).AppendUint32": "U32",
	"(encoding/binary.littleEndian).AppendUint64": "U64",
	"encoding/binary.AppendUvarint":               "UVARINT",
}
var getKinds = map[string]string{
	"(encoding/binary.littleEndian).Uint16": "U16",
	"(encoding/binary.littleEndian).Uint32": "U32",
	"(encoding/binary.littleEndian).Uint64": "U64",
}

func addFill(fs []fill, n fill) []fill {
	var out []fill
	for _, o := range fs {
		if o.kind == "UVARINT" {
			continue // a new fixed-width put invalidates a varint held in the same array
		}
		if o.off+o.width <= n.off || n.off+n.width <= o.off {
			out = append(out, o)
		}
	}
	return append(out, n)
}

// scratchFill records writes into scratch arrays made by a simple statement.
func (f *fnCtx) scratchFill(stmt ast.Stmt, s *st) *st {
	s = s.copy()
	put := func(c *ast.CallExpr, lenObj types.Object) {
		name := f.callee(c)
		kind, isPut := putKinds[name]
		if (!isPut && name != "encoding/binary.PutUvarint") || len(c.Args) != 2 {
			return
		}
		sl, ok := c.Args[0].(*ast.SliceExpr)
		if !ok {
			return
		}
		o, _ := f.scratchOf(sl.X)
		if o == nil {
			return
		}
		off := 0
		if sl.Low != nil {
			v, ok := f.constInt(sl.Low)
			if !ok {
				delete(s.fills, o)
				return
			}
			off = v
		}
		if name == "encoding/binary.PutUvarint" {
			if off != 0 || lenObj == nil {
				delete(s.fills, o)
				return
			}
			s.fills[o] = []fill{{kind: "UVARINT", lenObj: lenObj}}
			return
		}
		k := f.valueKind(kind, c.Args[1])
		s.fills[o] = addFill(s.fills[o], fill{off: off, width: primWidth(k), kind: k})
	}
	switch a := stmt.(type) {
	case *ast.ExprStmt:
		if c, ok := a.X.(*ast.CallExpr); ok {
			put(c, nil)
		}
	case *ast.AssignStmt:
		if len(a.Lhs) != 1 || len(a.Rhs) != 1 {
			break
		}
		if c, ok := a.Rhs[0].(*ast.CallExpr); ok {
			if id, ok := a.Lhs[0].(*ast.Ident); ok {
				put(c, f.obj(id))
			}
		}
		if ix, ok := a.Lhs[0].(*ast.IndexExpr); ok {
			if o, _ := f.scratchOf(ix.X); o != nil {
				i, ok := f.constInt(ix.Index)
				if !ok || a.Tok != token.ASSIGN {
					delete(s.fills, o)
					break
				}
				fl := fill{off: i, width: 1, kind: "U8"}
				if v, ok := f.constInt(a.Rhs[0]); ok {
					fl.kind, fl.n = "K8", v
				}
				s.fills[o] = addFill(s.fills[o], fl)
			}
		}
	}
	return s
}

// scratchSlice turns `scratch[lo:hi]` into the tokens last put there; other byte
// sequences are RAW.
func (f *fnCtx) scratchSlice(e ast.Expr, s *st) ShapeSeq {
	for {
		p, ok := e.(*ast.ParenExpr)
		if !ok {
			break
		}
		e = p.X
	}
	sl, ok := e.(*ast.SliceExpr)
	if ok {
		if o, n := f.scratchOf(sl.X); o != nil {
			fs := s.fills[o]
			lo, hi := 0, n
			if sl.Low != nil {
				v, ok := f.constInt(sl.Low)
				if !ok {
					f.x.issue(e.Pos(), "%s: scratch array sliced from a non-constant offset", f.name)
					return nil
				}
				lo = v
			}
			if sl.High != nil {
				v, isConst := f.constInt(sl.High)
				if !isConst {
					id, _ := sl.High.(*ast.Ident)
					if id != nil && lo == 0 && len(fs) == 1 && fs[0].kind == "UVARINT" && fs[0].lenObj == f.obj(id) {
						return ShapeSeq{prim("UVARINT")}
					}
					f.x.issue(e.Pos(), "%s: scratch array sliced to a variable length that is not the length returned by the PutUvarint that filled it", f.name)
					return nil
				}
				hi = v
			}
			sort.Slice(fs, func(i, j int) bool { return fs[i].off < fs[j].off })
			var out ShapeSeq
			at := lo
			for _, fl := range fs {
				if fl.kind == "UVARINT" || fl.off+fl.width <= lo || fl.off >= hi {
					continue
				}
				if fl.off != at {
					break
				}
				n := prim(fl.kind)
				n.N = fl.n
				out = append(out, n)
				at += fl.width
			}
			if at != hi {
				f.x.issue(e.Pos(), "%s: bytes [%d:%d) of a scratch array are written to the stream but the values put there before do not tile that range", f.name, lo, hi)
				return nil
			}
			return out
		}
	}
	t := f.info.TypeOf(e)
	if t != nil {
		switch u := t.Underlying().(type) {
		case *types.Basic:
			if u.Info()&types.IsString != 0 {
				return ShapeSeq{prim("RAW")}
			}
		case *types.Slice:
			if b, ok := u.Elem().Underlying().(*types.Basic); ok && b.Kind() == types.Uint8 && len(f.mentions(e)) == 0 {
				return ShapeSeq{prim("RAW")}
			}
		}
	}
	f.x.issue(e.Pos(), "%s: cannot classify the byte sequence written to the stream", f.name)
	return nil
}

// simple handles an expression/assignment/declaration statement.
func (f *fnCtx) simple(stmt ast.Stmt, s *st) (ShapeSeq, *st) {
	if f.mode == ShapeWriter {
		s = f.scratchFill(stmt, s)
	}
	if f.mode == ShapeWriter && !f.ioW {
		consumed := map[*ast.Ident]bool{}
		var toks ShapeSeq
		if a, ok := stmt.(*ast.AssignStmt); ok && len(a.Lhs) == 1 && len(a.Rhs) == 1 {
			if id, isS := f.isStream(a.Lhs[0]); isS {
				consumed[id] = true
				toks = f.streamExpr(a.Rhs[0], s, consumed)
			}
		}
		f.lenUses(stmt, consumed)
		for _, id := range f.mentions(stmt) {
			if !consumed[id] {
				f.x.issue(id.Pos(), "%s: statement touches the stream and is not in the idiom table", f.name)
				break
			}
		}
		return toks, s
	}
	toks, s2 := f.simpleOps(stmt, s)
	// `a := conv(b)` with b a decoded, never reassigned value: a denotes the same token
	if a, ok := stmt.(*ast.AssignStmt); ok && f.mode == ShapeReader && len(a.Lhs) == 1 && len(a.Rhs) == 1 {
		if l, ok := a.Lhs[0].(*ast.Ident); ok && l.Name != "_" {
			if src := f.stripConv(a.Rhs[0]); src != nil {
				if so := f.obj(src); so != nil && s2.vals[so] != nil && f.assignments(so) <= 1 {
					if lo := f.obj(l); lo != nil && lo != so {
						s2.vals[lo] = s2.vals[so]
					}
				}
			}
		}
	}
	return toks, s2
}

// stripConv removes parentheses and type conversions and returns the identifier below them.
func (f *fnCtx) stripConv(e ast.Expr) *ast.Ident {
	for {
		switch b := e.(type) {
		case *ast.ParenExpr:
			e = b.X
			continue
		case *ast.CallExpr:
			if tv := f.info.Types[b.Fun]; tv.IsType() && len(b.Args) == 1 {
				e = b.Args[0]
				continue
			}
		}
		break
	}
	id, _ := e.(*ast.Ident)
	return id
}

// lenUses marks len(S)/cap(S) as harmless.
func (f *fnCtx) lenUses(n ast.Node, consumed map[*ast.Ident]bool) {
	ast.Inspect(n, func(m ast.Node) bool {
		c, ok := m.(*ast.CallExpr)
		if !ok || len(c.Args) != 1 {
			return true
		}
		if fid, ok := c.Fun.(*ast.Ident); ok {
			if b, ok := f.info.Uses[fid].(*types.Builtin); ok && (b.Name() == "len" || b.Name() == "cap") {
				if id, isS := f.isStream(c.Args[0]); isS {
					consumed[id] = true
				}
			}
		}
		return true
	})
}

// streamExpr evaluates an expression whose value is the stream after appending.
func (f *fnCtx) streamExpr(e ast.Expr, s *st, consumed map[*ast.Ident]bool) ShapeSeq {
	for {
		p, ok := e.(*ast.ParenExpr)
		if !ok {
			break
		}
		e = p.X
	}
	if id, ok := f.isStream(e); ok {
		consumed[id] = true
		return nil
	}
	c, ok := e.(*ast.CallExpr)
	if !ok {
		f.x.issue(e.Pos(), "%s: the stream is assigned from an expression that is not in the idiom table", f.name)
		return nil
	}
	if fid, ok := c.Fun.(*ast.Ident); ok {
		if b, ok := f.info.Uses[fid].(*types.Builtin); ok && b.Name() == "append" && len(c.Args) >= 1 {
			toks := f.streamExpr(c.Args[0], s, consumed)
			if c.Ellipsis.IsValid() {
				if len(c.Args) != 2 {
					return toks
				}
				return append(toks, f.scratchSlice(c.Args[1], s)...)
			}
			for _, a := range c.Args[1:] {
				if len(f.mentions(a)) > 0 {
					f.x.issue(a.Pos(), "%s: appended byte depends on the stream", f.name)
				}
				if v, ok := f.constInt(a); ok {
					toks = append(toks, &ShapeNode{Kind: "K8", N: v & 0xff})
				} else {
					toks = append(toks, prim("U8"))
				}
			}
			return toks
		}
	}
	name := f.callee(c)
	if kind, ok := appendKinds[name]; ok && len(c.Args) == 2 {
		toks := f.streamExpr(c.Args[0], s, consumed)
		return append(toks, prim(f.valueKind(kind, c.Args[1])))
	}
	return f.inlineCall(c, s, consumed)
}

// inlineCall splices the shape of a module function / local closure that receives the
// stream as exactly one plain argument.
func (f *fnCtx) inlineCall(c *ast.CallExpr, s *st, consumed map[*ast.Ident]bool) ShapeSeq {
	argIdx := -1
	for i, a := range c.Args {
		if id, ok := f.isStream(a); ok {
			if argIdx >= 0 {
				f.x.issue(c.Pos(), "%s: the stream is passed twice to one call", f.name)
				return nil
			}
			argIdx = i
			consumed[id] = true
		} else if len(f.mentions(a)) > 0 {
			f.x.issue(a.Pos(), "%s: a part/derivative of the stream is passed to a call (not a sequential idiom)", f.name)
			return nil
		}
	}
	if argIdx < 0 {
		f.x.issue(c.Pos(), "%s: call touches the stream but does not receive it as a plain argument", f.name)
		return nil
	}
	if name := f.callee(c); name != "" {
		d := f.x.decls[name]
		if d == nil {
			f.x.issue(c.Pos(), "%s: callee %s receives the stream, is not a known primitive and has no source in the loaded packages", f.name, name)
			return nil
		}
		f.x.Inlined[name] = true
		return f.x.inline(d, d.body, argIdx, f.mode, c.Pos())
	}
	// local closure variable
	if id, ok := c.Fun.(*ast.Ident); ok {
		if v, ok := f.obj(id).(*types.Var); ok {
			if lit := f.closureDef(v); lit != nil {
				d := &shapeDecl{pkg: f.pkg, typ: lit.Type, body: lit.Body, name: f.name + "$closure"}
				return f.x.inline(d, f.outer, argIdx, f.mode, c.Pos())
			}
		}
	}
	f.x.issue(c.Pos(), "%s: the stream is passed to a call whose callee cannot be resolved statically", f.name)
	return nil
}

// closureDef finds the function literal a local variable is defined with, provided the
// variable is assigned exactly once.
func (f *fnCtx) closureDef(v *types.Var) *ast.FuncLit {
	var lit *ast.FuncLit
	ast.Inspect(f.outer, func(m ast.Node) bool {
		a, ok := m.(*ast.AssignStmt)
		if !ok || len(a.Lhs) != len(a.Rhs) {
			return true
		}
		for i, l := range a.Lhs {
			if id, ok := l.(*ast.Ident); ok && f.obj(id) == v {
				if fl, ok := a.Rhs[i].(*ast.FuncLit); ok {
					lit = fl
				}
			}
		}
		return true
	})
	if lit == nil || f.assignments(v) != 1 {
		return nil
	}
	return lit
}

// simpleOps finds the stream operations of readers / io.Writer writers inside one
// statement, in evaluation order.
func (f *fnCtx) simpleOps(stmt ast.Node, s *st) (ShapeSeq, *st) {
	s = s.copy()
	var toks ShapeSeq
	consumed := map[*ast.Ident]bool{}
	bind := func(c *ast.CallExpr, t ShapeSeq) {
		a, ok := stmt.(*ast.AssignStmt)
		if !ok || len(a.Rhs) != 1 || len(t) != 1 {
			return
		}
		r := a.Rhs[0]
		for {
			p, ok := r.(*ast.ParenExpr)
			if !ok {
				break
			}
			r = p.X
		}
		if r != ast.Expr(c) {
			return
		}
		if id, ok := a.Lhs[0].(*ast.Ident); ok && id.Name != "_" {
			if o := f.obj(id); o != nil {
				s.vals[o] = t[0]
				t[0].val = o
			}
		}
	}
	var stack []ast.Node
	ast.Inspect(stmt, func(m ast.Node) bool {
		if m != nil {
			if _, isLit := m.(*ast.FuncLit); isLit {
				if len(f.mentions(m)) > 0 {
					f.x.issue(m.Pos(), "%s: the stream is captured by a function literal", f.name)
				}
				return false
			}
			stack = append(stack, m)
			return true
		}
		top := stack[len(stack)-1]
		stack = stack[:len(stack)-1]
		c, ok := top.(*ast.CallExpr)
		if !ok {
			return true
		}
		var parent ast.Node
		if len(stack) > 0 {
			parent = stack[len(stack)-1]
		}
		// method on the stream
		if sel, ok := c.Fun.(*ast.SelectorExpr); ok {
			if id, isS := f.isStream(sel.X); isS {
				consumed[id] = true
				switch {
				case f.mode == ShapeReader && sel.Sel.Name == "ReadByte" && len(c.Args) == 0:
					t := ShapeSeq{prim("U8")}
					toks = append(toks, t...)
					bind(c, t)
				case f.mode == ShapeReader && (sel.Sel.Name == "Read" || sel.Sel.Name == "ReadFull") && len(c.Args) == 1:
					toks = append(toks, f.readInto(c.Args[0], s)...)
				case f.mode == ShapeWriter && sel.Sel.Name == "Write" && len(c.Args) == 1:
					toks = append(toks, f.scratchSlice(c.Args[0], s)...)
				default:
					f.x.issue(c.Pos(), "%s: method %s on the stream is not in the idiom table", f.name, sel.Sel.Name)
				}
				return true
			}
		}
		name := f.callee(c)
		if kind, ok := getKinds[name]; ok && f.mode == ShapeReader && len(c.Args) == 1 {
			f.refine(c, kind, parent, s)
			return true
		}
		streamArg := false
		for _, a := range c.Args {
			if _, isS := f.isStream(a); isS {
				streamArg = true
			}
		}
		if !streamArg {
			return true
		}
		switch {
		case f.mode == ShapeReader && name == "encoding/binary.ReadUvarint":
			id, _ := f.isStream(c.Args[0])
			consumed[id] = true
			t := ShapeSeq{prim("UVARINT")}
			toks = append(toks, t...)
			bind(c, t)
		case f.mode == ShapeReader && name == "io.ReadFull" && len(c.Args) == 2:
			id, _ := f.isStream(c.Args[0])
			consumed[id] = true
			toks = append(toks, f.readInto(c.Args[1], s)...)
		default:
			t := f.inlineCall(c, s, consumed)
			toks = append(toks, t...)
			bind(c, t)
		}
		return true
	})
	for _, id := range f.mentions(stmt) {
		if !consumed[id] {
			f.x.issue(id.Pos(), "%s: statement touches the stream and is not in the idiom table", f.name)
			break
		}
	}
	return toks, s
}

// readInto handles Read/ReadFull into the full slice of a scratch array.
func (f *fnCtx) readInto(e ast.Expr, s *st) ShapeSeq {
	if sl, ok := e.(*ast.SliceExpr); ok && sl.Low == nil && sl.High == nil {
		if o, n := f.scratchOf(sl.X); o != nil {
			node := &ShapeNode{Kind: "BYTES", N: n, scratch: o}
			s.pend[o] = node
			return ShapeSeq{node}
		}
	}
	f.x.issue(e.Pos(), "%s: read into a buffer that is not the full slice of a fixed-size array", f.name)
	return nil
}

// refine records binary.LittleEndian.UintN(scratch[a:b]) as a typed view of the bytes read last.
func (f *fnCtx) refine(c *ast.CallExpr, kind string, parent ast.Node, s *st) {
	sl, ok := c.Args[0].(*ast.SliceExpr)
	if !ok {
		return
	}
	o, _ := f.scratchOf(sl.X)
	if o == nil {
		return
	}
	node := s.pend[o]
	if node == nil {
		f.x.issue(c.Pos(), "%s: scratch array is decoded but no read into it precedes on this path", f.name)
		return
	}
	off := 0
	if sl.Low != nil {
		v, ok := f.constInt(sl.Low)
		if !ok {
			f.x.issue(c.Pos(), "%s: scratch array decoded at a non-constant offset", f.name)
			return
		}
		off = v
	}
	if pc, ok := parent.(*ast.CallExpr); ok {
		switch f.callee(pc) {
		case "math.Float32frombits":
			if kind == "U32" {
				kind = "F32"
			}
		case "math.Float64frombits":
			if kind == "U64" {
				kind = "F64"
			}
		}
	}
	for _, p := range node.parts {
		if p.off == off && p.kind == kind {
			return
		}
	}
	node.parts = append(node.parts, shapePart{off: off, width: primWidth(kind), kind: kind})
}

// collapse recognises byte-wise helpers: k ReadByte results composed little-endian in the
// returned value become one U(8k) token; FloatNNfrombits of the single decoded value
// turns U32/U64 into F32/F64.
func (f *fnCtx) collapse(seq ShapeSeq) ShapeSeq {
	if len(f.rets) != 1 {
		return seq
	}
	ret := f.rets[0]
	for {
		p, ok := ret.(*ast.ParenExpr)
		if !ok {
			break
		}
		ret = p.X
	}
	if k := len(seq); k == 2 || k == 4 || k == 8 {
		objs := map[types.Object]int{}
		all := true
		for i, n := range seq {
			if n.Kind != "U8" || n.val == nil {
				all = false
				break
			}
			objs[n.val] = i
		}
		if all && len(objs) == k && f.composeLE(ret, objs) {
			return ShapeSeq{prim(fmt.Sprintf("U%d", 8*k))}
		}
	}
	if len(seq) == 1 && seq[0].val != nil {
		if c, ok := ret.(*ast.CallExpr); ok && len(c.Args) == 1 {
			if id, ok := c.Args[0].(*ast.Ident); ok && f.obj(id) == seq[0].val {
				switch {
				case f.callee(c) == "math.Float32frombits" && seq[0].Kind == "U32":
					return ShapeSeq{prim("F32")}
				case f.callee(c) == "math.Float64frombits" && seq[0].Kind == "U64":
					return ShapeSeq{prim("F64")}
				}
			}
		}
	}
	return seq
}

// composeLE checks e == OR_i conv(b_i) << (8*i).
func (f *fnCtx) composeLE(e ast.Expr, objs map[types.Object]int) bool {
	var terms []ast.Expr
	var flat func(x ast.Expr) bool
	flat = func(x ast.Expr) bool {
		for {
			p, ok := x.(*ast.ParenExpr)
			if !ok {
				break
			}
			x = p.X
		}
		if b, ok := x.(*ast.BinaryExpr); ok && (b.Op == token.OR || b.Op == token.ADD) {
			return flat(b.X) && flat(b.Y)
		}
		terms = append(terms, x)
		return true
	}
	if !flat(e) || len(terms) != len(objs) {
		return false
	}
	seen := map[int]bool{}
	for _, t := range terms {
		shift := 0
		if b, ok := t.(*ast.BinaryExpr); ok && b.Op == token.SHL {
			v, ok := f.constInt(b.Y)
			if !ok {
				return false
			}
			shift = v
			t = b.X
		}
		for {
			p, ok := t.(*ast.ParenExpr)
			if !ok {
				break
			}
			t = p.X
		}
		c, ok := t.(*ast.CallExpr)
		if !ok || len(c.Args) != 1 || !f.info.Types[c.Fun].IsType() {
			return false
		}
		id, ok := c.Args[0].(*ast.Ident)
		if !ok {
			return false
		}
		i, ok := objs[f.obj(id)]
		if !ok || seen[i] || shift != 8*i {
			return false
		}
		seen[i] = true
	}
	return true
}
