package core

import (
	"fmt"
	"go/constant"
	"go/token"
	"sort"
	"strings"

	"golang.org/x/tools/go/ssa"
)

// Tiling decides "every element of one slice is disposed exactly once, in index
// order" for a function that walks a slice with counted loops, hands sub-ranges over
// by reslicing (x = x[n:]) or passes consecutive segments x[i:j] on.
//
// It is a forward must-analysis over the SSA control-flow graph. The abstract state
// is the set of linear terms (value + constant) that are known to EQUAL the number of
// leading elements of the current slice that have been disposed so far ("covered").
//
//	entry                      covered = 0                     {0}
//	dispose x[v]               needs v ∈ S, then               S = {v+1}
//	emit segment x[a:b]        needs a ∈ S, then               S = {b}      (b omitted: full)
//	x = x[n:]  (cell reslice)  needs n ∈ S, then               S = {0}
//	x = <other> (cell init)    needs 0 ∈ S, then               S = {0}
//	call f(x) (may permute)    needs 0 ∈ S or full
//	edge into block with phi p = e:  for (b+c) ∈ S with e = b+d:  add p+(c-d)
//	block entry                terms over values defined in that block are dropped
//	exit of `for i := 0; i < B; i++` without break:  i ∈ S ⇒ add B
//	return                     needs full, or t ∈ S with the dominating fact !(t < len(x)),
//	                           or constant c ∈ S with the dominating fact len(x) == c
//
// Out-of-range indices/bounds panic in Go, so "covered" can never silently exceed the
// length; everything else is proved from value identity, no arithmetic is guessed.
type Tiling struct {
	Fn *ssa.Function
	// Dispose classifies an instruction as the disposal of one element and returns
	// the element (an *ssa.IndexAddr or a load of one).
	Dispose func(ssa.Instruction) (elem ssa.Value, ok bool)
	// Emit classifies an instruction as handing on a segment and returns the *ssa.Slice.
	Emit func(ssa.Instruction) (seg *ssa.Slice, ok bool)

	// SkipReturns disables the "whole slice covered at return" obligation (only the
	// order / exactly-once obligations of the sites remain).
	SkipReturns bool

	Problems []TileProblem
	Sites    int // disposal + emission sites inspected
	Returns  int

	cell     *ssa.Alloc      // the variable holding the slice, when it lives in a cell
	rootKeys map[string]bool // location keys of the values the slice is initialised from / used directly
	reported map[ssa.Instruction]bool
}

// TileProblem is one failed or unclassifiable step.
type TileProblem struct {
	Instr     ssa.Instruction
	Pos       token.Pos
	Msg       string
	Undecided bool
}

type term struct {
	base ssa.Value // nil: constant
	d    int64
}

type tstate struct {
	reached bool
	full    bool
	terms   map[term]bool
}

func (s tstate) clone() tstate {
	n := tstate{reached: s.reached, full: s.full, terms: map[term]bool{}}
	for k := range s.terms {
		n.terms[k] = true
	}
	return n
}

func (s tstate) String() string {
	var parts []string
	for t := range s.terms {
		switch {
		case t.base == nil:
			parts = append(parts, fmt.Sprint(t.d))
		case t.d == 0:
			parts = append(parts, Expr(t.base))
		default:
			parts = append(parts, fmt.Sprintf("%s%+d", Expr(t.base), t.d))
		}
	}
	sort.Strings(parts)
	if s.full {
		parts = append(parts, "<all>")
	}
	if len(parts) == 0 {
		return "{unknown}"
	}
	return "{" + strings.Join(parts, ", ") + "}"
}

func normTerm(v ssa.Value) term {
	switch x := v.(type) {
	case nil:
		return term{nil, 0}
	case *ssa.Const:
		if x.Value != nil && x.Value.Kind() == constant.Int {
			if n, ok := constant.Int64Val(x.Value); ok {
				return term{nil, n}
			}
		}
	case *ssa.BinOp:
		if x.Op == token.ADD || x.Op == token.SUB {
			if c, ok := x.Y.(*ssa.Const); ok && c.Value != nil && c.Value.Kind() == constant.Int {
				if n, ok := constant.Int64Val(c.Value); ok {
					t := normTerm(x.X)
					if x.Op == token.SUB {
						n = -n
					}
					return term{t.base, t.d + n}
				}
			}
			if c, ok := x.X.(*ssa.Const); ok && x.Op == token.ADD && c.Value != nil && c.Value.Kind() == constant.Int {
				if n, ok := constant.Int64Val(c.Value); ok {
					t := normTerm(x.Y)
					return term{t.base, t.d + n}
				}
			}
		}
	}
	return term{v, 0}
}

func (s tstate) has(v ssa.Value) bool { return s.terms[normTerm(v)] }

func (t *Tiling) problem(in ssa.Instruction, undecided bool, format string, a ...any) {
	if t.reported[in] {
		return
	}
	t.reported[in] = true
	t.Problems = append(t.Problems, TileProblem{Instr: in, Pos: in.Pos(), Msg: fmt.Sprintf(format, a...), Undecided: undecided})
}

// locKey gives a structural key for "the memory location / value a slice is read from":
// loads of the same field path of the same local or parameter get the same key.
func locKey(v ssa.Value) string {
	switch x := v.(type) {
	case *ssa.UnOp:
		if x.Op == token.MUL {
			return "*" + addrKey(x.X)
		}
	case *ssa.MakeInterface:
		return locKey(x.X)
	case *ssa.ChangeType:
		return locKey(x.X)
	}
	return fmt.Sprintf("val@%p", v)
}

func addrKey(a ssa.Value) string {
	switch x := a.(type) {
	case *ssa.Alloc:
		return fmt.Sprintf("alloc@%p", x)
	case *ssa.FieldAddr:
		return addrKey(x.X) + fmt.Sprintf(".f%d", x.Field)
	case *ssa.Parameter:
		return fmt.Sprintf("param@%p", x)
	case *ssa.FreeVar:
		return fmt.Sprintf("free@%p", x)
	case *ssa.UnOp:
		if x.Op == token.MUL {
			return "(*" + addrKey(x.X) + ")"
		}
	}
	return fmt.Sprintf("addr@%p", a)
}

func loadOfCell(v ssa.Value) *ssa.Alloc {
	for {
		switch x := v.(type) {
		case *ssa.MakeInterface:
			v = x.X
			continue
		case *ssa.ChangeType:
			v = x.X
			continue
		}
		break
	}
	if u, ok := v.(*ssa.UnOp); ok && u.Op == token.MUL {
		if a, ok := u.X.(*ssa.Alloc); ok {
			return a
		}
	}
	return nil
}

// inClass reports whether v denotes the tiled slice.
func (t *Tiling) inClass(v ssa.Value) bool {
	if a := loadOfCell(v); a != nil && a == t.cell {
		return true
	}
	return t.rootKeys[locKey(v)]
}

func elemIndexAddr(elem ssa.Value) *ssa.IndexAddr {
	if u, ok := elem.(*ssa.UnOp); ok && u.Op == token.MUL {
		elem = u.X
	}
	ia, _ := elem.(*ssa.IndexAddr)
	return ia
}

// Run performs the analysis.
func (t *Tiling) Run() {
	fn := t.Fn
	t.reported = map[ssa.Instruction]bool{}
	t.rootKeys = map[string]bool{}
	// ---- discover the slice class from the sites ------------------------------------
	var sliceVals []ssa.Value
	var first ssa.Instruction
	for _, b := range fn.Blocks {
		for _, in := range b.Instrs {
			if t.Dispose != nil {
				if e, ok := t.Dispose(in); ok {
					t.Sites++
					if first == nil {
						first = in
					}
					ia := elemIndexAddr(e)
					if ia == nil {
						t.problem(in, true, "the disposed element %s is not an indexed element of a slice", Expr(e))
						continue
					}
					sliceVals = append(sliceVals, ia.X)
				}
			}
			if t.Emit != nil {
				if sl, ok := t.Emit(in); ok {
					t.Sites++
					if first == nil {
						first = in
					}
					sliceVals = append(sliceVals, sl.X)
				}
			}
		}
	}
	if len(sliceVals) == 0 {
		return
	}
	for _, v := range sliceVals {
		if a := loadOfCell(v); a != nil {
			if t.cell != nil && t.cell != a {
				t.problem(first, true, "elements of two different slice variables are disposed in one function")
				return
			}
			t.cell = a
		}
	}
	if t.cell != nil {
		for _, st := range CellStores(t.cell) {
			if st.Parent() != fn {
				t.problem(st, true, "the slice variable is assigned inside a closure")
				return
			}
			if sl, ok := st.Val.(*ssa.Slice); ok && loadOfCell(sl.X) == t.cell {
				continue // reslice
			}
			t.rootKeys[locKey(st.Val)] = true
		}
	}
	for _, v := range sliceVals {
		if loadOfCell(v) == t.cell && t.cell != nil {
			continue
		}
		k := locKey(v)
		if t.cell != nil && !t.rootKeys[k] {
			t.problem(first, false, "an element of %s is disposed, which is not the slice this function walks", Expr(v))
			return
		}
		t.rootKeys[k] = true
	}
	if t.cell == nil && len(t.rootKeys) != 1 {
		t.problem(first, true, "the disposal sites index %d different slices", len(t.rootKeys))
		return
	}
	// the memory the root keys name must not be overwritten (other than parameter spill at entry)
	for _, b := range fn.Blocks {
		for _, in := range b.Instrs {
			st, ok := in.(*ssa.Store)
			if !ok || st.Addr == ssa.Value(t.cell) {
				continue
			}
			k := "*" + addrKey(st.Addr)
			for rk := range t.rootKeys {
				if rk == k || strings.HasPrefix(rk, k+".") {
					if _, isParam := st.Val.(*ssa.Parameter); isParam && b.Index == 0 {
						continue
					}
					t.problem(st, true, "the slice being walked is overwritten here")
				}
			}
		}
	}
	// reslice stores must not precede a use of the root (un-resliced) name
	loops := NatLoops(fn)
	// ---- dataflow -------------------------------------------------------------------
	in := map[*ssa.BasicBlock]*tstate{}
	entry := tstate{reached: true, terms: map[term]bool{{nil, 0}: true}}
	in[fn.Blocks[0]] = &entry
	work := []*ssa.BasicBlock{fn.Blocks[0]}
	resliced := map[*ssa.BasicBlock]bool{} // blocks that may execute after a reslice
	iter := 0
	for len(work) > 0 {
		iter++
		if iter > 20000 {
			t.problem(first, true, "the coverage analysis did not converge")
			return
		}
		b := work[0]
		work = work[1:]
		s := in[b].clone()
		afterReslice := resliced[b]
		for _, instr := range b.Instrs {
			s, afterReslice = t.step(instr, s, b, afterReslice)
		}
		for _, succ := range b.Succs {
			ns := t.edge(b, succ, s, loops)
			changed := false
			if cur := in[succ]; cur == nil {
				in[succ] = &ns
				changed = true
			} else {
				if cur.full && !ns.full {
					cur.full = false
					changed = true
				}
				for k := range cur.terms {
					if !ns.terms[k] {
						delete(cur.terms, k)
						changed = true
					}
				}
			}
			if afterReslice && !resliced[succ] {
				resliced[succ] = true
				changed = true
			}
			if changed {
				work = append(work, succ)
			}
		}
	}
}

func (t *Tiling) step(instr ssa.Instruction, s tstate, b *ssa.BasicBlock, afterReslice bool) (tstate, bool) {
	set := func(tm term) tstate {
		return tstate{reached: true, terms: map[term]bool{tm: true}}
	}
	rootUseCheck := func(v ssa.Value) {
		if t.cell != nil && loadOfCell(v) != t.cell && afterReslice {
			t.problem(instr, false, "the element is addressed through %s after the working slice was re-sliced: it is not the element the coverage count refers to", Expr(v))
		}
	}
	if t.Dispose != nil {
		if e, ok := t.Dispose(instr); ok {
			ia := elemIndexAddr(e)
			if ia == nil {
				return s, afterReslice
			}
			if !t.inClass(ia.X) {
				t.problem(instr, true, "disposes an element of %s, which the analysis cannot relate to the slice this function walks (unknown idiom)", Expr(ia.X))
				return s, afterReslice
			}
			rootUseCheck(ia.X)
			n := normTerm(ia.Index)
			if !s.terms[n] {
				t.problem(instr, false, "element [%s] is disposed here while the number of elements disposed so far is %s on some path: an element is skipped, disposed twice or disposed out of order", Expr(ia.Index), s)
			}
			return set(term{n.base, n.d + 1}), afterReslice
		}
	}
	if t.Emit != nil {
		if sl, ok := t.Emit(instr); ok {
			if !t.inClass(sl.X) {
				t.problem(instr, true, "hands on a segment of %s, which the analysis cannot relate to the slice this function walks (unknown idiom)", Expr(sl.X))
				return s, afterReslice
			}
			rootUseCheck(sl.X)
			lo := normTerm(sl.Low)
			if !s.terms[lo] {
				t.problem(instr, false, "segment [%s:…] starts at an index that is not the number of elements handed on so far (%s) on some path: elements are skipped or handed on twice", Expr(sl.Low), s)
			}
			if sl.High == nil {
				return tstate{reached: true, full: true, terms: map[term]bool{}}, afterReslice
			}
			return set(normTerm(sl.High)), afterReslice
		}
	}
	switch x := instr.(type) {
	case *ssa.Store:
		if t.cell != nil && x.Addr == ssa.Value(t.cell) {
			if sl, ok := x.Val.(*ssa.Slice); ok && loadOfCell(sl.X) == t.cell {
				if sl.High != nil {
					t.problem(instr, true, "the working slice is cut at the upper end")
					return s, afterReslice
				}
				if !s.terms[normTerm(sl.Low)] {
					t.problem(instr, false, "the working slice is advanced by [%s:] while the number of elements disposed so far is %s: elements are skipped or revisited", Expr(sl.Low), s)
				}
				return set(term{nil, 0}), true
			}
			if !s.terms[term{nil, 0}] {
				t.problem(instr, false, "the working slice is replaced after %s elements were disposed", s)
			}
			return set(term{nil, 0}), afterReslice
		}
	case ssa.CallInstruction:
		c := x.Common()
		if bi, ok := c.Value.(*ssa.Builtin); ok && (bi.Name() == "len" || bi.Name() == "cap") {
			return s, afterReslice
		}
		for _, a := range c.Args {
			if t.inClass(a) {
				if !s.terms[term{nil, 0}] && !s.full {
					t.problem(instr, false, "the slice is passed to %s (which may reorder it) after %s elements were disposed", CalleeName(c), s)
				}
			}
		}
	case *ssa.Return:
		if len(b.Preds) == 0 && b.Index != 0 {
			return s, afterReslice // recover block
		}
		t.Returns++
		if !t.SkipReturns && !t.fullAt(s, b) {
			t.problem(instr, false, "the function can return here with %s elements disposed and no dominating test showing that this is the whole slice; facts: %s", s, FactsString(b))
		}
	}
	return s, afterReslice
}

func (t *Tiling) lenOfClass(v ssa.Value) bool {
	c, ok := v.(*ssa.Call)
	if !ok {
		return false
	}
	bi, ok := c.Call.Value.(*ssa.Builtin)
	return ok && bi.Name() == "len" && len(c.Call.Args) == 1 && t.inClass(c.Call.Args[0])
}

func (t *Tiling) fullAt(s tstate, b *ssa.BasicBlock) bool {
	if s.full {
		return true
	}
	for _, g := range Facts(b) {
		if len(g.Alts) != 1 {
			continue
		}
		l := g.Alts[0]
		switch {
		case l.Op == token.LSS && !l.Pol && t.lenOfClass(l.Y) && s.terms[normTerm(l.X)]:
			return true // !(covered < len)
		case l.Op == token.EQL && l.Pol && t.lenOfClass(l.X):
			if n := normTerm(l.Y); n.base == nil && s.terms[n] {
				return true // len == covered (constant)
			}
		}
	}
	return false
}

func (t *Tiling) edge(from, to *ssa.BasicBlock, s tstate, loops []*NatLoop) tstate {
	ns := tstate{reached: true, full: s.full, terms: map[term]bool{}}
	pi := -1
	for i, p := range to.Preds {
		if p == from {
			pi = i
		}
	}
	for _, in := range to.Instrs {
		phi, ok := in.(*ssa.Phi)
		if !ok {
			break
		}
		if pi < 0 {
			continue
		}
		e := normTerm(phi.Edges[pi])
		for k := range s.terms {
			if k.base == e.base {
				ns.terms[term{phi, k.d - e.d}] = true
			}
		}
	}
	for k := range s.terms {
		if k.base != nil {
			if in, ok := k.base.(ssa.Instruction); ok && in.Block() == to {
				continue
			}
		}
		ns.terms[k] = true
	}
	// exit of a counted loop that started at 0 and has no other exit: index == bound
	if l := headerOf(loops, from); l != nil && !l.Blocks[to] {
		if il, err := l.AsIndexNatLoop(); err == nil && !il.Range && !il.Incl && s.terms[term{il.Phi, 0}] {
			ok := true
			for _, e := range il.Inits {
				if !IntConstIs(e, 0) {
					ok = false
				}
			}
			for b := range l.Blocks {
				for _, sc := range b.Succs {
					if !l.Blocks[sc] && !(b == from && sc == to) && !onlyPanics(sc) {
						ok = false
					}
				}
			}
			if ok {
				ns.terms[normTerm(il.Bound)] = true
			}
		}
	}
	return ns
}

func headerOf(loops []*NatLoop, b *ssa.BasicBlock) *NatLoop {
	for _, l := range loops {
		if l.Header == b {
			return l
		}
	}
	return nil
}
