package core

import (
	"go/token"
	"go/types"

	"golang.org/x/tools/go/ssa"
)

// Deref strips one load: for `*addr` it returns addr, otherwise nil.
func Deref(v ssa.Value) ssa.Value {
	if u, ok := v.(*ssa.UnOp); ok && u.Op == token.MUL {
		return u.X
	}
	return nil
}

// DynFieldCall reports, for a dynamic call whose callee is the function value held in
// a struct field (h.KeepF(...)), the struct type and field name.
func DynFieldCall(c *ssa.CallCommon) (typ, field string, ok bool) {
	if c.IsInvoke() {
		return "", "", false
	}
	return FieldOf(c.Value)
}

// FieldOf reports the named struct type and field a value is loaded from (or the
// address of).
func FieldOf(v ssa.Value) (typ, field string, ok bool) {
	if a := Deref(v); a != nil {
		v = a
	}
	switch x := v.(type) {
	case *ssa.FieldAddr:
		if n, ok := NamedOf(x.X.Type()); ok {
			return TypeName(n.Origin()), fieldName(x.X.Type(), x.Field), true
		}
	case *ssa.Field:
		if n, ok := NamedOf(x.X.Type()); ok {
			return TypeName(n.Origin()), fieldName(x.X.Type(), x.Field), true
		}
	}
	return "", "", false
}

// NamedOf returns the named type behind t, looking through one pointer and through
// type aliases (tlstatshouse.X = internal.StatshouseX).
func NamedOf(t types.Type) (*types.Named, bool) {
	t = types.Unalias(t)
	if p, ok := t.Underlying().(*types.Pointer); ok {
		if _, isNamed := t.(*types.Named); !isNamed {
			t = types.Unalias(p.Elem())
		}
	}
	n, ok := t.(*types.Named)
	return n, ok
}

// IsFieldA is IsField that also looks through type aliases.
func IsFieldA(v ssa.Value, typ, field string) bool {
	switch v.(type) {
	case *ssa.FieldAddr, *ssa.Field:
		t, f, ok := FieldOf(v)
		return ok && t == typ && f == field
	}
	return false
}

// ResolveCallee resolves the function a call invokes: a static callee, a closure
// literal, or a local / captured variable that is assigned exactly once, with a
// closure or function (the `keepF := func(...){...}` idiom). nil when unknown.
func ResolveCallee(c *ssa.CallCommon) *ssa.Function {
	if c.IsInvoke() {
		return nil
	}
	return resolveFuncValue(c.Value, 0)
}

func resolveFuncValue(v ssa.Value, depth int) *ssa.Function {
	if depth > 6 || v == nil {
		return nil
	}
	switch x := v.(type) {
	case *ssa.Function:
		return x
	case *ssa.MakeClosure:
		fn, _ := x.Fn.(*ssa.Function)
		return fn
	case *ssa.ChangeType:
		return resolveFuncValue(x.X, depth+1)
	case *ssa.UnOp:
		if x.Op != token.MUL {
			return nil
		}
		switch a := x.X.(type) {
		case *ssa.Alloc:
			sts := CellStores(a)
			if len(sts) != 1 {
				return nil
			}
			return resolveFuncValue(sts[0].Val, depth+1)
		case *ssa.FreeVar:
			cell := FreeVarBinding(a)
			if al, ok := cell.(*ssa.Alloc); ok {
				sts := CellStores(al)
				if len(sts) != 1 {
					return nil
				}
				return resolveFuncValue(sts[0].Val, depth+1)
			}
		}
	}
	return nil
}

// FreeVarBinding returns the value bound to a free variable where its closure is
// created (nil when the closure is created at several places with different bindings).
func FreeVarBinding(fv *ssa.FreeVar) ssa.Value {
	fn := fv.Parent()
	parent := fn.Parent()
	if parent == nil {
		return nil
	}
	idx := -1
	for i, f := range fn.FreeVars {
		if f == fv {
			idx = i
		}
	}
	if idx < 0 {
		return nil
	}
	var found ssa.Value
	for _, b := range parent.Blocks {
		for _, in := range b.Instrs {
			mc, ok := in.(*ssa.MakeClosure)
			if !ok || mc.Fn != ssa.Value(fn) || idx >= len(mc.Bindings) {
				continue
			}
			if found != nil && found != mc.Bindings[idx] {
				return nil
			}
			found = mc.Bindings[idx]
		}
	}
	if pfv, ok := found.(*ssa.FreeVar); ok {
		return FreeVarBinding(pfv)
	}
	return found
}

// ParamPos returns the index of v among its function's parameters (receiver = 0), -1 if v is not a parameter.
func ParamPos(v ssa.Value) int {
	p, ok := v.(*ssa.Parameter)
	if !ok || p.Parent() == nil {
		return -1
	}
	for i, q := range p.Parent().Params {
		if q == p {
			return i
		}
	}
	return -1
}

// ParamOrSpill reports whether v is parameter i of fn, or a load of the cell the
// parameter is spilled into at entry (address-taken / captured parameters).
func ParamOrSpill(fn *ssa.Function, v ssa.Value, i int) bool {
	if i >= len(fn.Params) {
		return false
	}
	p := fn.Params[i]
	if v == ssa.Value(p) {
		return true
	}
	if a, ok := Deref(v).(*ssa.Alloc); ok {
		sts := CellStores(a)
		return len(sts) == 1 && sts[0].Val == ssa.Value(p)
	}
	return false
}

// ParamCell returns the cell parameter i is spilled into (nil if it is not spilled).
func ParamCell(fn *ssa.Function, i int) *ssa.Alloc {
	if i >= len(fn.Params) {
		return nil
	}
	p := fn.Params[i]
	for _, r := range Referrers(p) {
		if st, ok := r.(*ssa.Store); ok && st.Val == ssa.Value(p) {
			if a, ok := st.Addr.(*ssa.Alloc); ok && len(CellStores(a)) == 1 {
				return a
			}
		}
	}
	return nil
}

// Deref2IndexAddr returns the element address when v is `&x[i]` or a load `x[i]` of it.
func Deref2IndexAddr(v ssa.Value) (*ssa.IndexAddr, bool) {
	if a := Deref(v); a != nil {
		v = a
	}
	ia, ok := v.(*ssa.IndexAddr)
	return ia, ok
}

// FieldStoresU lists the direct stores to typ.field in fns like FieldWrites (kind
// "store" only), also when the struct is referred to through a type alias.
func FieldStoresU(fns []*ssa.Function, typ, field string) []FieldWrite {
	var out []FieldWrite
	for _, fn := range fns {
		for _, b := range fn.Blocks {
			for _, in := range b.Instrs {
				if st, ok := in.(*ssa.Store); ok && IsFieldA(st.Addr, typ, field) {
					out = append(out, FieldWrite{fn, st, "store", st.Addr, st.Val})
				}
			}
		}
	}
	return out
}

// FieldReadsU is FieldReads that also looks through type aliases.
func FieldReadsU(fns []*ssa.Function, typ, field string) []ssa.Instruction {
	var out []ssa.Instruction
	for _, fn := range fns {
		for _, b := range fn.Blocks {
			for _, in := range b.Instrs {
				switch x := in.(type) {
				case *ssa.UnOp:
					if x.Op == token.MUL && IsFieldA(x.X, typ, field) {
						out = append(out, in)
					}
				case *ssa.Field:
					if IsFieldA(x, typ, field) {
						out = append(out, in)
					}
				}
			}
		}
	}
	return out
}
