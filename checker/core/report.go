package core

import (
	"encoding/json"
	"fmt"
	"go/token"
	"os"
	"path/filepath"
	"sort"
	"strings"
	"time"
)

// Verdict of one obligation.
type Verdict string

const (
	OK        Verdict = "ok"
	Violation Verdict = "violation"
	Known     Verdict = "known-finding"
	Undecided Verdict = "undecided"
)

// Ob is one obligation: a rule applied to one construct of the program.
type Ob struct {
	Rule    string  `json:"rule"`
	Site    string  `json:"site"` // rule+construct key, never a line number
	Pos     string  `json:"pos"`  // file:line, for messages only
	Verdict Verdict `json:"verdict"`
	Msg     string  `json:"msg,omitempty"`
}

// Key identifies an obligation independent of positions.
func (o Ob) Key() string { return o.Rule + " @ " + o.Site }

// RuleDoc documents a rule of a property.
type RuleDoc struct {
	ID   string `json:"id"`
	Kind string `json:"kind"` // engine (K1..K13)
	Text string `json:"text"`
	Min  int    `json:"min_instances"`
}

// Check accumulates the obligations of one property on one loaded program.
type Check struct {
	ID    string
	Tier  string
	Prog  *Prog
	Obs   []Ob
	Rules []RuleDoc
	// Decides/NotDecided are the clause lists for the evidence explanation.
	Decides    string
	NotDecided string
	FuncsSeen  map[string]bool
	CallSites  int
	notes      []string
}

// NewCheck creates the accumulator.
func NewCheck(id, tier string, p *Prog) *Check {
	return &Check{ID: id, Tier: tier, Prog: p, FuncsSeen: map[string]bool{}}
}

// Rule registers documentation and the minimum number of instances for a rule.
func (c *Check) Rule(id, kind string, min int, text string) {
	c.Rules = append(c.Rules, RuleDoc{ID: id, Kind: kind, Text: text, Min: min})
}

// Note records a free-text observation that goes into the evidence.
func (c *Check) Note(format string, a ...any) { c.notes = append(c.notes, fmt.Sprintf(format, a...)) }

func (c *Check) add(rule, site string, pos token.Pos, v Verdict, msg string) {
	ps := "?"
	if c.Prog != nil {
		ps = c.Prog.Pos(pos)
	}
	c.Obs = append(c.Obs, Ob{Rule: rule, Site: site, Pos: ps, Verdict: v, Msg: msg})
}

// Pass records a discharged obligation.
func (c *Check) Pass(rule, site string, pos token.Pos, msg string) { c.add(rule, site, pos, OK, msg) }

// Fail records a violated obligation.
func (c *Check) Fail(rule, site string, pos token.Pos, msg string) {
	c.add(rule, site, pos, Violation, msg)
}

// Undecided records an obligation the engine cannot classify (counts as failure).
func (c *Check) Undecided(rule, site string, pos token.Pos, msg string) {
	c.add(rule, site, pos, Undecided, msg)
}

// Require records Pass when cond holds and Fail otherwise.
func (c *Check) Require(cond bool, rule, site string, pos token.Pos, okMsg, failMsg string) bool {
	if cond {
		c.Pass(rule, site, pos, okMsg)
	} else {
		c.Fail(rule, site, pos, failMsg)
	}
	return cond
}

// Anchor reports a rule-table anchor that does not resolve any more.
func (c *Check) Anchor(rule, name string) {
	c.add(rule, "anchor:"+name, token.NoPos, Undecided,
		"anchor "+name+" named in the rule table does not resolve in the current tree (renamed or removed: update the rule table)")
}

// Seen marks a function as analysed (for the evidence counts).
func (c *Check) Seen(fn string) { c.FuncsSeen[fn] = true }

// ---- known findings ---------------------------------------------------------------

// Finding is one entry of /verif/known_findings.json.
type Finding struct {
	Property string `json:"property"`
	Rule     string `json:"rule"`
	Site     string `json:"site"`
	Status   string `json:"status"` // "known" | "fixed"
	Commit   string `json:"commit,omitempty"`
	What     string `json:"what"`
}

// VerifDir is the directory holding known_findings.json and evidence/.
func VerifDir() string {
	if d := os.Getenv("SHVERIF_DIR"); d != "" {
		return d
	}
	return "/verif"
}

// LoadFindings reads known_findings.json (never written at run time).
func LoadFindings() ([]Finding, error) {
	b, err := os.ReadFile(filepath.Join(VerifDir(), "known_findings.json"))
	if err != nil {
		if os.IsNotExist(err) {
			return nil, nil
		}
		return nil, err
	}
	var fs []Finding
	if err := json.Unmarshal(b, &fs); err != nil {
		return nil, fmt.Errorf("known_findings.json: %w", err)
	}
	return fs, nil
}

// Result is the outcome of a property check.
type Result struct {
	ID         string
	Violations []Ob
	Knowns     []Ob
	Obs        []Ob
	Discharged int
}

// Finish applies min-instance rules and known findings and sorts the obligations.
func (c *Check) Finish(findings []Finding) Result {
	// min instances
	count := map[string]int{}
	for _, o := range c.Obs {
		count[o.Rule]++
	}
	for _, r := range c.Rules {
		if r.Min > 0 && count[r.ID] < r.Min {
			c.add(r.ID, "min-instances", token.NoPos, Undecided,
				fmt.Sprintf("rule matched %d site(s), fewer than the %d confirmed by hand on the pinned tree: the rule would pass vacuously", count[r.ID], r.Min))
		}
	}
	// duplicates keys get an ordinal so that keys stay unique
	seen := map[string]int{}
	for i := range c.Obs {
		k := c.Obs[i].Key()
		seen[k]++
		if seen[k] > 1 {
			c.Obs[i].Site = fmt.Sprintf("%s#%d", c.Obs[i].Site, seen[k])
		}
	}
	known := map[string]Finding{}
	for _, f := range findings {
		if f.Property == c.ID && f.Status == "known" {
			known[f.Rule+" @ "+f.Site] = f
		}
	}
	res := Result{ID: c.ID}
	for i := range c.Obs {
		o := &c.Obs[i]
		if o.Verdict == Violation {
			if f, ok := known[o.Key()]; ok {
				o.Verdict = Known
				o.Msg = f.What + " [" + o.Msg + "]"
			}
		}
		switch o.Verdict {
		case OK:
			res.Discharged++
		case Known:
			res.Knowns = append(res.Knowns, *o)
		default:
			res.Violations = append(res.Violations, *o)
		}
	}
	sort.SliceStable(c.Obs, func(i, j int) bool {
		if c.Obs[i].Rule != c.Obs[j].Rule {
			return c.Obs[i].Rule < c.Obs[j].Rule
		}
		return c.Obs[i].Site < c.Obs[j].Site
	})
	res.Obs = c.Obs
	return res
}

// ---- evidence ---------------------------------------------------------------------

type evidence struct {
	PropertyID  string         `json:"property_id"`
	Tier        string         `json:"tier"`
	Seed        int64          `json:"seed"`
	Level       string         `json:"level"`
	Coverage    map[string]any `json:"coverage"`
	Assumptions []string       `json:"assumptions"`
	WallS       float64        `json:"wall_s"`
	Violations  int            `json:"violations"`
}

// TrustedBase is recorded in every evidence file.
var TrustedBase = []string{
	"go/types, go/ssa, go/packages of golang.org/x/tools v0.29.0 (loader, type checker, SSA builder, dominator tree)",
	"the rule tables in /verif/checker/props (anchors, allow-lists, idiom lists), each entry carrying its reason",
	"documented behaviour of sync, encoding/binary, hash/crc32, strings.Replacer; SQLite semantics of AUTOINCREMENT/UNIQUE/INSERT OR REPLACE; golang-jwt ParseWithClaims",
}

// WriteEvidence writes /verif/evidence/<id>.json and, for violations, replay reports.
func (c *Check) WriteEvidence(res Result, seed int64, wall time.Duration, extra map[string]any) (replays []string, err error) {
	dir := filepath.Join(VerifDir(), "evidence")
	if err := os.MkdirAll(filepath.Join(dir, "replay"), 0o755); err != nil {
		return nil, err
	}
	distinct := map[string]bool{}
	for _, o := range res.Obs {
		if o.Site != "min-instances" && !strings.HasPrefix(o.Site, "anchor:") {
			distinct[o.Key()] = true
		}
	}
	samples := []any{}
	perRule := map[string]int{}
	for _, o := range res.Obs {
		if o.Verdict != OK || perRule[o.Rule] < 3 {
			samples = append(samples, o)
			perRule[o.Rule]++
		}
		if len(samples) >= 60 {
			break
		}
	}
	var ruleTexts []string
	for _, r := range c.Rules {
		ruleTexts = append(ruleTexts, fmt.Sprintf("%s [%s, min %d]: %s", r.ID, r.Kind, r.Min, r.Text))
	}
	fns := make([]string, 0, len(c.FuncsSeen))
	for f := range c.FuncsSeen {
		fns = append(fns, f)
	}
	sort.Strings(fns)
	expl := "Static analysis of /repo's current working tree (type-checked with go/packages, SSA with go/ssa). " +
		"DECIDED (structural necessary conditions only, not the behaviour as a whole): " + c.Decides +
		" NOT DECIDED: " + c.NotDecided
	cov := map[string]any{
		"explanation":         expl,
		"obligations":         len(res.Obs),
		"discharged":          res.Discharged,
		"evaluations":         len(res.Obs),
		"distinct_nontrivial": len(distinct),
		"rule": "one obligation = one rule applied to one program construct (function, call site, store, statement, table entry) found in the current tree; " +
			"distinct = distinct rule+construct keys; non-trivial = the construct exists in the tree and was inspected (anchor/min-instance bookkeeping excluded). Rules: " + strings.Join(ruleTexts, " | "),
		"samples":            samples,
		"checker_cmd":        "bin/shverif check " + c.ID + " --tier " + c.Tier,
		"trusted_base":       TrustedBase,
		"rules":              c.Rules,
		"functions_analysed": fns,
		"call_sites":         c.CallSites,
		"known_findings":     len(res.Knowns),
		"notes":              c.notes,
		"exhaustive":         false,
	}
	if c.Prog != nil {
		cov["packages_loaded"] = len(c.Prog.AllPkgs)
		cov["files_type_checked"] = c.Prog.NumFiles()
	}
	for k, v := range extra {
		cov[k] = v
	}
	ev := evidence{
		PropertyID: c.ID, Tier: c.Tier, Seed: seed, Level: "other", Coverage: cov,
		Assumptions: []string{
			"the rules decide structural necessary conditions of the property, not the property as stated; see coverage.explanation",
			"object identity is approximated by SSA value identity and receiver-field paths (no pointer analysis)",
			"cgo bodies and third-party libraries are trusted as documented",
		},
		WallS: wall.Seconds(), Violations: len(res.Violations),
	}
	b, _ := json.MarshalIndent(ev, "", " ")
	if err := os.WriteFile(filepath.Join(dir, c.ID+".json"), b, 0o644); err != nil {
		return nil, err
	}
	for i, v := range res.Violations {
		name := filepath.Join(dir, "replay", fmt.Sprintf("%s-%02d.json", c.ID, i+1))
		rb, _ := json.MarshalIndent(map[string]any{
			"property": c.ID, "tier": c.Tier, "rule": v.Rule, "site": v.Site, "pos": v.Pos, "verdict": v.Verdict, "message": v.Msg,
			"how_to_replay": "cd /verif && bin/shverif check " + c.ID + " --tier " + c.Tier + "   (the analysis is deterministic; the same tree gives the same report)",
		}, "", " ")
		if err := os.WriteFile(name, rb, 0o644); err != nil {
			return nil, err
		}
		replays = append(replays, name)
	}
	return replays, nil
}
