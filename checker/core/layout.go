package core

// K3 "fixed layout" engine (AST + go/types).
//
// From the AST of one function it extracts every access made with the fixed-width
// primitives of encoding/binary
//
//	binary.LittleEndian.PutUint32(buf[a:b], x)    binary.BigEndian.PutUint64(buf[a:], x)
//	binary.LittleEndian.Uint32(buf[a:b])          binary.BigEndian.Uint64(buf)
//	buf = binary.BigEndian.AppendUint64(buf, x)   (runs of consecutive self-appends)
//
// as (root buffer, offset, width, byte order, what) tuples. Offsets are evaluated through
// types.Info constant values, never from the source text; local aliases that are defined
// exactly once as a constant re-slicing of another buffer (cur := c.scratch[16:]) are
// rebased onto that buffer. Anything the engine cannot evaluate (non-constant offset, a
// buffer variable that is re-assigned in a non prefix-preserving way, a dynamic byte
// order) is returned as an Issue; rule tables turn issues on the accesses they rely on
// into "undecided" obligations instead of guessing.
//
// "what" is name independent: a struct field (by *types.Var), a declared constant, a
// parameter position, len(parameter), or "local"/"expr". Nothing depends on the names of
// local variables.

import (
	"fmt"
	"go/ast"
	"go/constant"
	"go/token"
	"go/types"
	"sort"
	"strings"

	"golang.org/x/tools/go/packages"
	"golang.org/x/tools/go/ssa"
)

// LayoutAccess is one fixed-width read or write.
type LayoutAccess struct {
	Write    bool
	Append   bool           // AppendUintN: Off is relative to the start of the append run, Run identifies the run
	Run      int            // ordinal of the append run in the function (0 when !Append)
	Order    string         // "LE" | "BE"
	Off      int64          // offset from the start of Root
	Width    int64          // 2, 4 or 8 bytes
	End      int64          // explicit constant upper slice bound relative to Root, -1 when open (buf[a:])
	Root     types.Object   // variable / parameter / struct field the buffer expression is rooted at
	RootDesc string         // name independent description of Root
	What     string         // name independent description of the value written / the destination of the value read
	WhatObj  types.Object   // struct field (*types.Var) or declared constant (*types.Const) behind What, if any
	Const    constant.Value // constant value written (writers only), nil otherwise
	Call     *ast.CallExpr
	Pos      token.Pos
}

func (a LayoutAccess) String() string {
	dir := "read"
	if a.Write {
		dir = "write"
	}
	if a.Append {
		dir = "append"
	}
	return fmt.Sprintf("%s %s[%d:%d) %s %s", dir, a.RootDesc, a.Off, a.Off+a.Width, a.Order, a.What)
}

// LayoutIssue is an access the engine could not evaluate.
type LayoutIssue struct {
	Pos token.Pos
	Msg string
}

// Layout is the result for one function.
type Layout struct {
	Fn       *ast.FuncDecl
	Pkg      *packages.Package
	Accesses []LayoutAccess // source order
	Issues   []LayoutIssue
}

type layoutExtractor struct {
	info    *types.Info
	fd      *ast.FuncDecl
	parents map[ast.Node]ast.Node
	// per local variable: the expressions assigned to it (definitions and assignments)
	assigns map[types.Object][]ast.Expr
	// objects whose address is taken or that are assigned through a multi-value form
	opaque map[types.Object]bool
	params map[types.Object]int
	out    *Layout
}

// ExtractLayout extracts the fixed-width accesses of a function declaration.
func ExtractLayout(pkg *packages.Package, fd *ast.FuncDecl) *Layout {
	x := &layoutExtractor{
		info: pkg.TypesInfo, fd: fd,
		parents: map[ast.Node]ast.Node{}, assigns: map[types.Object][]ast.Expr{},
		opaque: map[types.Object]bool{}, params: map[types.Object]int{},
		out: &Layout{Fn: fd, Pkg: pkg},
	}
	if fd.Body == nil {
		return x.out
	}
	if fd.Type.Params != nil {
		i := 0
		for _, f := range fd.Type.Params.List {
			if len(f.Names) == 0 {
				i++
				continue
			}
			for _, n := range f.Names {
				if o := x.info.Defs[n]; o != nil {
					x.params[o] = i
				}
				i++
			}
		}
	}
	// parent links
	var stack []ast.Node
	ast.Inspect(fd.Body, func(n ast.Node) bool {
		if n == nil {
			stack = stack[:len(stack)-1]
			return true
		}
		if len(stack) > 0 {
			x.parents[n] = stack[len(stack)-1]
		}
		stack = append(stack, n)
		return true
	})
	x.collectAssigns()
	runs := x.appendRuns()
	ast.Inspect(fd.Body, func(n ast.Node) bool {
		call, ok := n.(*ast.CallExpr)
		if !ok {
			return true
		}
		x.visitCall(call, runs)
		return true
	})
	sort.SliceStable(x.out.Accesses, func(i, j int) bool { return x.out.Accesses[i].Pos < x.out.Accesses[j].Pos })
	return x.out
}

func (x *layoutExtractor) obj(id *ast.Ident) types.Object {
	if o := x.info.Uses[id]; o != nil {
		return o
	}
	return x.info.Defs[id]
}

func (x *layoutExtractor) collectAssigns() {
	ast.Inspect(x.fd.Body, func(n ast.Node) bool {
		switch s := n.(type) {
		case *ast.AssignStmt:
			if len(s.Lhs) == len(s.Rhs) {
				for i, l := range s.Lhs {
					if id, ok := l.(*ast.Ident); ok {
						if o := x.obj(id); o != nil {
							if s.Tok == token.ASSIGN || s.Tok == token.DEFINE {
								x.assigns[o] = append(x.assigns[o], s.Rhs[i])
							} else {
								x.opaque[o] = true // op-assign
							}
						}
					}
				}
			} else {
				for _, l := range s.Lhs {
					if id, ok := l.(*ast.Ident); ok {
						if o := x.obj(id); o != nil {
							x.assigns[o] = append(x.assigns[o], nil) // multi-value: unknown
						}
					}
				}
			}
		case *ast.ValueSpec:
			for i, id := range s.Names {
				o := x.info.Defs[id]
				if o == nil {
					continue
				}
				if len(s.Values) == len(s.Names) {
					x.assigns[o] = append(x.assigns[o], s.Values[i])
				} else if len(s.Values) == 0 {
					x.assigns[o] = append(x.assigns[o], &ast.BasicLit{Kind: token.INT, Value: "0"}) // zero value: a definition that is not an alias
				} else {
					x.assigns[o] = append(x.assigns[o], nil)
				}
			}
		case *ast.RangeStmt:
			for _, e := range []ast.Expr{s.Key, s.Value} {
				if id, ok := e.(*ast.Ident); ok {
					if o := x.obj(id); o != nil {
						x.assigns[o] = append(x.assigns[o], nil)
					}
				}
			}
		case *ast.UnaryExpr:
			if s.Op == token.AND {
				if id, ok := unparen(s.X).(*ast.Ident); ok {
					if o := x.obj(id); o != nil {
						// &arr of an array local is how buffers are usually shared; the address of a
						// slice variable lets anybody re-assign it
						if _, isSlice := o.Type().Underlying().(*types.Slice); isSlice {
							x.opaque[o] = true
						}
					}
				}
			}
		}
		return true
	})
}

func unparen(e ast.Expr) ast.Expr {
	for {
		p, ok := e.(*ast.ParenExpr)
		if !ok {
			return e
		}
		e = p.X
	}
}

// binaryMethod classifies a call of a method of encoding/binary's fixed byte orders.
func (x *layoutExtractor) binaryMethod(call *ast.CallExpr) (order, kind string, width int64, ok bool, dynamic bool) {
	sel, isSel := call.Fun.(*ast.SelectorExpr)
	if !isSel {
		return
	}
	fn, isFn := x.info.Uses[sel.Sel].(*types.Func)
	if !isFn || fn.Pkg() == nil || fn.Pkg().Path() != "encoding/binary" {
		return
	}
	name := fn.Name()
	for _, k := range []string{"PutUint", "AppendUint", "Uint"} {
		if strings.HasPrefix(name, k) {
			switch name[len(k):] {
			case "16":
				width = 2
			case "32":
				width = 4
			case "64":
				width = 8
			default:
				continue
			}
			kind = k
			break
		}
	}
	if kind == "" {
		return
	}
	sig, _ := fn.Type().(*types.Signature)
	if sig == nil || sig.Recv() == nil {
		return
	}
	rt := sig.Recv().Type()
	if named, isNamed := rt.(*types.Named); isNamed {
		switch named.Obj().Name() {
		case "littleEndian":
			return "LE", kind, width, true, false
		case "bigEndian":
			return "BE", kind, width, true, false
		}
	}
	// a method of the ByteOrder / AppendByteOrder interface: byte order decided at run time
	return "", kind, width, false, true
}

type bufRef struct {
	root types.Object
	desc string
	off  int64
	end  int64
}

func (x *layoutExtractor) rootDesc(o types.Object) string {
	if i, ok := x.params[o]; ok {
		return fmt.Sprintf("param#%d %s", i, ShortType(o.Type()))
	}
	if v, ok := o.(*types.Var); ok && v.IsField() {
		return "field " + v.Name() + " " + ShortType(o.Type())
	}
	return "local " + ShortType(o.Type())
}

// selfAppend reports whether rhs is append(o, ...) / binary.X.AppendUintN(o, ...): an
// assignment o = rhs keeps every byte already in o at its offset.
func (x *layoutExtractor) selfAppend(o types.Object, rhs ast.Expr) bool {
	call, ok := unparen(rhs).(*ast.CallExpr)
	if !ok || len(call.Args) == 0 {
		return false
	}
	first, ok := unparen(call.Args[0]).(*ast.Ident)
	if !ok || x.obj(first) != o {
		return false
	}
	if id, ok := call.Fun.(*ast.Ident); ok {
		if b, isB := x.info.Uses[id].(*types.Builtin); isB && b.Name() == "append" {
			return true
		}
	}
	if _, kind, _, ok, dyn := x.binaryMethod(call); (ok || dyn) && kind == "AppendUint" {
		return true
	}
	return false
}

// resolveBuf evaluates a buffer expression to (root, constant offset, constant end).
func (x *layoutExtractor) resolveBuf(e ast.Expr, depth int) (bufRef, string) {
	if depth > 8 {
		return bufRef{}, "alias chain too deep"
	}
	switch e := unparen(e).(type) {
	case *ast.Ident:
		o := x.obj(e)
		if o == nil {
			return bufRef{}, "unresolved identifier"
		}
		if _, isVar := o.(*types.Var); !isVar {
			return bufRef{}, "buffer is not a variable"
		}
		if x.opaque[o] {
			return bufRef{}, "buffer variable has its address taken or is op-assigned"
		}
		as := x.assigns[o]
		_, isParam := x.params[o]
		var defs []ast.Expr
		for _, a := range as {
			if a == nil {
				return bufRef{}, "buffer variable is assigned from a multi-value expression"
			}
			if x.selfAppend(o, a) {
				continue
			}
			defs = append(defs, a)
		}
		selfAppends := len(as) - len(defs)
		switch {
		case isParam && len(defs) == 0:
			return bufRef{root: o, desc: x.rootDesc(o), off: 0, end: -1}, ""
		case isParam:
			return bufRef{}, "buffer parameter is re-assigned (offsets would be flow dependent)"
		case len(defs) == 1:
			if selfAppends == 0 {
				// a single definition: an alias when it is a (re-slicing of a) buffer expression
				switch d := unparen(defs[0]).(type) {
				case *ast.SliceExpr, *ast.SelectorExpr:
					if r, why := x.resolveBuf(d, depth+1); why == "" {
						return r, ""
					}
					if _, isSlice := d.(*ast.SliceExpr); isSlice {
						return bufRef{}, "buffer is an alias of a slice expression that cannot be evaluated"
					}
				case *ast.Ident:
					if _, isVar := x.obj(d).(*types.Var); isVar {
						return x.resolveBuf(d, depth+1)
					}
				}
			}
			return bufRef{root: o, desc: x.rootDesc(o), off: 0, end: -1}, ""
		case len(defs) == 0:
			// declared without initialiser in a form not seen (e.g. named result)
			return bufRef{root: o, desc: x.rootDesc(o), off: 0, end: -1}, ""
		default:
			return bufRef{}, "buffer variable is assigned more than once (offsets would be flow dependent)"
		}
	case *ast.SelectorExpr:
		if sel := x.info.Selections[e]; sel != nil && sel.Kind() == types.FieldVal {
			o := sel.Obj()
			return bufRef{root: o, desc: x.rootDesc(o), off: 0, end: -1}, ""
		}
		if o, ok := x.info.Uses[e.Sel].(*types.Var); ok { // package-level variable
			return bufRef{root: o, desc: "global " + ShortType(o.Type()), off: 0, end: -1}, ""
		}
		return bufRef{}, "buffer selector is not a field"
	case *ast.SliceExpr:
		base, why := x.resolveBuf(e.X, depth+1)
		if why != "" {
			return bufRef{}, why
		}
		lo := int64(0)
		if e.Low != nil {
			v, ok := x.constInt(e.Low)
			if !ok {
				return bufRef{}, "non-constant slice offset"
			}
			lo = v
		}
		r := bufRef{root: base.root, desc: base.desc, off: base.off + lo, end: -1}
		if e.High != nil {
			if v, ok := x.constInt(e.High); ok {
				r.end = base.off + v
			}
		} else if base.end >= 0 {
			r.end = base.end
		}
		return r, ""
	}
	return bufRef{}, "buffer expression form not supported"
}

func (x *layoutExtractor) constInt(e ast.Expr) (int64, bool) {
	tv, ok := x.info.Types[e]
	if !ok || tv.Value == nil {
		return 0, false
	}
	v := constant.ToInt(tv.Value)
	if v.Kind() != constant.Int {
		return 0, false
	}
	return constant.Int64Val(v)
}

// stripConv removes parentheses and type conversions.
func (x *layoutExtractor) stripConv(e ast.Expr) ast.Expr {
	for {
		e = unparen(e)
		call, ok := e.(*ast.CallExpr)
		if !ok || len(call.Args) != 1 {
			return e
		}
		if tv, ok := x.info.Types[call.Fun]; ok && tv.IsType() {
			e = call.Args[0]
			continue
		}
		return e
	}
}

func fieldDesc(sel *types.Selection) string {
	t := sel.Recv()
	if p, ok := t.(*types.Pointer); ok {
		t = p.Elem()
	}
	return "field " + ShortType(t) + "." + sel.Obj().Name()
}

// describeValue gives the name independent description of a written value.
func (x *layoutExtractor) describeValue(e ast.Expr) (what string, obj types.Object, cv constant.Value) {
	if tv, ok := x.info.Types[e]; ok && tv.Value != nil {
		cv = tv.Value
	}
	in := x.stripConv(e)
	if cv != nil {
		what = "const " + cv.ExactString()
		switch c := in.(type) {
		case *ast.Ident:
			if k, ok := x.info.Uses[c].(*types.Const); ok {
				obj = k
			}
		case *ast.SelectorExpr:
			if k, ok := x.info.Uses[c.Sel].(*types.Const); ok {
				obj = k
			}
		}
		return
	}
	switch v := in.(type) {
	case *ast.SelectorExpr:
		if sel := x.info.Selections[v]; sel != nil && sel.Kind() == types.FieldVal {
			return fieldDesc(sel), sel.Obj(), nil
		}
	case *ast.Ident:
		if o := x.obj(v); o != nil {
			if i, ok := x.params[o]; ok {
				return fmt.Sprintf("param#%d", i), nil, nil
			}
			return "local", nil, nil
		}
	case *ast.CallExpr:
		if id, ok := v.Fun.(*ast.Ident); ok && len(v.Args) == 1 {
			if b, isB := x.info.Uses[id].(*types.Builtin); isB && b.Name() == "len" {
				if a, ok := unparen(v.Args[0]).(*ast.Ident); ok {
					if i, ok := x.params[x.obj(a)]; ok {
						return fmt.Sprintf("len(param#%d)", i), nil, nil
					}
				}
				return "len(expr)", nil, nil
			}
		}
	}
	return "expr", nil, nil
}

// describeDest finds where the value of a read call goes.
func (x *layoutExtractor) describeDest(call *ast.CallExpr) (string, types.Object) {
	var cur ast.Node = call
	for {
		p := x.parents[cur]
		switch pp := p.(type) {
		case *ast.ParenExpr:
			cur = pp
			continue
		case *ast.CallExpr:
			if tv, ok := x.info.Types[pp.Fun]; ok && tv.IsType() && len(pp.Args) == 1 {
				cur = pp
				continue
			}
			return "argument", nil
		case *ast.AssignStmt:
			if len(pp.Lhs) == len(pp.Rhs) {
				for i, r := range pp.Rhs {
					if r == cur {
						switch l := unparen(pp.Lhs[i]).(type) {
						case *ast.SelectorExpr:
							if sel := x.info.Selections[l]; sel != nil && sel.Kind() == types.FieldVal {
								return fieldDesc(sel), sel.Obj()
							}
						case *ast.Ident:
							return "local", nil
						}
					}
				}
			}
			return "expr", nil
		case *ast.KeyValueExpr:
			if pp.Value == cur {
				if id, ok := pp.Key.(*ast.Ident); ok {
					if f, ok := x.info.Uses[id].(*types.Var); ok && f.IsField() {
						if lit, ok := x.parents[pp].(*ast.CompositeLit); ok {
							if tv, ok := x.info.Types[lit]; ok {
								return "field " + ShortType(tv.Type) + "." + f.Name(), f
							}
						}
						return "field " + f.Name(), f
					}
				}
			}
			return "expr", nil
		case *ast.ValueSpec:
			return "local", nil
		case *ast.BinaryExpr:
			switch pp.Op {
			case token.EQL, token.NEQ, token.LSS, token.GTR, token.LEQ, token.GEQ:
				return "compared", nil
			}
			return "expr", nil
		case *ast.ReturnStmt:
			for i, r := range pp.Results {
				if r == cur {
					return fmt.Sprintf("result#%d", i), nil
				}
			}
			return "expr", nil
		}
		return "expr", nil
	}
}

type appendRun struct {
	id  int
	off int64
}

// appendRuns numbers the runs of consecutive statements `b = binary.X.AppendUintN(b, v)`
// on the same variable inside one statement list and gives every call its offset from
// the start of its run.
func (x *layoutExtractor) appendRuns() map[*ast.CallExpr]appendRun {
	out := map[*ast.CallExpr]appendRun{}
	nextID := 0
	visit := func(list []ast.Stmt) {
		var curObj types.Object
		var off int64
		id := 0
		for _, st := range list {
			as, ok := st.(*ast.AssignStmt)
			var call *ast.CallExpr
			var o types.Object
			if ok && len(as.Lhs) == 1 && len(as.Rhs) == 1 && as.Tok == token.ASSIGN {
				if l, isID := as.Lhs[0].(*ast.Ident); isID {
					if c, isCall := unparen(as.Rhs[0]).(*ast.CallExpr); isCall {
						if _, kind, _, okb, dyn := x.binaryMethod(c); (okb || dyn) && kind == "AppendUint" && x.selfAppend(x.obj(l), c) {
							call, o = c, x.obj(l)
						}
					}
				}
			}
			if call == nil {
				curObj = nil
				continue
			}
			if o != curObj {
				nextID++
				id, off, curObj = nextID, 0, o
			}
			_, _, w, _, _ := x.binaryMethod(call)
			out[call] = appendRun{id: id, off: off}
			off += w
		}
	}
	ast.Inspect(x.fd.Body, func(n ast.Node) bool {
		switch b := n.(type) {
		case *ast.BlockStmt:
			visit(b.List)
		case *ast.CaseClause:
			visit(b.Body)
		case *ast.CommClause:
			visit(b.Body)
		}
		return true
	})
	return out
}

func (x *layoutExtractor) issue(pos token.Pos, format string, a ...any) {
	x.out.Issues = append(x.out.Issues, LayoutIssue{Pos: pos, Msg: fmt.Sprintf(format, a...)})
}

func (x *layoutExtractor) visitCall(call *ast.CallExpr, runs map[*ast.CallExpr]appendRun) {
	order, kind, width, ok, dyn := x.binaryMethod(call)
	if dyn {
		x.issue(call.Pos(), "%s%d through a byte order chosen at run time", kind, width*8)
		return
	}
	if !ok || len(call.Args) == 0 {
		return
	}
	switch kind {
	case "AppendUint":
		if len(call.Args) != 2 {
			return
		}
		r, inRun := runs[call]
		if !inRun {
			x.issue(call.Pos(), "AppendUint%d whose result is not assigned back to its buffer argument in a plain statement", width*8)
			return
		}
		root, _ := unparen(call.Args[0]).(*ast.Ident)
		o := x.obj(root)
		what, wobj, cv := x.describeValue(call.Args[1])
		x.out.Accesses = append(x.out.Accesses, LayoutAccess{Write: true, Append: true, Run: r.id, Order: order, Off: r.off, Width: width, End: -1,
			Root: o, RootDesc: x.rootDesc(o), What: what, WhatObj: wobj, Const: cv, Call: call, Pos: call.Pos()})
	case "PutUint", "Uint":
		write := kind == "PutUint"
		if write && len(call.Args) != 2 || !write && len(call.Args) != 1 {
			return
		}
		b, why := x.resolveBuf(call.Args[0], 0)
		if why != "" {
			x.issue(call.Pos(), "%s%d: %s", kind, width*8, why)
			return
		}
		a := LayoutAccess{Write: write, Order: order, Off: b.off, Width: width, End: b.end, Root: b.root, RootDesc: b.desc, Call: call, Pos: call.Pos()}
		if write {
			a.What, a.WhatObj, a.Const = x.describeValue(call.Args[1])
		} else {
			a.What, a.WhatObj = x.describeDest(call)
		}
		x.out.Accesses = append(x.out.Accesses, a)
	}
}

// ---- queries -------------------------------------------------------------------------

// Roots lists the distinct root buffers accessed, in order of first access.
func (l *Layout) Roots(write bool) []types.Object {
	var out []types.Object
	seen := map[types.Object]bool{}
	for _, a := range l.Accesses {
		if a.Write == write && !a.Append && !seen[a.Root] {
			seen[a.Root] = true
			out = append(out, a.Root)
		}
	}
	return out
}

// On returns the (non-append) accesses of the given direction on one root buffer, sorted by offset.
func (l *Layout) On(root types.Object, write bool) []LayoutAccess {
	var out []LayoutAccess
	for _, a := range l.Accesses {
		if a.Root == root && a.Write == write && !a.Append {
			out = append(out, a)
		}
	}
	sort.SliceStable(out, func(i, j int) bool { return out[i].Off < out[j].Off })
	return out
}

// AppendRunsOf returns the append runs (each sorted by offset).
func (l *Layout) AppendRunsOf() [][]LayoutAccess {
	by := map[int][]LayoutAccess{}
	var ids []int
	for _, a := range l.Accesses {
		if a.Append {
			if _, ok := by[a.Run]; !ok {
				ids = append(ids, a.Run)
			}
			by[a.Run] = append(by[a.Run], a)
		}
	}
	sort.Ints(ids)
	var out [][]LayoutAccess
	for _, id := range ids {
		out = append(out, by[id])
	}
	return out
}

// LayoutString renders a list of accesses.
func LayoutString(as []LayoutAccess) string {
	parts := make([]string, len(as))
	for i, a := range as {
		parts[i] = fmt.Sprintf("[%d:%d)%s %s", a.Off, a.Off+a.Width, a.Order, a.What)
	}
	return strings.Join(parts, ", ")
}

// Tile checks that the accesses cover [from,to) exactly once in increasing source order
// of offsets (no gap, no overlap, nothing outside) and that every explicit upper slice
// bound equals offset+width. It returns the list of problems (empty = tiles).
func Tile(as []LayoutAccess, from, to int64) []string {
	var probs []string
	sorted := append([]LayoutAccess(nil), as...)
	sort.SliceStable(sorted, func(i, j int) bool { return sorted[i].Off < sorted[j].Off })
	pos := from
	for _, a := range sorted {
		if a.End >= 0 && a.End != a.Off+a.Width {
			probs = append(probs, fmt.Sprintf("access at offset %d is %d bytes wide but its slice ends at %d", a.Off, a.Width, a.End))
		}
		switch {
		case a.Off < pos:
			probs = append(probs, fmt.Sprintf("bytes [%d:%d) are accessed twice or lie before the start %d", a.Off, min64(pos, a.Off+a.Width), from))
		case a.Off > pos:
			probs = append(probs, fmt.Sprintf("bytes [%d:%d) are never accessed (gap)", pos, a.Off))
		}
		if a.Off+a.Width > pos {
			pos = a.Off + a.Width
		}
	}
	if pos < to {
		probs = append(probs, fmt.Sprintf("bytes [%d:%d) are never accessed (the layout ends short of the declared size %d)", pos, to, to))
	}
	if pos > to {
		probs = append(probs, fmt.Sprintf("the layout extends to byte %d, past the declared size %d", pos, to))
	}
	return probs
}

func min64(a, b int64) int64 {
	if a < b {
		return a
	}
	return b
}

// CompareOpts tunes CompareLayouts.
type CompareOpts struct {
	// ReaderMaySkip lists writer offsets the reader is allowed not to read (with the reason
	// documented by the rule table, e.g. the magic that the dispatcher already consumed).
	ReaderMaySkip map[int64]bool
	// Shift is added to reader offsets before comparison (reader buffer starts Shift bytes
	// into the writer's buffer).
	Shift int64
}

// CompareLayouts compares a writer and a reader access list: every reader access must
// have a writer access with the same offset, width and byte order; every writer access
// must be read unless its offset is in ReaderMaySkip; where both sides name a struct
// field the field names must agree (same field order); and the reader must consume the
// fields in increasing offset order iff the writer produced them so. It returns the
// list of mismatches.
func CompareLayouts(w, r []LayoutAccess, o CompareOpts) []string {
	var probs []string
	wm := map[int64]LayoutAccess{}
	for _, a := range w {
		if prev, dup := wm[a.Off]; dup {
			probs = append(probs, fmt.Sprintf("writer stores twice at offset %d (%s and %s)", a.Off, prev.What, a.What))
		}
		wm[a.Off] = a
	}
	seen := map[int64]bool{}
	for _, a := range r {
		off := a.Off + o.Shift
		wa, ok := wm[off]
		if !ok {
			probs = append(probs, fmt.Sprintf("reader reads %d bytes at offset %d (%s) where the writer stores no field; writer layout: %s", a.Width, off, a.What, LayoutString(w)))
			continue
		}
		seen[off] = true
		if wa.Width != a.Width {
			probs = append(probs, fmt.Sprintf("offset %d: writer stores %d bytes (%s), reader reads %d bytes (%s)", off, wa.Width, wa.What, a.Width, a.What))
		}
		if wa.Order != a.Order {
			probs = append(probs, fmt.Sprintf("offset %d: writer byte order %s, reader byte order %s", off, wa.Order, a.Order))
		}
		wf, wok := wa.WhatObj.(*types.Var)
		rf, rok := a.WhatObj.(*types.Var)
		if wok && rok && wf.IsField() && rf.IsField() && wf.Name() != rf.Name() {
			probs = append(probs, fmt.Sprintf("offset %d: writer stores %s, reader loads it into %s", off, wa.What, a.What))
		}
	}
	for _, a := range w {
		if !seen[a.Off] && !o.ReaderMaySkip[a.Off] {
			probs = append(probs, fmt.Sprintf("writer field at offset %d (%s, %d bytes) is never read by the reader; reader layout: %s", a.Off, a.What, a.Width, LayoutString(r)))
		}
	}
	return probs
}

// SSACallAt finds the SSA call instruction generated for an AST call expression.
func SSACallAt(fn *ssa.Function, call *ast.CallExpr) *ssa.Call {
	for _, b := range fn.Blocks {
		for _, in := range b.Instrs {
			if c, ok := in.(*ssa.Call); ok && c.Pos() == call.Lparen {
				return c
			}
		}
	}
	return nil
}

// PkgConstInt64 looks a package-level integer constant up by name through the type checker.
func PkgConstInt64(pkg *packages.Package, name string) (int64, bool) {
	if pkg == nil || pkg.Types == nil {
		return 0, false
	}
	c, ok := pkg.Types.Scope().Lookup(name).(*types.Const)
	if !ok {
		return 0, false
	}
	v := constant.ToInt(c.Val())
	if v.Kind() != constant.Int {
		return 0, false
	}
	return constant.Int64Val(v)
}

// ArrayLen returns the length of an object's array type ([N]T or *[N]T), -1 otherwise.
func ArrayLen(o types.Object) int64 {
	if o == nil {
		return -1
	}
	t := o.Type().Underlying()
	if p, ok := t.(*types.Pointer); ok {
		t = p.Elem().Underlying()
	}
	if a, ok := t.(*types.Array); ok {
		return a.Len()
	}
	return -1
}
