package core

import (
	"fmt"
	"go/constant"
	"go/token"

	"golang.org/x/tools/go/ssa"
)

// K9 — tainted allocation bound.
//
// A `make([]T, n)` (ssa.MakeSlice) whose length or capacity is computed from the
// result of an enumerated decode primitive (an element count read from the wire)
// must be dominated by a bound on that count:
//
//	n <  C / n <= C / n == C      C a constant, len(x) or cap(x) of an existing slice
//	CheckLengthSanity(buf, n, k) == nil   with constant k >= 1 (the repo's idiom:
//	                                      n*k <= len(buf), so n is bounded by bytes present)
//
// The analysis is intraprocedural: the count is followed from the MakeSlice operand
// back through conversions, arithmetic, phis and loads of local cells to (a) an
// Extract of a source call or (b) a local cell whose address was handed to a source
// call (basictl.NatRead(r, &l)). A count that arrives as a parameter is not tracked
// (the caller is responsible; reported in Roots as "param" for information only).

// TaintSource names a decode primitive and where the decoded count appears.
type TaintSource struct {
	Callee string // canonical callee glob
	Result int    // index in the result tuple (-1 when delivered through PtrArg)
	PtrArg int    // argument index of the *uint32/*int destination (-1 when unused)
}

// DecodeCountSources is the enumerated list of primitives that return an
// attacker-controlled number.
var DecodeCountSources = []TaintSource{
	{Callee: "github.com/tinylib/msgp/msgp.ReadMapHeaderBytes", Result: 0, PtrArg: -1},
	{Callee: "github.com/tinylib/msgp/msgp.ReadArrayHeaderBytes", Result: 0, PtrArg: -1},
	{Callee: "internal/vkgo/basictl.NatRead", Result: -1, PtrArg: 1},
	{Callee: "internal/vkgo/basictl.NatReadTag", Result: 0, PtrArg: -1},
	{Callee: "google.golang.org/protobuf/encoding/protowire.ConsumeVarint", Result: 0, PtrArg: -1},
	{Callee: "google.golang.org/protobuf/encoding/protowire.ConsumeFixed32", Result: 0, PtrArg: -1},
	{Callee: "google.golang.org/protobuf/encoding/protowire.ConsumeFixed64", Result: 0, PtrArg: -1},
	{Callee: "google.golang.org/protobuf/encoding/protowire.ConsumeTag", Result: 0, PtrArg: -1},
}

// TaintRoot is one decoded count a MakeSlice size depends on.
type TaintRoot struct {
	Call *ssa.Call  // the source call
	Val  ssa.Value  // the Extract / call value (register root), nil for cell roots
	Cell *ssa.Alloc // the local cell written by the source (cell root), nil otherwise
}

func (r TaintRoot) String() string {
	if r.Cell != nil {
		return "count stored by " + CalleeName(&r.Call.Call) + " into a local"
	}
	return "count returned by " + CalleeName(&r.Call.Call)
}

// TaintedAlloc is one MakeSlice whose size is decoded input.
type TaintedAlloc struct {
	Fn      *ssa.Function
	Make    *ssa.MakeSlice
	Roots   []TaintRoot
	Bounded bool
	How     string // the bound found, or why none was found
}

func matchSource(call *ssa.Call, sources []TaintSource) (TaintSource, bool) {
	name := CalleeName(&call.Call)
	for _, s := range sources {
		if Glob(s.Callee, name) {
			return s, true
		}
	}
	return TaintSource{}, false
}

// TaintedAllocs finds the MakeSlice instructions of fns sized by decoded counts and
// decides for each whether a bound dominates it. sanity is the canonical name of the
// length-sanity function (third argument = minimal element size).
func TaintedAllocs(fns []*ssa.Function, sources []TaintSource, sanity string) []TaintedAlloc {
	var out []TaintedAlloc
	for _, fn := range fns {
		for _, b := range fn.Blocks {
			for _, in := range b.Instrs {
				mk, ok := in.(*ssa.MakeSlice)
				if !ok {
					continue
				}
				var roots []TaintRoot
				seen := map[ssa.Value]bool{}
				collectRoots(mk.Len, sources, seen, &roots)
				collectRoots(mk.Cap, sources, seen, &roots)
				if len(roots) == 0 {
					continue
				}
				ta := TaintedAlloc{Fn: fn, Make: mk, Roots: roots, Bounded: true}
				for _, r := range roots {
					how, ok := boundFor(mk, r, sources, sanity)
					if !ok {
						ta.Bounded = false
						ta.How = r.String() + ": " + how
						break
					}
					if ta.How != "" {
						ta.How += "; "
					}
					ta.How += how
				}
				out = append(out, ta)
			}
		}
	}
	return out
}

func collectRoots(v ssa.Value, sources []TaintSource, seen map[ssa.Value]bool, roots *[]TaintRoot) {
	if v == nil || seen[v] {
		return
	}
	seen[v] = true
	switch x := v.(type) {
	case *ssa.Convert:
		collectRoots(x.X, sources, seen, roots)
	case *ssa.ChangeType:
		collectRoots(x.X, sources, seen, roots)
	case *ssa.BinOp:
		collectRoots(x.X, sources, seen, roots)
		collectRoots(x.Y, sources, seen, roots)
	case *ssa.Phi:
		for _, e := range x.Edges {
			collectRoots(e, sources, seen, roots)
		}
	case *ssa.Extract:
		if call, ok := x.Tuple.(*ssa.Call); ok {
			if s, is := matchSource(call, sources); is && s.Result == x.Index {
				*roots = append(*roots, TaintRoot{Call: call, Val: x})
			}
		}
	case *ssa.Call:
		if s, is := matchSource(x, sources); is && s.Result == 0 && x.Call.Signature().Results().Len() == 1 {
			*roots = append(*roots, TaintRoot{Call: x, Val: x})
		}
	case *ssa.UnOp:
		if x.Op != token.MUL {
			collectRoots(x.X, sources, seen, roots)
			return
		}
		cell, ok := x.X.(*ssa.Alloc)
		if !ok {
			return
		}
		// a local cell: written by stores and by source calls that receive its address
		for _, ref := range Referrers(cell) {
			switch r := ref.(type) {
			case *ssa.Store:
				if r.Addr == cell {
					collectRoots(r.Val, sources, seen, roots)
				}
			case *ssa.Call:
				if s, is := matchSource(r, sources); is && s.PtrArg >= 0 && s.PtrArg < len(r.Call.Args) && r.Call.Args[s.PtrArg] == cell {
					*roots = append(*roots, TaintRoot{Call: r, Cell: cell})
				}
			}
		}
	}
}

// sameCount reports whether v is the root's count itself (modulo conversions), and
// for cell roots that the load happens after the source call.
func sameCount(v ssa.Value, r TaintRoot) bool {
	for {
		switch x := v.(type) {
		case *ssa.Convert:
			v = x.X
			continue
		case *ssa.ChangeType:
			v = x.X
			continue
		}
		break
	}
	if r.Cell == nil {
		return v == r.Val
	}
	u, ok := v.(*ssa.UnOp)
	return ok && u.Op == token.MUL && u.X == r.Cell && Dominates(r.Call, u)
}

func isBoundOperand(v ssa.Value) (string, bool) {
	for {
		if c, ok := v.(*ssa.Convert); ok {
			v = c.X
			continue
		}
		break
	}
	switch x := v.(type) {
	case *ssa.Const:
		if x.Value != nil && x.Value.Kind() == constant.Int {
			return x.Value.String(), true
		}
	case *ssa.Call:
		if b, ok := x.Call.Value.(*ssa.Builtin); ok && (b.Name() == "len" || b.Name() == "cap") {
			return Expr(x), true
		}
	}
	return "", false
}

// boundFor searches the guards dominating mk for a bound of the root's count.
func boundFor(mk *ssa.MakeSlice, r TaintRoot, sources []TaintSource, sanity string) (string, bool) {
	if r.Cell != nil {
		// the cell must not be overwritten by another source call between the bound and the allocation;
		// we require that the only source call writing it that can reach mk is r.Call itself
		for _, ref := range Referrers(r.Cell) {
			if c, ok := ref.(*ssa.Call); ok && c != r.Call {
				if s, is := matchSource(c, sources); is && s.PtrArg >= 0 && s.PtrArg < len(c.Call.Args) && c.Call.Args[s.PtrArg] == r.Cell {
					return "the local holding the count is written by more than one decode call", false
				}
			}
			if st, ok := ref.(*ssa.Store); ok && st.Addr == r.Cell && Dominates(r.Call, st) {
				return "the local holding the count is assigned again after the decode call", false
			}
		}
		if !Dominates(r.Call, mk) {
			return "the decode call does not dominate the allocation", false
		}
	}
	for _, g := range Facts(mk.Block()) {
		how := ""
		all := len(g.Alts) > 0
		for _, l := range g.Alts {
			h, ok := litBounds(l, r, sanity)
			if !ok {
				all = false
				break
			}
			how = h
		}
		if all {
			return how, true
		}
	}
	return "no dominating comparison with a constant / len / cap and no successful " + sanity + " on this count; guards here: " + FactsString(mk.Block()), false
}

func litBounds(l Lit, r TaintRoot, sanity string) (string, bool) {
	switch l.Op {
	case token.LSS:
		if l.Pol && sameCount(l.X, r) {
			if s, ok := isBoundOperand(l.Y); ok {
				return "count < " + s, true
			}
		}
		if !l.Pol && sameCount(l.Y, r) {
			if s, ok := isBoundOperand(l.X); ok {
				return "count <= " + s, true
			}
		}
	case token.EQL:
		if !l.Pol {
			return "", false
		}
		if sameCount(l.X, r) {
			if s, ok := isBoundOperand(l.Y); ok {
				return "count == " + s, true
			}
		}
		// CheckLengthSanity(buf, count, k) == nil
		if c, isNil := l.Y.(*ssa.Const); isNil && c.Value == nil {
			if call, ok := l.X.(*ssa.Call); ok && CalleeName(&call.Call) == sanity && len(call.Call.Args) == 3 && sameCount(call.Call.Args[1], r) {
				if k, isK := call.Call.Args[2].(*ssa.Const); isK && k.Value != nil && k.Value.Kind() == constant.Int {
					if n, exact := constant.Int64Val(k.Value); exact && n >= 1 {
						if r.Cell == nil || Dominates(r.Call, call) {
							return fmt.Sprintf("%s(buf, count, %d) == nil", sanity, n), true
						}
					}
				}
			}
		}
	}
	return "", false
}
