#!/usr/bin/env python3
"""Regenerates /verif/MANIFEST.json from tools/claims.json and the list of registered checks."""
import json, subprocess, os, sys
V = '/verif'
claims = json.load(open(f'{V}/tools/claims.json'))
ids = subprocess.run([f'{V}/bin/shverif', 'list'], capture_output=True, text=True).stdout.split()
props = [json.loads(l) for l in open(f'{V}/properties.jsonl')]
baseline = json.load(open('/root/.vp/BASELINE.json'))['cmd']
checks, na = [], []

def extra_clauses():
    """Clauses added after the first rule tables (props/extra_*.go): the `c.Decides +=` texts, per property."""
    import re, glob
    out = {}
    for f in sorted(glob.glob(f'{V}/checker/props/extra_*.go')):
        src = open(f).read()
        fn2prop = {}
        for m in re.finditer(r'Extend\("(C\d\d)",\s*(\w+)', src):
            fn2prop[m.group(2)] = m.group(1)
        parts = re.split(r'^func ', src, flags=re.M)
        for part in parts[1:]:
            name = re.match(r'(\w+)\(', part)
            if not name:
                continue
            fn = name.group(1)
            prop = fn2prop.get(fn)
            if fn == 'runC31Deadline':
                prop = 'C31'
            if not prop:
                continue
            for d in re.findall(r'c\.Decides \+= "((?:[^"\\]|\\.)*)"', part):
                out.setdefault(prop, []).append(d.strip().replace('\\"', '"').replace('\\\\', '\\'))
    return out
EXTRA = extra_clauses()
for p in props:
    pid = p['id']
    cl = claims.get(pid, {})
    if pid in ids and cl.get('claim', True):
        checks.append({
            "property_id": pid,
            "quick_cmd": f"bin/shverif check {pid} --tier quick",
            "thorough_cmd": f"bin/shverif check {pid} --tier thorough",
            "evidence_file": f"/verif/evidence/{pid}.json",
            "replay_cmd_template": f"bin/shverif check {pid} --tier quick   # deterministic: the report at {{path}} names rule, construct and file:line",
            "engine": "shverif",
            "level_claimed": {
                "category": "other",
                "text": cl.get('text', '') + ((' Clauses added after seeded changes and probes (each a structural necessary condition with its own positive control): ' + ' '.join(EXTRA[pid])) if pid in EXTRA else ''),
                "design_ref": f"DESIGN.md section 4, {pid}",
            },
            "level_note": cl.get('note', "Trusted: go/types, go/ssa, go/packages (x/tools v0.29.0); the rule tables in checker/props (each allow-list entry with its reason); documented behaviour of the Go standard library. Object identity is approximated by SSA value identity (no pointer analysis)."),
            "technique": cl.get('technique', 'static analysis: repository-specific SSA/AST rules (guard dominance, who-may-call/write, must-pass-through, value provenance)'),
        })
    else:
        na.append({"property_id": pid, "reason": cl.get('na_reason', 'no sound static rule is implemented for this property in the current state of the checker; see DESIGN.md')})
m = {
    "version": 1,
    "setup_cmd": "cd /verif/checker && GOFLAGS=-mod=mod GOPROXY=off GOWORK=off go build -o /verif/bin/shverif ./cmd/shverif",
    "hooks": {
        "guard": "verif",
        "enable": "none: the checks are static analyses of the unmodified source; no instrumentation is compiled into /repo",
        "baseline_off_cmd": baseline,
        "source_commits": [],
        "add_only": True,
    },
    "engines": [{"name": "shverif", "path": "/verif/checker", "serves_properties": [c['property_id'] for c in checks],
                 "kind_free_text": "Go program on golang.org/x/tools v0.29.0 (go/packages, go/ssa, go/types): repository-specific static rules K1..K13 (DESIGN.md section 3) evaluated on /repo's working tree on every run"}],
    "checks": checks,
    "notes": "All claims are level 'other': each check decides structural necessary conditions of its property (listed in level_claimed.text and in the evidence explanation), never the behaviour as a whole. Thorough tier = whole-program load (./...) + positive controls (mutants applied through the loader overlay that must be caught). Known findings: /verif/known_findings.json.",
    "not_applicable": na,
}
json.dump(m, open(f'{V}/MANIFEST.json', 'w'), indent=1)
print(f"checks={len(checks)} not_applicable={len(na)}")
