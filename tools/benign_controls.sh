#!/bin/bash
# Negative controls: behaviour-preserving edits of anchored files (renamed locals, reordered
# conjuncts, swapped if/else, reordered independent statements) must leave the checks silent.
# Runs through the loader overlay (SHVERIF_OVERLAY); writes nothing into /repo or /verif/evidence.
set -u
T=$(mktemp -d /tmp/benign.XXXXXX)
python3 - "$T" <<'PY'
import re, sys
T = sys.argv[1]
s = open('/repo/internal/agent/agent_shard_send.go').read()
s = s.replace('respV3', 'answer').replace('cbd compressedBucketData', 'sec compressedBucketData')
s = re.sub(r'\bcbd\b', 'sec', s)
s = s.replace('''	if !answer.IsSetDiscard() {
		shardReplica.stats.recentSendKeep.Add(1)
		return false
	}
	shardReplica.stats.recentSendSuccess.Add(1)
	return true''', '''	if answer.IsSetDiscard() {
		shardReplica.stats.recentSendSuccess.Add(1)
		return true
	}
	shardReplica.stats.recentSendKeep.Add(1)
	return false''')
s = s.replace('''		if s.sendRecent(cancelCtx, sec, sendMoreBytes) {
			s.diskCacheEraseWithLog(sec.id, "after sending")
		} else {
			sec = s.diskCachePutWithLog(sec) // NOP if saved above
			s.appendHistoricBucketsToSend(sec)
		}''', '''		acked := s.sendRecent(cancelCtx, sec, sendMoreBytes)
		if !acked {
			sec = s.diskCachePutWithLog(sec) // NOP if saved above
			s.appendHistoricBucketsToSend(sec)
		} else {
			s.diskCacheEraseWithLog(sec.id, "after sending")
		}''')
open(T + '/agent_shard_send.go', 'w').write(s)
a = open('/repo/internal/aggregator/aggregator.go').read()
open(T + '/aggregator.go', 'w').write(a.replace('sendErr', 'insertErr').replace('aggBuckets', 'batch'))
s = open('/repo/internal/metajournal/meta_metrics.go').read()
s = re.sub(r'\bvalueOld\b', 'prev', s); s = re.sub(r'\bidExists\b', 'known', s)
s = s.replace('if !known || prev.Name != value.Name || prev.Disable != value.Disable {', 'if prev.Disable != value.Disable || !known || value.Name != prev.Name {')
s = s.replace('if cur, ok := ms.metricsByName[prev.Name]; ok && cur.MetricID == value.MetricID {', 'if holder, found := ms.metricsByName[prev.Name]; found && value.MetricID == holder.MetricID {')
open(T + '/meta_metrics.go', 'w').write(s)
j = open('/repo/internal/metajournal/journal_fast.go').read()
j = j.replace('lastEventVersion', 'lastSeen').replace('if lastSeen == ms.currentVersion && loaderVersion >= ms.currentVersion {', 'if loaderVersion >= ms.currentVersion && ms.currentVersion == lastSeen {')
j = j.replace('''	ms.stateHash.Hi ^= old.hash.Hi
	ms.stateHash.Lo ^= old.hash.Lo
	ms.stateHash.Hi ^= hash.Hi
	ms.stateHash.Lo ^= hash.Lo''', '''	ms.stateHash.Lo ^= hash.Lo
	ms.stateHash.Hi ^= old.hash.Hi
	ms.stateHash.Hi ^= hash.Hi
	ms.stateHash.Lo ^= old.hash.Lo''')
open(T + '/journal_fast.go', 'w').write(j)
q = open('/repo/internal/api/sql_query_series.go').read()
q = re.sub(r'\bhasValue\b', 'anyStr', q); q = re.sub(r'\bstarted\b', 'begun', q); q = re.sub(r'\bsb\b', 'out', q)
open(T + '/sql_query_series.go', 'w').write(q)
PY
rc=0
run() { # id overlay
  out=$(SHVERIF_DIR=$T SHVERIF_OVERLAY="$2" /verif/bin/shverif check "$1" 2>&1 | grep -v '^WARNING')
  echo "$out" | tail -1
  echo "$out" | grep -q ' 0 violation(s)' || { echo "BENIGN CONTROL FIRED for $1"; echo "$out" | grep VIOLATION | cut -c1-300; rc=1; }
}
cp /verif/known_findings.json $T/
run C01 "internal/agent/agent_shard_send.go=$T/agent_shard_send.go;internal/aggregator/aggregator.go=$T/aggregator.go"
run C20 "internal/metajournal/meta_metrics.go=$T/meta_metrics.go;internal/metajournal/journal_fast.go=$T/journal_fast.go"
run C26 "internal/api/sql_query_series.go=$T/sql_query_series.go"

# second batch: behaviour-preserving rewrites aimed at the rules added from seeds
python3 - "$T" <<'PY'
import re, sys
T = sys.argv[1]
def rep(s, old, new, n=1):
    assert s.count(old) >= n, old
    return s.replace(old, new)
# C25: renamed locals, commuted disjuncts, flipped comparison, counted loop instead of range
s = open('/repo/internal/api/table.go').read()
s = re.sub(r'\bfromTime\b', 'lo', s); s = re.sub(r'\btoTime\b', 'hi', s); s = re.sub(r'\browsCount\b', 'taken', s)
s = rep(s, 'if hi < lod.FromSec || lod.ToSec < lo {', 'if lod.ToSec < lo || lod.FromSec > hi {')
s = rep(s, 'for range q.sel { // one column per function of this query', 'for k := 0; k < len(q.sel); k++ {')
s = rep(s, 'side != 0 && side == rowSide(rows[len(rows)-1], from, to, fromEnd) {', 'rowSide(rows[len(rows)-1], from, to, fromEnd) == side && 0 != side {')
open(T + '/table.go', 'w').write(s)
# C14-R7: the same class bounds written differently
s = open('/repo/internal/vkgo/basictl/basictl2.go').read()
s = rep(s, 'func TL2WriteSize(w []byte, l int) []byte {\n\tswitch {\n\tcase l < mediumStringMarker:', 'func TL2WriteSize(w []byte, l int) []byte {\n\tswitch {\n\tcase l <= mediumStringMarker-1:')
s = rep(s, 'func TL2CalculateSize(l int) int {\n\tswitch {\n\tcase l < mediumStringMarker:', 'func TL2CalculateSize(l int) int {\n\tswitch {\n\tcase !(l >= mediumStringMarker):')
open(T + '/basictl2.go', 'w').write(s)
s = open('/repo/internal/vkgo/basictl/basictl.go').read()
s = rep(s, '\tcase l <= tinyStringLen:\n\t\tw = append(w, byte(l))', '\tcase l < tinyStringLen+1:\n\t\tw = append(w, byte(l))')
open(T + '/basictl.go', 'w').write(s)
# C05: clamps with max(), flipped comparison
s = open('/repo/internal/data_model/sampling.go').read()
s = rep(s, '\tif sfNum < 1 {\n\t\tsfNum = 1\n\t}\n\tif sfDenom < 1 {\n\t\tsfDenom = 1\n\t}\n\tif sfNum <= sfDenom {', '\tsfNum = max(sfNum, 1)\n\tsfDenom = max(1, sfDenom)\n\tif sfDenom >= sfNum {')
s = rep(s, 'if h.items[i].Item.MetricMeta != nil && h.items[i].MetricID == h.items[i].Item.MetricMeta.MetricID {', 'if mm := h.items[i].Item.MetricMeta; mm != nil && mm.MetricID == h.items[i].MetricID {')
open(T + '/sampling.go', 'w').write(s)
# C22: renamed local, commuted sum
s = open('/repo/internal/data_model/timescale.go').read()
s = re.sub(r'\blodStart\b', 'from', s)
s = rep(s, 'n = resLen + lodLen + m', 'n = m + lodLen + resLen')
open(T + '/timescale.go', 'w').write(s)
# C21-R7: the two commits in the other order
s = open('/repo/internal/data_model/chunked_storage2.go').read()
s = rep(s, '\tc.offset = c.nextOffset\n\tc.hash = c.nextHash\n', '\tc.hash = c.nextHash\n\tc.offset = c.nextOffset\n')
open(T + '/chunked_storage2.go', 'w').write(s)
# C28: guard alternatives reordered, comparison flipped
s = open('/repo/internal/promql/parser/printer.go').read()
s = rep(s, '(len(vm.MatchingLabels) > 0 || vm.On || vm.Card == CardManyToOne || vm.Card == CardOneToMany)', '(vm.Card == CardOneToMany || vm.On || vm.Card == CardManyToOne || 0 < len(vm.MatchingLabels))')
open(T + '/printer.go', 'w').write(s)
s = open('/repo/internal/promql/parser/lex.go').read()
s = rep(s, 'if x > max || 0xD800 <= x && x < 0xE000 {', 'if 0xD800 <= x && x < 0xE000 || max < x {')
open(T + '/lex.go', 'w').write(s)
# C24-R5: commuted increment; C31: renamed buffer variable
s = open('/repo/internal/api/pcache.go').read()
s = rep(s, 'c.size += 1 + len(rows)', 'c.size += len(rows) + 1')
open(T + '/pcache.go', 'w').write(s)
s = open('/repo/internal/balancer/egress.go').read()
s = re.sub(r'\bbufs\b', 'iov', s)
s = rep(s, 'if writeDeadline.IsZero() || s.cfg.WriteTimeout-time.Until(writeDeadline) > writeTimeoutAccuracy {', 'if writeDeadline.IsZero() || writeTimeoutAccuracy < s.cfg.WriteTimeout-time.Until(writeDeadline) {')
open(T + '/egress.go', 'w').write(s)
# C12-R9: the emptiness test of histogram and values split in two
s = open('/repo/internal/agent/agent.go').read()
s = rep(s, 'if len(m.Histogram)+len(m.Value) != 0 {', 'if len(m.Value) != 0 || len(m.Histogram) != 0 {')
open(T + '/agent.go', 'w').write(s)
# C27: index of the last level in a local
s = open('/repo/internal/promql/engine.go').read()
s = rep(s, 'stepMin := ev.t.LODs[len(ev.t.LODs)-1].Step', 'finest := len(ev.t.LODs) - 1\n\tstepMin := ev.t.LODs[finest].Step')
open(T + '/engine.go', 'w').write(s)
PY
run C25 "internal/api/table.go=$T/table.go"
run C14 "internal/vkgo/basictl/basictl2.go=$T/basictl2.go;internal/vkgo/basictl/basictl.go=$T/basictl.go"
run C05 "internal/data_model/sampling.go=$T/sampling.go"
run C06 "internal/data_model/sampling.go=$T/sampling.go"
run C22 "internal/data_model/timescale.go=$T/timescale.go"
run C21 "internal/data_model/chunked_storage2.go=$T/chunked_storage2.go"
run C28 "internal/promql/parser/printer.go=$T/printer.go;internal/promql/parser/lex.go=$T/lex.go"
run C24 "internal/api/pcache.go=$T/pcache.go"
run C31 "internal/balancer/egress.go=$T/egress.go"
run C12 "internal/agent/agent.go=$T/agent.go"
run C27 "internal/promql/engine.go=$T/engine.go"
rm -rf "$T"
exit $rc
