#!/bin/bash
# Negative controls: behaviour-preserving edits of anchored files (renamed locals, reordered
# conjuncts, swapped if/else, reordered independent statements) must leave the checks silent.
# Runs through the loader overlay (SHVERIF_OVERLAY); writes nothing into /repo or /verif/evidence.
set -u
T=$(mktemp -d /tmp/benign.XXXXXX)
python3 - "$T" <<'PY'
import re, sys
T = sys.argv[1]
s = open('/repo/internal/agent/agent_shard_send.go').read()
s = s.replace('respV3', 'answer').replace('cbd compressedBucketData', 'sec compressedBucketData')
s = re.sub(r'\bcbd\b', 'sec', s)
s = s.replace('''	if !answer.IsSetDiscard() {
		shardReplica.stats.recentSendKeep.Add(1)
		return false
	}
	shardReplica.stats.recentSendSuccess.Add(1)
	return true''', '''	if answer.IsSetDiscard() {
		shardReplica.stats.recentSendSuccess.Add(1)
		return true
	}
	shardReplica.stats.recentSendKeep.Add(1)
	return false''')
s = s.replace('''		if s.sendRecent(cancelCtx, sec, sendMoreBytes) {
			s.diskCacheEraseWithLog(sec.id, "after sending")
		} else {
			sec = s.diskCachePutWithLog(sec) // NOP if saved above
			s.appendHistoricBucketsToSend(sec)
		}''', '''		acked := s.sendRecent(cancelCtx, sec, sendMoreBytes)
		if !acked {
			sec = s.diskCachePutWithLog(sec) // NOP if saved above
			s.appendHistoricBucketsToSend(sec)
		} else {
			s.diskCacheEraseWithLog(sec.id, "after sending")
		}''')
open(T + '/agent_shard_send.go', 'w').write(s)
a = open('/repo/internal/aggregator/aggregator.go').read()
open(T + '/aggregator.go', 'w').write(a.replace('sendErr', 'insertErr').replace('aggBuckets', 'batch'))
s = open('/repo/internal/metajournal/meta_metrics.go').read()
s = re.sub(r'\bvalueOld\b', 'prev', s); s = re.sub(r'\bidExists\b', 'known', s)
s = s.replace('if !known || prev.Name != value.Name || prev.Disable != value.Disable {', 'if prev.Disable != value.Disable || !known || value.Name != prev.Name {')
s = s.replace('if cur, ok := ms.metricsByName[prev.Name]; ok && cur.MetricID == value.MetricID {', 'if holder, found := ms.metricsByName[prev.Name]; found && value.MetricID == holder.MetricID {')
open(T + '/meta_metrics.go', 'w').write(s)
j = open('/repo/internal/metajournal/journal_fast.go').read()
j = j.replace('lastEventVersion', 'lastSeen').replace('if lastSeen == ms.currentVersion && loaderVersion >= ms.currentVersion {', 'if loaderVersion >= ms.currentVersion && ms.currentVersion == lastSeen {')
j = j.replace('''	ms.stateHash.Hi ^= old.hash.Hi
	ms.stateHash.Lo ^= old.hash.Lo
	ms.stateHash.Hi ^= hash.Hi
	ms.stateHash.Lo ^= hash.Lo''', '''	ms.stateHash.Lo ^= hash.Lo
	ms.stateHash.Hi ^= old.hash.Hi
	ms.stateHash.Hi ^= hash.Hi
	ms.stateHash.Lo ^= old.hash.Lo''')
open(T + '/journal_fast.go', 'w').write(j)
q = open('/repo/internal/api/sql_query_series.go').read()
q = re.sub(r'\bhasValue\b', 'anyStr', q); q = re.sub(r'\bstarted\b', 'begun', q); q = re.sub(r'\bsb\b', 'out', q)
open(T + '/sql_query_series.go', 'w').write(q)
PY
rc=0
run() { # id overlay
  out=$(SHVERIF_DIR=$T SHVERIF_OVERLAY="$2" /verif/bin/shverif check "$1" 2>&1 | grep -v '^WARNING')
  echo "$out" | tail -1
  echo "$out" | grep -q ' 0 violation(s)' || { echo "BENIGN CONTROL FIRED for $1"; echo "$out" | grep VIOLATION | cut -c1-300; rc=1; }
}
cp /verif/known_findings.json $T/
run C01 "internal/agent/agent_shard_send.go=$T/agent_shard_send.go;internal/aggregator/aggregator.go=$T/aggregator.go"
run C20 "internal/metajournal/meta_metrics.go=$T/meta_metrics.go;internal/metajournal/journal_fast.go=$T/journal_fast.go"
run C26 "internal/api/sql_query_series.go=$T/sql_query_series.go"
rm -rf "$T"
exit $rc
