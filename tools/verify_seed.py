#!/usr/bin/env python3
"""Confirms a seeded change independently of its author, in a scratch worktree of /repo:
  1. the demonstration passes on the unmodified tree,
  2. with patch.diff applied the tree builds, the pinned baseline tests (457) still pass,
  3. the demonstration fails with the patch.
usage: verify_seed.py <seed dir> [--full]     writes <seed dir>/verify.json
"""
import json, os, re, shutil, subprocess, sys, tempfile

ENV = dict(os.environ, GOFLAGS='-mod=mod', GOPROXY='off')

def run(cmd, cwd, timeout=1500):
    p = subprocess.run(cmd, cwd=cwd, env=ENV, shell=isinstance(cmd, str), capture_output=True, text=True, timeout=timeout)
    return p.returncode, p.stdout + p.stderr

def demo_targets(seed):
    """README lines 'demo/x_test.go -> internal/pkg/x_test.go' (any arrow style)."""
    out = []
    readme = os.path.join(seed, 'demo', 'README.md')
    txt = open(readme).read() if os.path.exists(readme) else ''
    for f in sorted(os.listdir(os.path.join(seed, 'demo'))):
        if not f.endswith('.go'):
            continue
        m = re.search(r'([\w./-]*/)' + re.escape(f), txt.replace('demo/' + f, ''))
        dest = None
        for cand in re.findall(r'((?:internal|cmd)/[\w./-]*)', txt):
            if cand.endswith(f):
                dest = cand
                break
        if dest is None:
            for cand in re.findall(r'((?:internal|cmd)/[\w/-]+)/?', txt):
                dest = cand.rstrip('/') + '/' + f
                break
        out.append((os.path.join(seed, 'demo', f), dest))
    return out

def demo_cmd(seed, targets):
    pkgs = sorted({'./' + os.path.dirname(d) + '/' for _, d in targets})
    names = []
    for src, _ in targets:
        names += re.findall(r'^func (Test\w+)\(', open(src).read(), re.M)
    return ['go', 'test', '-vet=off', '-count=1', '-timeout', '600s', '-run', '^(' + '|'.join(names) + ')$'] + pkgs

def baseline(wt):
    rc, out = run(['go', 'test', '-json', '-vet=off', '-count=1', '-timeout', '25m', './...'], wt, timeout=2400)
    passed, failed = set(), set()
    for l in out.splitlines():
        try:
            e = json.loads(l)
        except Exception:
            continue
        if e.get('Test') and e.get('Action') in ('pass', 'fail'):
            (passed if e['Action'] == 'pass' else failed).add(e['Package'] + '::' + e['Test'])
    base = set(json.load(open('/root/.vp/BASELINE.json'))['stable_pass'])
    missing = base - passed
    if missing and len(missing) < 20:
        # retry once (timing-sensitive tests flake when the machine is loaded)
        pkgs = sorted({m.split('::')[0] for m in missing})
        rc, out = run(['go', 'test', '-json', '-vet=off', '-count=1', '-p', '1'] + pkgs, wt, timeout=2400)
        for l in out.splitlines():
            try:
                e = json.loads(l)
            except Exception:
                continue
            if e.get('Test') and e.get('Action') == 'pass':
                passed.add(e['Package'] + '::' + e['Test'])
                failed.discard(e['Package'] + '::' + e['Test'])
    return sorted(base - passed), sorted(failed & base)

def main():
    seed = os.path.abspath(sys.argv[1])
    full = '--full' in sys.argv
    sid = os.path.basename(seed)
    wt = f'/tmp/wtv/{sid}'
    res = {'seed': sid}
    subprocess.run(['git', '-C', '/repo', 'worktree', 'remove', '--force', wt], capture_output=True)
    os.makedirs('/tmp/wtv', exist_ok=True)
    subprocess.run(['git', '-C', '/repo', 'worktree', 'add', '--detach', wt, 'HEAD', '-q'], check=True)
    try:
        targets = demo_targets(seed)
        res['demo_targets'] = [d for _, d in targets]
        for src, dest in targets:
            shutil.copy(src, os.path.join(wt, dest))
        cmd = demo_cmd(seed, targets)
        res['demo_cmd'] = ' '.join(cmd)
        rc, out = run(cmd, wt)
        res['demo_clean_rc'] = rc
        res['demo_clean_tail'] = out[-600:]
        rc, out = run(['git', 'apply', os.path.join(seed, 'patch.diff')], wt)
        res['apply_rc'] = rc
        if rc != 0:
            res['apply_out'] = out[-500:]
        rc, out = run('go build ./... 2>&1 | grep -v "^#" | grep -v statshouse-metadata | grep -v "undefined reference\\|sqlite\\|ld returned\\|collect2\\|/usr/bin/ld\\|running gcc failed" | head -20', wt)
        res['build_other_errors'] = out.strip()[-800:]
        rc, out = run(cmd, wt)
        res['demo_patched_rc'] = rc
        res['demo_patched_tail'] = out[-900:]
        if full:
            for src, dest in targets:
                os.remove(os.path.join(wt, dest))
            missing, failed = baseline(wt)
            res['baseline_missing'] = missing[:10]
            res['baseline_missing_n'] = len(missing)
            res['baseline_failed'] = failed[:10]
        res['confirmed'] = (res['demo_clean_rc'] == 0 and res['apply_rc'] == 0 and res['demo_patched_rc'] != 0
                            and not res['build_other_errors'] and (not full or res['baseline_missing_n'] == 0))
    finally:
        subprocess.run(['git', '-C', '/repo', 'worktree', 'remove', '--force', wt], capture_output=True)
    json.dump(res, open(os.path.join(seed, 'verify.json'), 'w'), indent=1)
    print(sid, 'confirmed' if res.get('confirmed') else 'NOT CONFIRMED', json.dumps({k: v for k, v in res.items() if k.endswith('_rc') or k.endswith('_n')}))

if __name__ == '__main__':
    main()
