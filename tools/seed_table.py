#!/usr/bin/env python3
"""Regenerates the seeded-changes table of DESIGN.md §11 from /verif/seeded/*/meta.json."""
import json, glob, os, re
ADDED = json.load(open('/verif/tools/seed_rules.json'))
rows = []
for m in sorted(glob.glob('/verif/seeded/*/meta.json')):
    j = json.load(open(m))
    sid = j['seed']
    det = j.get('detection', {})
    caught = det.get('caught_by', [])
    rule = ''
    for p, r in det.get('details', {}).items():
        for v in (r.get('violations') or [])[:1]:
            mm = re.search(r'(?:VIOLATION|UNDECIDED): (\S+) @', v)
            if mm:
                rule = mm.group(1)
    how = ADDED.get(sid, 'first table' if caught else 'not caught')
    summ = (j.get('summary') or '').replace('|', '/').replace('\n', ' ')
    if len(summ) > 230:
        summ = summ[:227] + '...'
    rows.append(f"| {sid} | {summ} | {', '.join(caught) if caught else '—'} | {rule or '—'} | {how} |")
tbl = "| seed | change | caught by | rule | status |\n|------|--------|-----------|------|--------|\n" + "\n".join(rows)
p = '/verif/DESIGN.md'
s = open(p).read()
s = re.sub(r'<!-- SEED-TABLE-BEGIN -->.*<!-- SEED-TABLE-END -->', '<!-- SEED-TABLE-BEGIN -->\n' + tbl.replace('\\', '\\\\') + '\n<!-- SEED-TABLE-END -->', s, flags=re.S)
open(p, 'w').write(s)
n = len(rows); c = sum(1 for r in rows if '| — |' not in r.split('|')[3] + '|')
print(f"{n} seeds")

# ---- list of the clauses added after the first rule tables (from props/extra_*.go) ----
import importlib.util
spec = importlib.util.spec_from_file_location('gm', '/verif/tools/gen_manifest_lib.py')
gm = importlib.util.module_from_spec(spec); spec.loader.exec_module(gm)
extra = gm.extra_clauses()
lines = []
for pid in sorted(extra):
    lines.append(f"* **{pid}** — " + ' '.join(extra[pid]))
blk = "\n".join(lines)
s = open(p).read()
if '<!-- EXTRA-RULES-BEGIN -->' in s:
    s = re.sub(r'<!-- EXTRA-RULES-BEGIN -->.*<!-- EXTRA-RULES-END -->', lambda m: '<!-- EXTRA-RULES-BEGIN -->\n' + blk + '\n<!-- EXTRA-RULES-END -->', s, flags=re.S)
    open(p, 'w').write(s)
print(f"{len(extra)} properties with added clauses")
