import json, os
V = '/verif'

def extra_clauses():
    """Clauses added after the first rule tables (props/extra_*.go): the `c.Decides +=` texts, per property."""
    import re, glob
    out = {}
    for f in sorted(glob.glob(f'{V}/checker/props/extra_*.go')):
        src = open(f).read()
        fn2prop = {}
        for m in re.finditer(r'Extend\("(C\d\d)",\s*(\w+)', src):
            fn2prop[m.group(2)] = m.group(1)
        parts = re.split(r'^func ', src, flags=re.M)
        for part in parts[1:]:
            name = re.match(r'(\w+)\(', part)
            if not name:
                continue
            fn = name.group(1)
            prop = fn2prop.get(fn)
            if fn == 'runC31Deadline':
                prop = 'C31'
            if not prop:
                continue
            for d in re.findall(r'c\.Decides \+= "((?:[^"\\]|\\.)*)"', part):
                out.setdefault(prop, []).append(d.strip().replace('\\"', '"').replace('\\\\', '\\'))
    return out
