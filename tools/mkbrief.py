import json, os, sys, glob
props = {json.loads(l)['id']: json.loads(l) for l in open('/verif/properties.jsonl')}
rnd = sys.argv[1]
for pid in sys.argv[2:]:
    p = props[pid]
    sid = f'{pid}-{rnd}'
    known = []
    for m in sorted(glob.glob(f'/verif/seeded/{pid}-*/meta.json')):
        known.append('- ' + json.load(open(m))['summary'][:260].replace('\n', ' '))
    wt = f'/tmp/seedwt/{sid}'
    out = f'/tmp/seed/{sid}'
    txt = f"""# Task: write one realistic regression of a stated property of VKCOM/statshouse

You work ONLY inside the scratch git worktree `{wt}` (a checkout of VKCOM/statshouse, Go). Do not read or touch
`/repo`, `/verif`, `/root` or any other worktree under /tmp/seedwt; do not look at other directories under /tmp/seed.
Shell env for every go command: `export GOFLAGS=-mod=mod GOPROXY=off` (no network; do NOT set GOTOOLCHAIN or GOSUMDB).
Packages that link SQLite (internal/sqlite*, internal/metadata and their dependents' tests) fail to link in this sandbox — that is
expected and not your concern; pick code whose package tests can run.

## The property

id {pid} — {p['title']}

Statement: {p['statement']}

Quantifier: {json.dumps(p.get('quantifier'))}

Anchors (where the behaviour lives): {json.dumps(p.get('anchors'))}

## What to produce

A SMALL change to the non-test source of the worktree (1–15 lines, one or two sites) that a real developer could plausibly make
(an "optimisation", a "tidy-up", a refactoring slip, an off-by-one, a reordered step, a dropped guard, a wrong variable, two
cooperating sites that each look fine alone) and that BREAKS the property above, while
 * the tree still compiles (`go build ./...`, ignoring the SQLite link failure) and `go vet` is not needed,
 * the EXISTING tests of the touched package(s) and of packages that import them still pass (run them; do not edit or delete existing tests),
 * the breakage needs something specific to manifest — a particular interleaving, a crash or fault at a particular point, a multi-step
   sequence of operations, an unusual input, a boundary value — NOT something ordinary use would expose at once.
Do not add panics, obviously malicious code, debug flags or environment switches. Keep comments plausible (a developer who believes the edit is fine).

Plus a DEMONSTRATION: a new Go test file (package-internal `_test.go`, named `seed_{sid.lower().replace('-','')}_test.go`, test function names
starting with `TestSeed{sid.replace('-','')}`) that PASSES on the unmodified tree and FAILS with your change, deterministically
(no flaky timing; if an interleaving is needed, force it). It must check the behaviour the property states, not the implementation detail you changed.

Changes of this property that are ALREADY KNOWN — produce something genuinely different (different site or different mechanism):
{chr(10).join(known) if known else '- (none)'}

## Deliver (exactly these files)

* `{out}/patch.diff` — `git diff` of the non-test source change only (must apply with `git apply` to a clean checkout of the worktree's HEAD);
* `{out}/demo/<your test file>` and `{out}/demo/README.md` whose FIRST line that mentions the test file has the form
  `demo/<file>_test.go -> internal/<pkg path>/<file>_test.go` (destination relative to repository root), then the exact `go test` command, and what passes/fails;
* `{out}/meta.json` with keys: "summary" (file, function, what was changed, 2–4 sentences), "why_it_breaks", "needs_to_manifest", "files_changed" (list).
Before finishing: use `git apply -R <patch>` and `git apply <patch>` (NEVER `git stash`: it is shared between worktrees) to verify the demo passes WITHOUT the change and fails WITH it, and that the existing tests of the touched
packages pass WITH it. Leave the worktree clean of build output you created elsewhere. If, while reading, you notice that the UNMODIFIED code already violates
the property for some concrete input/sequence, add a key "remarks_about_unmodified_tree" to meta.json describing the failing input precisely (do not fix it).
Time box: deliver within 20 minutes of wall time; prefer a simple, certain change over an elaborate one. Your final message: 5 lines max (what you changed, where, demo result).
"""
    open(f'/tmp/seedbrief/{sid}.md', 'w').write(txt)
    os.makedirs(out, exist_ok=True)
    os.system(f'git -C /repo worktree add --detach {wt} HEAD -q')
    print(sid, len(known))
