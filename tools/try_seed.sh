#!/bin/bash
# usage: try_seed.sh <patch.diff> <Cxx> [Cyy...]  — runs the checks against a scratch worktree of /repo with the patch applied
# (development aid; the recorded seeded/<id>/meta.json runs are made against /repo itself)
set -u
patch=$1; shift
wt=$(mktemp -d /tmp/wts.XXXXXX)
git -C /repo worktree add --detach "$wt" HEAD -q || exit 2
git -C "$wt" apply "$patch" || { echo "patch does not apply"; git -C /repo worktree remove --force "$wt"; exit 2; }
mkdir -p "$wt.out"; cp /verif/known_findings.json "$wt.out/"
for id in "$@"; do
  SHVERIF_REPO="$wt" SHVERIF_DIR="$wt.out" /verif/bin/shverif check "$id" --tier "${TIER:-quick}" 2>&1 | grep -v "^WARNING" | cut -c1-700
done
git -C /repo worktree remove --force "$wt"; rm -rf "$wt.out"
