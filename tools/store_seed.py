#!/usr/bin/env python3
"""Stores a confirmed seeded change under /verif/seeded/<id>/ and records which checks catch it.
usage: store_seed.py <seed id> [--recheck]     (seed dir /tmp/seed/<id> with verify.json from verify_seed.py)
The checks are run against a scratch worktree of /repo with the patch applied
(SHVERIF_REPO=<worktree>), never against a modified /repo."""
import json, os, re, shutil, subprocess, sys, tempfile

V = '/verif'

def run_checks(patch, props):
    wt = tempfile.mkdtemp(prefix='wts.', dir='/tmp')
    subprocess.run(['git', '-C', '/repo', 'worktree', 'add', '--detach', wt, 'HEAD', '-q'], check=True)
    out = {}
    try:
        r = subprocess.run(['git', '-C', wt, 'apply', patch], capture_output=True, text=True)
        if r.returncode != 0:
            return {'error': 'patch does not apply: ' + r.stderr[-300:]}
        od = wt + '.out'
        os.makedirs(od, exist_ok=True)
        shutil.copy(f'{V}/known_findings.json', od)
        env = dict(os.environ, SHVERIF_REPO=wt, SHVERIF_DIR=od)
        for p in props:
            r = subprocess.run([f'{V}/bin/shverif', 'check', p, '--tier', 'quick'], capture_output=True, text=True, env=env)
            viol = [l for l in r.stdout.splitlines() if ' VIOLATION: ' in l or ' UNDECIDED: ' in l]
            out[p] = {'exit': r.returncode, 'violations': [re.sub(r'\s+', ' ', v)[:400] for v in viol][:6]}
        shutil.rmtree(od, ignore_errors=True)
    finally:
        subprocess.run(['git', '-C', '/repo', 'worktree', 'remove', '--force', wt], capture_output=True)
    return out

def main():
    sid = sys.argv[1]
    src = f'/tmp/seed/{sid}'
    dst = f'{V}/seeded/{sid}'
    prop = sid.split('-')[0]
    if not os.path.exists(dst):
        ver = json.load(open(f'{src}/verify.json'))
        if not ver.get('confirmed'):
            print(sid, 'not confirmed, not stored')
            return
        os.makedirs(dst, exist_ok=True)
        shutil.copy(f'{src}/patch.diff', dst)
        if os.path.exists(f'{dst}/demo'):
            shutil.rmtree(f'{dst}/demo')
        shutil.copytree(f'{src}/demo', f'{dst}/demo')
        author = json.load(open(f'{src}/meta.json')) if os.path.exists(f'{src}/meta.json') else {}
        meta = {
            'seed': sid, 'property': prop,
            'summary': author.get('summary', ''), 'why_it_breaks': author.get('why_it_breaks', ''),
            'needs_to_manifest': author.get('needs_to_manifest', ''), 'files_changed': author.get('files_changed', []),
            'author': 'independent sub-agent given only the property text and a scratch worktree',
            'confirmation': {
                'what_i_ran': ['tools/verify_seed.py /tmp/seed/%s --full  (scratch worktree of /repo HEAD)' % sid,
                               'demo on unmodified tree: ' + ver['demo_cmd'] + ' -> exit %d' % ver['demo_clean_rc'],
                               'git apply patch.diff -> exit %d; go build ./... (only the sandbox SQLite link failure)' % ver['apply_rc'],
                               'demo with patch -> exit %d (fails)' % ver['demo_patched_rc'],
                               'pinned baseline (457 tests) with patch: missing/failed %d' % ver.get('baseline_missing_n', -1)],
                'demo_targets': ver['demo_targets'],
            },
        }
    else:
        meta = json.load(open(f'{dst}/meta.json'))
    props = [prop] + [p for p in sys.argv[2:] if p.startswith('C')]
    registered = subprocess.run([f'{V}/bin/shverif', 'list'], capture_output=True, text=True).stdout.split()
    props = [p for p in props if p in registered]
    det = run_checks(f'{dst}/patch.diff', props) if props else {}
    caught = [p for p, r in det.items() if isinstance(r, dict) and r.get('exit') == 1]
    meta['detection'] = {'checks_run': props, 'caught_by': caught, 'details': det,
                         'how': 'bin/shverif check <id> --tier quick with SHVERIF_REPO=<scratch worktree of /repo HEAD + patch.diff>'}
    json.dump(meta, open(f'{dst}/meta.json', 'w'), indent=1)
    print(sid, 'stored; caught by', caught if caught else 'NOTHING', '(checks run: %s)' % props)

if __name__ == '__main__':
    main()
